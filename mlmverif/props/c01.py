"""C01 — aggregates are invariant to batching and sharding (structural part).

Decides that merging cannot lose a sufficient statistic: every field the
accumulation side writes is combined by merge with the same operator family
and the same-named operand field; the default add is merge(new()); the
generic fold merges every state once; the agg-fn wrappers delegate
name-to-name.  Numerical agreement and per-example batch independence are
value-level and not decided.
"""
from __future__ import annotations

import ast

from mlmverif import cfg as cfgm
from mlmverif.core import (kwarg, parent_map, AnalysisError, Ctx, FuncInfo, is_self_attr, norm,
                           unparse, walk_no_nested)
from mlmverif.props._agg import MERGE_NAMES, model
from mlmverif.props import c11

EXPLANATION = (
    'Field read/write-set analysis (effect engine) over every shipped'
    ' accumulator: W_acc (fields written by add, or passed to the constructor'
    ' by new for CallableMetrics, minus configuration forwarded unchanged) must'
    ' be a subset of W_merge (fields written/mutated/delegated in merge, or'
    ' compared against the operand in a raising guard); reductions use the same'
    ' operator family (ADD/MIN/MAX) in add and merge; merge pairs each self'
    ' field with the same-named operand field; CallableMetric.add ='
    ' merge(new()); merge_states folds merge over all states; update_state'
    ' combines the batch with the running state; wrappers delegate'
    ' create/update/merge/get to the same-named method. NOT decided: numerical'
    ' equality up to rounding, the pairwise mean/variance formula, per-example'
    ' batch independence (e.g. TopKRetrieval pads k by the batch\'s longest'
    ' row — a value-level question).'
)
ASSUMPTIONS = ['A field written in add but only compared (not combined) in'
               ' merge is accepted when the comparison guards a raise'
               ' (Histogram bin edges).']

MIN_FNS = {'np.minimum', 'np.min', 'min', 'np.nanmin', 'np.fmin', 'np.amin'}
MAX_FNS = {'np.maximum', 'np.max', 'max', 'np.nanmax', 'np.fmax', 'np.amax'}


def run(ctx: Ctx):
  m = model(ctx)
  for r in (r1, r2, r3, r4, r5, r6, r7, r10, r11, r12, r13, r14, r15, r17, r18, r19, r20, r23, r24, r25, r26):
    ctx.guard(r, m)
  ctx.include('R-C01-8', 'merge leaves its operand intact and shares no'
              ' mutable state with it (R-C11-1, R-C11-2): a shard state that'
              ' is altered by being merged gives a different roll-up when it is'
              ' merged again', _c11_shared, m, min_instances=20)
  ctx.include('R-C01-9', 'a partial merge stays a sufficient statistic'
              ' (R-C11-6 lossless merge)', c11.r6, m, min_instances=15)
  from mlmverif.props import c07
  ctx.include('R-C01-16', '"a metric value for one example never depends on which other examples share its'
              ' batch": padding / masked entries an external matcher marks with negative values are removed'
              ' before they are counted, as the docstring promises (R-C07-17) — otherwise a count statistic'
              ' grows with the padding a batch happens to need', c07.r17, {}, min_instances=2)

  ctx.include('R-C01-21', '"any number of independent accumulators ... merged in any grouping and order": a keyed accumulator merges'
              ' over the OPERAND\'s keys (R-C11-10) — iterating the raw configuration instead (a bare metric name iterates as'
              ' characters) makes merge a silent no-op, and the roll-up of shards differs from the single accumulator', c11.r10, m)
  ctx.include('R-C01-22', '"splitting the examples arbitrarily into batches ... same result": a per-feature statistic (dtype of the'
              ' user\'s data) is re-bound, never updated in place (R-C11-16) — an integer batch followed by a float batch would'
              ' otherwise raise in add() while the other order, or one batch, works', c11.r16, m, min_instances=4)

def _c11_shared(sub, m):
  sub.guard(c11.r1, m)
  sub.guard(c11.r2, m)


def _ctor_fields(m, ci, new_fi):
  """Fields a CallableMetric.new passes to the constructor (non-config)."""
  out = {}
  found = False
  init_fields = [f for f in m.repo.all_fields(ci) if f.init]
  pos_fields = [f.name for f in init_fields if not f.kw_only]
  for x in walk_no_nested(new_fi.node):
    if not isinstance(x, ast.Return) or not isinstance(x.value, ast.Call):
      continue
    fn = unparse(x.value.func)
    if fn not in ('self.__class__', 'cls', ci.name, 'type(self)') and (
        fn not in [c.name for c in m.repo.mro(ci)]):
      continue
    found = True
    call = x.value
    items = [(k.arg, k.value) for k in call.keywords if k.arg]
    for name, a in zip(pos_fields, call.args):
      items.append((name, a))
    for name, val in items:
      canon = m.eff.canon_field(ci, name)
      # configuration forwarded unchanged: k=self.k
      if is_self_attr(val) and m.eff.canon_field(ci, val.attr) == canon:
        continue
      out[canon] = val
  return out if found else None


def _guard_compared(m, ci, merge_fi):
  """self fields compared in a test that can lead to a raise."""
  out = set()
  g = cfgm.cfg_of(merge_fi.node)
  raises = [n for n in g.nodes if isinstance(n.ast, ast.Raise)]
  for n in g.nodes:
    if n.kind != 'cond':
      continue
    flds = {m.eff.canon_field(ci, x.attr) for x in cfgm.node_exprs(n)
            if is_self_attr(x)}
    if not flds:
      continue
    reach = g.reachable([n], edge_ok=cfgm.only_normal)
    if any(r in reach for r in raises):
      out |= flds
  return out


def _family(how: str, node: ast.AST) -> str | None:
  if isinstance(node, ast.AugAssign):
    return 'ADD' if isinstance(node.op, ast.Add) else None
  if isinstance(node, ast.Assign):
    v = node.value
    if isinstance(v, ast.Call):
      fn = unparse(v.func)
      if fn in MIN_FNS:
        return 'MIN'
      if fn in MAX_FNS:
        return 'MAX'
    if isinstance(v, ast.BinOp) and isinstance(v.op, ast.Add):
      return 'ADD'
    return None
  if isinstance(node, ast.Call) and isinstance(node.func, ast.Attribute):
    if node.func.attr in ('update', 'extend', 'append'):
      return 'ADD'
    if node.func.attr in ('merge', 'add'):
      return 'DELEGATE'
  return None


def r1(ctx: Ctx, m):
  rule = 'R-C01-1'
  ctx.rule(rule, 'statistic coverage: every field written by the accumulation'
           ' side (add, or the constructor arguments of new) is written,'
           ' mutated, delegated or guard-compared by merge, with the same'
           ' reduction family (ADD/MIN/MAX)')
  n = 0
  for ci in m.accumulators:
    merge = m.method_of(ci, 'merge')
    add = m.method_of(ci, 'add')
    if add is None or m._is_abstract(add):
      continue
    w_merge_ev = m.eff.field_writes(merge)
    w_merge = set(w_merge_ev) | _guard_compared(m, ci, merge)
    default_add = add.qualname == 'CallableMetric.add'
    if default_add:
      new = m.method_of(ci, 'new')
      if new is None or m._is_abstract(new):
        continue
      acc = _ctor_fields(m, ci, new)
      if acc is None:
        ctx.info(rule, new, f'{ci.name}.new: constructor call not recognised')
        raise AnalysisError(f'{rule}: {ci.name}.new does not return a'
                            ' recognisable constructor call')
      w_acc_ev = {k: [] for k in acc}
      where = new
    else:
      w_acc_ev = m.eff.field_writes(add)
      where = add
    n += 1
    missing = sorted(set(w_acc_ev) - w_merge)
    if missing:
      for f in missing:
        ctx.fail(rule, merge, f'{ci.name}.merge: combine {f}',
                 f'{ci.name}: field `{f}` is accumulated per batch'
                 f' ({where.qualname}) but merge() never combines it: results'
                 ' of sharded/batched accumulation differ from the'
                 ' single-accumulator result', node=merge.node)
      continue
    # operator family agreement
    bad = None
    for f, evs in w_acc_ev.items():
      fa = {_family(h, nd) for h, nd in evs} - {None, 'DELEGATE'}
      fm = {_family(h, nd) for h, nd in w_merge_ev.get(f, [])} - {None, 'DELEGATE'}
      if fa and fm and not (fa & fm):
        bad = (f, sorted(fa), sorted(fm))
    if bad:
      f, fa, fm = bad
      ctx.fail(rule, merge, f'{ci.name}.merge: {f} reduction family',
               f'{ci.name}: `{f}` is accumulated with {fa} in add() but'
               f' combined with {fm} in merge()', node=merge.node)
    else:
      ctx.ok(rule, merge, f'{ci.name}: W_acc {sorted(w_acc_ev)} ⊆ W_merge',
             merge.node)
  # _ConfusionMatrix: __iadd__ / __add__ cover every count field
  cm = ctx.repo.cls('aggregates.classification', '_ConfusionMatrix')
  counts = ['tp', 'tn', 'fp', 'fn']
  for name in ('__iadd__', '__add__'):
    fi = cm.methods.get(name)
    if fi is None:
      raise AnalysisError(f'{rule}: _ConfusionMatrix.{name} missing')
    n += 1
    if name == '__iadd__':
      got = set(m.eff.field_writes(fi))
    else:
      got = set()
      for x in walk_no_nested(fi.node):
        if isinstance(x, ast.BinOp) and isinstance(x.op, ast.Add):
          if is_self_attr(x.left) and isinstance(x.right, ast.Attribute):
            got.add(x.left.attr)
    miss = [c for c in counts if c not in got]
    if miss:
      ctx.fail(rule, fi, f'_ConfusionMatrix.{name}: add {miss}',
               f'confusion-matrix count(s) {miss} are not added when two'
               ' matrices are combined', node=fi.node)
    else:
      ctx.ok(rule, fi, f'_ConfusionMatrix.{name} adds tp,tn,fp,fn', fi.node)
  ctx.floor(rule, 14, n)


def _other_aliases(fn: ast.AST, op: str) -> dict[str, str]:
  """local name -> operand attribute it was assigned from."""
  out = {}
  for x in walk_no_nested(fn):
    if isinstance(x, ast.Assign) and len(x.targets) == 1:
      t, v = x.targets[0], x.value
      pairs = []
      if isinstance(t, ast.Name):
        pairs = [(t, v)]
      elif isinstance(t, ast.Tuple) and isinstance(v, ast.Tuple) and len(
          t.elts) == len(v.elts):
        pairs = list(zip(t.elts, v.elts))
      for tt, vv in pairs:
        if isinstance(tt, ast.Name) and isinstance(vv, ast.Attribute) and isinstance(
            vv.value, ast.Name) and vv.value.id == op:
          out[tt.id] = vv.attr
  return out


def r5(ctx: Ctx, m):
  rule = 'R-C01-5'
  ctx.rule(rule, 'name pairing: merge combines each self field with the'
           ' same-named field of the operand (no crossed statistics), also'
           ' through helper calls that receive operand fields positionally')
  n = 0
  for ci, meth in m.merge_methods:
    op = m.operand(meth)
    al = _other_aliases(meth.node, op)

    def op_attrs(e):
      out = []
      for y in ast.walk(e):
        if isinstance(y, ast.Attribute) and isinstance(y.value, ast.Name) and (
            y.value.id == op):
          out.append(y.attr)
        if isinstance(y, ast.Name) and y.id in al and isinstance(y.ctx, ast.Load):
          out.append(al[y.id])
      return out

    problems = []
    checked = 0
    for x in walk_no_nested(meth.node):
      tgt = None
      val = None
      if isinstance(x, ast.AugAssign) and is_self_attr(x.target):
        tgt, val = x.target.attr, x.value
      elif isinstance(x, ast.Assign) and len(x.targets) == 1 and is_self_attr(
          x.targets[0]):
        tgt, val = x.targets[0].attr, x.value
      if tgt is not None:
        # direct operands only (not nested inside other-method calls)
        direct = []
        if isinstance(val, ast.Attribute) or isinstance(val, ast.Name):
          direct = op_attrs(val)
        elif isinstance(val, ast.BinOp):
          direct = [a for side in (val.left, val.right)
                    if isinstance(side, (ast.Attribute, ast.Name))
                    for a in op_attrs(side)]
        elif isinstance(val, ast.BoolOp):
          direct = [a for v in val.values if isinstance(v, (ast.Attribute, ast.Name))
                    for a in op_attrs(v)]
        elif isinstance(val, ast.Call) and unparse(val.func) in (MIN_FNS | MAX_FNS):
          direct = op_attrs(val)
        for a in direct:
          checked += 1
          if a.lstrip('_') != tgt.lstrip('_'):
            problems.append((x, f'self.{tgt} is combined with {op}.{a}'))
      if isinstance(x, ast.BinOp) and is_self_attr(x.left):
        for a in (op_attrs(x.right) if isinstance(x.right, (ast.Attribute, ast.Name)) else []):
          checked += 1
          if a.lstrip('_') != x.left.attr.lstrip('_'):
            problems.append((x, f'self.{x.left.attr} is combined with {op}.{a}'))
      if isinstance(x, ast.Call):
        callee = m.eff.resolve(x, meth)
        if callee is not None and callee.cls is not None:
          ps = callee.params()[1:]
          for p, a in zip(ps, x.args):
            if isinstance(a, ast.Attribute) and isinstance(a.value, ast.Name) and (
                a.value.id == op):
              checked += 1
              if a.attr.lstrip('_') != p.lstrip('_'):
                problems.append((x, f'{op}.{a.attr} is passed as parameter'
                                 f' `{p}` of {callee.name}'))
    if not checked:
      continue
    n += 1
    if problems:
      x, msg = problems[0]
      ctx.fail(rule, meth, x, f'{ci.name}.{meth.name}: {msg} — crossed'
               ' sufficient statistics give wrong merged results')
    else:
      ctx.ok(rule, meth, f'{ci.name}.{meth.name}: {checked} pairings agree',
             meth.node)
  ctx.floor(rule, 10, n)


def r2(ctx: Ctx, m):
  rule = 'R-C01-2'
  ctx.rule(rule, 'default add: CallableMetric.add builds the batch state with'
           ' self.new(*args, **kwargs), merges exactly that object into self'
           ' and returns it; __call__ returns new(...).result()')
  fi = ctx.repo.func('aggregates.base', 'CallableMetric.add')
  var = None
  for x in walk_no_nested(fi.node):
    if isinstance(x, ast.Assign) and isinstance(x.value, ast.Call) and unparse(
        x.value.func) == 'self.new' and isinstance(x.targets[0], ast.Name):
      c = x.value
      if any(isinstance(a, ast.Starred) for a in c.args) and any(
          k.arg is None for k in c.keywords):
        var = x.targets[0].id
  merged = [x for x in walk_no_nested(fi.node) if isinstance(x, ast.Call)
            and unparse(x.func) == 'self.merge']
  direct = [x for x in merged if x.args and isinstance(x.args[0], ast.Call)
            and unparse(x.args[0].func) == 'self.new']
  ok = False
  if var and len(merged) == 1 and len(merged[0].args) == 1 and unparse(
      merged[0].args[0]) == var:
    ok = True
  if direct and len(merged) == 1:
    ok = True
  if ok:
    ctx.ok(rule, fi, 'add = merge(new(*args, **kwargs))', fi.node)
  else:
    ctx.fail(rule, fi, 'CallableMetric.add: batch = self.new(*args, **kwargs); self.merge(batch)',
             'the default add no longer merges exactly the state built by'
             ' new(*args, **kwargs) once: accumulated statistics are lost or'
             ' double counted', node=fi.node)
  call = ctx.repo.func('aggregates.base', 'CallableMetric.__call__')
  rets = [x for x in walk_no_nested(call.node) if isinstance(x, ast.Return)]
  if rets and all('self.new(' in unparse(r.value) and unparse(r.value).endswith(
      '.result()') for r in rets):
    ctx.ok(rule, call, '__call__ = new(...).result()', call.node)
  else:
    ctx.fail(rule, call, 'CallableMetric.__call__: return self.new(*args, **kwargs).result()',
             'the one-shot call no longer evaluates a fresh batch state',
             node=call.node)
  ctx.floor(rule, 2)


def r3(ctx: Ctx, m):
  rule = 'R-C01-3'
  ctx.rule(rule, 'fold: merge_states merges every later state into the first'
           ' exactly once and returns it (R-C11-5); update_state feeds all'
           ' inputs to state.add and returns the state')
  sub = Ctx(ctx.pid, ctx.repo, ctx.tier)
  c11.r5(sub, m)
  for f in sub.findings:
    fi = ctx.repo.func(f.module, f.qualname)
    ctx.fail(rule, fi, f.construct, f.message, node=fi.node)
  for i in sub.instances:
    if i.verdict == 'holds':
      ctx.instances.append(type(i)(rule, i.where, i.what, 'holds', True, i.detail))
  fi = ctx.repo.func('aggregates.base', 'MergeableMetricAggFn.update_state')
  ps = fi.params()
  calls = [x for x in walk_no_nested(fi.node) if isinstance(x, ast.Call)
           and isinstance(x.func, ast.Attribute) and x.func.attr == 'add'
           and unparse(x.func.value) == ps[1]]
  ok = (len(calls) == 1 and any(isinstance(a, ast.Starred) for a in calls[0].args)
        and any(k.arg is None for k in calls[0].keywords))
  rets = [x for x in walk_no_nested(fi.node) if isinstance(x, ast.Return)]
  ok = ok and rets and all(unparse(r.value) == ps[1] for r in rets)
  if ok:
    ctx.ok(rule, fi, 'update_state: state.add(*args, **kwargs); return state', fi.node)
  else:
    ctx.fail(rule, fi, 'MergeableMetricAggFn.update_state: state.add(*args, **kwargs); return state',
             'update_state does not feed every input to state.add exactly once'
             ' and return the same state', node=fi.node)
  ctx.floor(rule, 4)


WRAPPERS = [
    # module, class, wrapped attribute, {method: delegate name}
    ('aggregates.base', 'UserAggregateFn', 'self.fn',
     {'create_state': 'create_state', 'update_state': 'update_state',
      'merge_states': 'merge_states', 'get_result': 'get_result'}),
    ('metrics.classification', 'ClassificationAggFn', 'self.agg_fn',
     {'create_state': 'create_state', 'update_state': 'update_state',
      'merge_states': 'merge_states', 'get_result': 'get_result'}),
    ('chainables.tree_fns', 'TreeAggregateFn', 'self._actual_fn',
     {'create_state': 'create_state', 'update_state': 'update_state',
      'merge_states': 'merge_states', 'get_result': 'get_result'}),
]


def r4(ctx: Ctx, m):
  rule = 'R-C01-4'
  ctx.rule(rule, 'wrapper delegation: create_state/update_state/merge_states/'
           'get_result of the agg-fn wrappers call the same-named method of'
           ' the wrapped aggregate and forward their state/states parameter')
  for mod, cls, recv, table in WRAPPERS:
    for meth, deleg in table.items():
      fi = ctx.repo.func(mod, f'{cls}.{meth}')
      calls = [x for x in walk_no_nested(fi.node) if isinstance(x, ast.Call)
               and isinstance(x.func, ast.Attribute)
               and unparse(x.func.value) == recv]
      names = {c.func.attr for c in calls}
      ps = fi.params()[1:]
      problem = None
      if deleg not in names:
        problem = (f'calls {sorted(names) or "nothing"} on {recv} instead of'
                   f' {deleg}')
      elif names - {deleg}:
        problem = f'also calls {sorted(names - {deleg})} on {recv}'
      else:
        c = [x for x in calls if x.func.attr == deleg][0]
        argtxt = [unparse(a) for a in c.args] + [unparse(k.value) for k in c.keywords]
        if ps and ps[0] not in ' '.join(argtxt):
          problem = f'does not forward `{ps[0]}` to {recv}.{deleg}'
      if problem:
        ctx.fail(rule, fi, f'{cls}.{meth} -> {recv}.{deleg}',
                 f'{cls}.{meth} {problem}: the wrapped aggregate\'s'
                 ' batching/merging contract is bypassed', node=fi.node)
      else:
        ctx.ok(rule, fi, f'{cls}.{meth} -> {recv}.{deleg}', fi.node)
  # Keras wrapper
  k = 'aggregates.keras_metric_wrapper'
  for meth, recv_param, deleg in (('update_state', 'state', 'update_state'),
                                  ('get_result', 'state', 'result')):
    fi = ctx.repo.func(k, f'KerasAggregateFn.{meth}')
    ok = any(isinstance(x, ast.Call) and isinstance(x.func, ast.Attribute)
             and x.func.attr == deleg and unparse(x.func.value) == recv_param
             for x in walk_no_nested(fi.node))
    if ok:
      ctx.ok(rule, fi, f'KerasAggregateFn.{meth} -> {recv_param}.{deleg}', fi.node)
    else:
      ctx.fail(rule, fi, f'KerasAggregateFn.{meth} -> {recv_param}.{deleg}',
               f'KerasAggregateFn.{meth} no longer calls {recv_param}.{deleg}',
               node=fi.node)
  ctx.floor(rule, 12)


def r6(ctx: Ctx, m):
  rule = 'R-C01-6'
  ctx.rule(rule, 'running state: ConfusionMatrixAggFn.update_state returns the'
           ' batch matrix combined (+) with the running state, and the batch'
           ' matrix alone only when there is no state yet;'
           ' AggFnNested.update_state updates every leaf from its own state')
  fi = ctx.repo.func('aggregates.classification', 'ConfusionMatrixAggFn.update_state')
  state = fi.params()[1]
  cmv = None
  for x in walk_no_nested(fi.node):
    if isinstance(x, ast.Assign) and isinstance(x.value, ast.Call) and (
        '_calculate_confusion_matrix' in unparse(x.value.func)) and isinstance(
            x.targets[0], ast.Name):
      cmv = x.targets[0].id
      if not any(isinstance(a, ast.Starred) or True for a in x.value.args):
        cmv = None
  rets = [x for x in walk_no_nested(fi.node) if isinstance(x, ast.Return)]
  ok = bool(cmv and rets)
  combined = False
  for r in rets:
    names = {y.id for y in ast.walk(r.value) if isinstance(y, ast.Name)}
    if cmv not in names:
      ok = False
    for y in ast.walk(r.value):
      if isinstance(y, ast.BinOp) and isinstance(y.op, ast.Add):
        s = {z.id for z in ast.walk(y) if isinstance(z, ast.Name)}
        if {cmv, state} <= s:
          combined = True
      if isinstance(y, ast.IfExp):
        # the branch without the state must be the falsy-state branch
        body_n = {z.id for z in ast.walk(y.body) if isinstance(z, ast.Name)}
        else_n = {z.id for z in ast.walk(y.orelse) if isinstance(z, ast.Name)}
        test = unparse(y.test)
        if state in test and 'not' not in test and state not in body_n:
          ok = False
        if state in test and 'not' in test and state not in else_n:
          ok = False
  for x in walk_no_nested(fi.node):
    if isinstance(x, ast.AugAssign) and isinstance(x.op, ast.Add):
      s = {z.id for z in ast.walk(x) if isinstance(z, ast.Name)}
      if {cmv, state} <= s:
        combined = True
  if ok and combined:
    ctx.ok(rule, fi, 'update_state: cm + state (cm alone when no state)', fi.node)
  else:
    ctx.fail(rule, fi, 'ConfusionMatrixAggFn.update_state: return (cm + state) if state else cm',
             'update_state does not add the batch confusion matrix to the'
             ' running state on the path where a state exists: earlier batches'
             ' are dropped', node=fi.node)
  ctx.floor(rule, 1)


def r7(ctx: Ctx, m):
  rule = 'R-C01-7'
  ctx.rule(rule, 'path coverage: on every normal path through merge that is'
           ' not an "operand is empty" early return (all-NaN sentinel, or the'
           ' emptiness of the single container/statistic the class keeps), every'
           ' accumulated field is written (directly, in a loop body, or by a'
           ' resolved self/super callee)')
  n = 0
  for ci in m.accumulators:
    merge = m.method_of(ci, 'merge')
    if merge.cls is not None and 'merge' not in ci.methods:
      continue  # inherited: analysed at the defining class
    add = m.method_of(ci, 'add')
    if add is None or m._is_abstract(add):
      # a pure state class (merged by its owner): the statistics are what its
      # own merge combines on the main path
      if 'merge' not in ci.methods:
        continue
      fields = {f for f, ws in m.eff.field_writes(merge).items()
                if any(how in ('aug', 'assign', 'mutator', 'delegate') for how, _ in ws)}
      add = None
    elif add.qualname == 'CallableMetric.add':
      new = m.method_of(ci, 'new')
      acc = _ctor_fields(m, ci, new) if new is not None and not m._is_abstract(new) else None
      if acc is None:
        continue
      fields = set(acc)
    else:
      fields = set(m.eff.field_writes(add))
    op = m.operand(merge)
    fields -= _guard_compared(m, ci, merge)
    fields &= set(m.eff.field_writes(merge))
    n_stats = len(fields)
    g = cfgm.cfg_of(merge.node)
    # fields only ever written under a test of the receiver's own state are
    # "initialise once" configuration (e.g. _multi_input): not path-checked
    from mlmverif.core import parent_map
    pm = parent_map(merge.node)

    def under_self_if(a):
      cur = a
      while cur in pm:
        par = pm[cur]
        if isinstance(par, ast.If) and any(cur is b for b in par.body) and any(
            is_self_attr(y) for y in ast.walk(par.test)):
          return True
        cur = par
      return False

    keep = set()
    for f in fields:
      for nd in g.nodes:
        if nd.kind not in ('stmt', 'for_iter') or nd.ast is None:
          continue
        tmp = FuncInfo(merge.module, merge.qualname, merge.node, ci)
        sub = (ast.Module(body=nd.ast.body, type_ignores=[])
               if nd.kind == 'for_iter' else nd.ast)
        if _writes_in(m, tmp, sub, f, ci,
                      loop=nd.ast if nd.kind == 'for_iter' else None):
          if not under_self_if(nd.ast):
            keep.add(f)
    fields = keep
    if not fields:
      continue
    # per CFG node: which fields does executing it write?
    def node_writes(nd, fld):
      a = nd.ast
      if a is None:
        return False
      if nd.kind == 'for_iter':
        tmp = FuncInfo(merge.module, merge.qualname, merge.node, ci)
        body = ast.Module(body=a.body, type_ignores=[])
        return _writes_in(m, tmp, body, fld, ci, loop=a)
      if nd.kind in ('stmt', 'cond'):
        tmp = FuncInfo(merge.module, merge.qualname, merge.node, ci)
        return _writes_in(m, tmp, a, fld, ci)
      return False

    def operand_only_return(a, b, lab):
      if lab in ('exc', 'close'):
        return False
      # prune the edge into an early `return` guarded by an operand-only test
      if a.kind == 'cond' and lab == 'true' and isinstance(b.ast, ast.Return):
        names = {y.id for y in cfgm.node_exprs(a) if isinstance(y, ast.Name)}
        if op in names and 'self' not in names:
          # "the operand is empty": either the all-NaN sentinel of a statistic,
          # or the emptiness of the ONE container/statistic the class keeps —
          # testing one of several statistics does not make the others empty
          txt = unparse(a.ast)
          if 'isnan' in txt or (len(keep) == 1 and not _tests_one_of_several(m, a.ast, op)):
            return False
      return True

    n += 1
    bad = None
    for f in sorted(fields):
      w = g.must_pass(g.entry, [g.exit_ret], lambda nd, f=f: node_writes(nd, f),
                      operand_only_return)
      if w is not None:
        bad = (f, w)
        break
    if bad:
      f, w = bad
      ctx.fail(rule, merge, f'{ci.name}.merge: every path combines {f}',
               f'{ci.name}.merge has a normal path (not an empty-operand early'
               f' return) that leaves `{f}` un-combined: that statistic of the'
               ' operand is silently dropped on this path', node=merge.node,
               witness=w)
    else:
      ctx.ok(rule, merge, f'{ci.name}.merge writes {sorted(fields)} on every path',
             merge.node)
  ctx.floor(rule, 10, n)


def _tests_one_of_several(m, test: ast.AST, op: str) -> bool:
  """`other.<state>.<stat>`: does the test look INSIDE the operand's state object at
  one statistic of a state class whose own merge combines several?  (p_trues == 0
  does not make tp_preds/p_preds empty.)"""
  for x in ast.walk(test):
    if isinstance(x, ast.Attribute) and isinstance(x.value, ast.Attribute) and isinstance(
        x.value.value, ast.Name) and x.value.value.id == op:
      stat = x.attr
      cands = []
      for ci in m.accumulators:
        mg = ci.methods.get('merge')
        if mg is None:
          continue
        ws = {f for f, hows in m.eff.field_writes(mg).items()
              if any(how in ('aug', 'assign', 'mutator', 'delegate') for how, _ in hows)}
        names = {f.lstrip('_') for f in ws} | ws
        if stat in names or stat.lstrip('_') in names:
          cands.append(len(ws))
      if not cands:
        raise AnalysisError(f'R-C01-7: cannot resolve the state class behind `{unparse(x)}`')
      if max(cands) > 1:
        return True
  return False


def _writes_in(m, fi, node, fld, ci, loop=None) -> bool:
  alias = {}
  if loop is not None:
    it, tg = loop.iter, loop.target
    if isinstance(it, ast.Call) and unparse(it.func) == 'zip' and isinstance(
        tg, (ast.Tuple, ast.List)):
      for t, a in zip(tg.elts, it.args):
        if isinstance(t, ast.Name) and is_self_attr(a):
          alias[t.id] = m.eff.canon_field(ci, a.attr)
    elif isinstance(tg, ast.Name) and is_self_attr(it):
      alias[tg.id] = m.eff.canon_field(ci, it.attr)
  for x in ([node] if not isinstance(node, ast.Module) else node.body):
    for y in ast.walk(x):
      if isinstance(y, (ast.Assign, ast.AnnAssign, ast.AugAssign)):
        tg = y.targets if isinstance(y, ast.Assign) else [y.target]
        for t in tg:
          for tt in (t.elts if isinstance(t, (ast.Tuple, ast.List)) else [t]):
            base = tt
            while isinstance(base, ast.Subscript):
              base = base.value
            if is_self_attr(base) and m.eff.canon_field(ci, base.attr) == fld:
              return True
      if isinstance(y, ast.Call):
        f = y.func
        if isinstance(f, ast.Attribute):
          base = f.value
          while isinstance(base, ast.Subscript):
            base = base.value
          if is_self_attr(base) and m.eff.canon_field(ci, base.attr) == fld:
            return True
          if isinstance(base, ast.Name) and alias.get(base.id) == fld:
            return True
        callee = m.eff.resolve(y, fi)
        if callee is not None and callee.cls is not None:
          if fld in m.eff.field_writes(callee):
            return True
  # aliases: `for a, b in zip(self.F, ...)` then a.extend()
  if isinstance(node, ast.Module):
    return False
  return False


_DEDUP = ('set', 'frozenset', 'np.unique', 'numpy.unique', 'dict.fromkeys', 'mit.unique_everseen',
          'more_itertools.unique_everseen')
_GROW = ('append', 'extend', 'add', 'update', 'insert')


def r10(ctx: Ctx, m):
  rule = 'R-C01-10'
  ctx.rule(rule, '"a metric value for one example never depends on which other'
           ' examples share its batch" (counting metrics): in the accumulation'
           ' methods that loop over the examples of a batch, a de-duplication'
           ' (set / unique / dict.fromkeys) is never applied to a collection'
           ' that gathers items ACROSS the examples of the batch — duplicates'
           ' may only be removed within one example, otherwise the count an'
           ' example contributes depends on its batch mates')
  n = 0
  for ci in m.classes:
    for name in ('add', 'new', 'update', '__call__', 'update_state'):
      fi = ci.methods.get(name)
      if fi is None:
        continue
      params = set(fi.params()[1:])
      if not params:
        continue
      pm = parent_map(fi.node)
      for lp in walk_no_nested(fi.node):
        if not isinstance(lp, ast.For):
          continue
        it_names = {x.id for x in ast.walk(lp.iter) if isinstance(x, ast.Name)}
        if not (it_names & params):
          continue
        # only the outermost loop over the batch
        q = pm.get(lp)
        nested = False
        while q is not None and q is not fi.node:
          if isinstance(q, (ast.For, ast.While)):
            nested = True
          q = pm.get(q)
        if nested:
          continue
        n += 1
        inside = set(map(id, ast.walk(lp)))
        # collections created outside the loop and grown inside it
        created_out = {t.id for x in walk_no_nested(fi.node) if isinstance(x, ast.Assign)
                       and id(x) not in inside for t in x.targets if isinstance(t, ast.Name)}
        created_in = {t.id for x in ast.walk(lp) if isinstance(x, ast.Assign)
                      for t in x.targets if isinstance(t, ast.Name)}
        grown = set()
        for x in ast.walk(lp):
          if isinstance(x, ast.Call) and isinstance(x.func, ast.Attribute) and x.func.attr in _GROW and (
              isinstance(x.func.value, ast.Name)):
            grown.add(x.func.value.id)
          if isinstance(x, ast.AugAssign) and isinstance(x.target, ast.Name):
            grown.add(x.target.id)
        cross = (grown & created_out) - created_in
        bad = None
        for x in walk_no_nested(fi.node):
          if isinstance(x, ast.Call) and unparse(x.func) in _DEDUP and x.args:
            used = {y.id for y in ast.walk(x.args[0]) if isinstance(y, ast.Name)}
            if used & cross:
              bad = (x, sorted(used & cross))
        if bad:
          node, names = bad
          ctx.fail(rule, fi, f'{ci.name}.{name}: de-duplication per example, not per batch',
                   f'{ci.name}.{name} removes duplicates from `{names[0]}`, which'
                   ' gathers items across all examples of the batch'
                   f' (`{unparse(node)[:40]}`): what one example contributes now'
                   ' depends on the other examples in its batch, so different'
                   ' batchings of the same data give different results', node=node)
        else:
          ctx.ok(rule, fi, f'{ci.name}.{name}: loop over {sorted(it_names & params)} keeps'
                 ' de-duplication (if any) within one example', lp)
  ctx.floor(rule, 1, n)


def r11(ctx: Ctx, m):
  rule = 'R-C01-11'
  ctx.rule(rule, 'configuration reaches the computation: when a method of an'
           ' accumulator class calls a module-level helper (or constructs a'
           ' helper class) that has an OPTIONAL parameter named like one of the'
           ' class\'s own configuration fields (p or _p), the call passes that'
           ' parameter — otherwise the helper falls back to a per-batch'
           ' default (e.g. a vocabulary deduced from the batch) and an'
           ' example\'s value depends on its batch mates')
  repo = m.repo
  n = 0
  for ci in m.classes:
    fields = {f.name for c in repo.mro(ci) for f in c.fields}
    if not fields:
      continue
    for meth in ci.methods.values():
      for c in ast.walk(meth.node):
        if not isinstance(c, ast.Call):
          continue
        callee = m.eff.resolve(c, meth)
        opt: set[str] = set()
        pos: list[str] = []
        if callee is not None and callee.cls is None:
          a = callee.node.args
          pos = [x.arg for x in a.posonlyargs + a.args]
          opt = set(pos[len(pos) - len(a.defaults):]) | {
              x.arg for x, d in zip(a.kwonlyargs, a.kw_defaults) if d is not None}
          name = callee.qualname
        else:
          k = repo.resolve_class(ci.module, unparse(c.func))
          if k is None or k is ci:
            continue
          kf = [f for c_ in reversed(repo.mro(k)) if c_.is_dataclass for f in c_.fields if f.init]
          if not kf:
            continue
          pos = [f.name for f in kf if not f.kw_only]
          opt = {f.name for f in kf if f.default is not None or f.default_factory is not None}
          name = k.name
        if any(kw.arg is None for kw in c.keywords) or any(isinstance(a_, ast.Starred) for a_ in c.args):
          continue
        passed = {kw.arg for kw in c.keywords if kw.arg} | set(pos[:len(c.args)])
        for p_ in sorted(opt):
          if p_ in fields or ('_' + p_) in fields:
            n += 1
            if p_ in passed:
              ctx.ok(rule, meth, f'{ci.name}.{meth.name}: {name}(..., {p_}=...) forwarded', c)
            else:
              ctx.fail(rule, meth, f'{ci.name}.{meth.name}: {name}(..., {p_}=self.{p_})',
                       f'{ci.name} is configured with `{p_}` but {ci.name}.{meth.name}'
                       f' calls {name}() without it: the helper uses its default'
                       ' (deduced per call), so the configured value is ignored and'
                       ' the result of an example depends on the batch it is in',
                       node=c)
  ctx.floor(rule, 6, n)


def r12(ctx: Ctx, m):
  rule = 'R-C01-12'
  ctx.rule(rule, 'count bookkeeping on every path: a self-statistic that an'
           ' accumulation helper updates unconditionally at the end of its'
           ' body (`self.f += ...` at statement level) is updated on EVERY'
           ' normal path through it — an early return that depends on the'
           ' accumulator\'s own state skips the update for some batchings only'
           ' (early returns that test the arguments alone are exempt)')
  n = 0
  for ci in m.classes:
    for meth in ci.methods.values():
      if meth.name in MERGE_NAMES or meth.name in ('result', '__init__', '__post_init__'):
        continue
      top_augs = [x for x in meth.node.body if isinstance(x, ast.AugAssign) and is_self_attr(x.target)]
      rets = [x for x in walk_no_nested(meth.node) if isinstance(x, ast.Return)]
      if not top_augs:
        continue
      n += 1
      if not rets:
        ctx.ok(rule, meth, f'{ci.name}.{meth.name}: single exit', meth.node)
        continue
      g = cfgm.cfg_of(meth.node)
      pm = parent_map(meth.node)

      def arg_only_return(nd):
        # exit edges of returns guarded by a test that does not mention self
        return False

      bad = None
      for a in top_augs:
        anodes = [nd for nd in g.nodes if nd.ast is a]

        def edge_ok(p_, q_, lab):
          if lab in ('exc', 'close'):
            return False
          if p_.kind == 'cond' and not any(
              isinstance(y, ast.Name) and y.id == 'self' for y in ast.walk(p_.ast)):
            # branch decided by the arguments alone: follow only the edge that
            # does not lead straight into a return
            tgt_ret = q_.kind == 'stmt' and isinstance(q_.ast, ast.Return)
            if tgt_ret:
              return False
          return True

        w = g.must_pass(g.entry, [g.exit_ret], lambda nd: nd in anodes, edge_ok)
        if w is not None:
          bad = (a, w)
      if bad:
        a, w = bad
        ctx.fail(rule, meth, f'{ci.name}.{meth.name}: `{unparse(a)}` on every path',
                 f'{ci.name}.{meth.name} can return without executing `{unparse(a)}`'
                 ' on a path chosen by the accumulator\'s own state: the'
                 ' statistic misses the inputs of some calls, so feeding the'
                 ' same data in other batch sizes gives another result',
                 node=a, witness=w[-8:])
      else:
        ctx.ok(rule, meth, f'{ci.name}.{meth.name}: end-of-body updates on every path', meth.node)
  ctx.floor(rule, 3, n)


_REDUCTIONS = {'sum', 'nansum', 'mean', 'nanmean', 'var', 'nanvar', 'std', 'nanstd', 'min', 'max',
               'nanmin', 'nanmax', 'count_nonzero', 'prod', 'median', 'nanmedian'}


def r13(ctx: Ctx, m):
  rule = 'R-C01-13'
  ctx.rule(rule, 'the statistics of one batch are reduced along the SAME axis:'
           ' within an accumulation method, all numpy reductions (sum, nanmean,'
           ' nanvar, min, max, ...) whose argument is built from one and the same'
           ' batch variable carry the same `axis` — a per-column mean combined'
           ' with a whole-batch count gives merge weights that are only right'
           ' for 1-D input')
  n = 0
  for ci in m.classes:
    for meth in ci.methods.values():
      groups: dict[str, list] = {}
      for c in ast.walk(meth.node):
        if isinstance(c, ast.Call) and isinstance(c.func, ast.Attribute) and c.func.attr in _REDUCTIONS and (
            unparse(c.func.value) in ('np', 'numpy')) and c.args:
          base = {y.id for y in ast.walk(c.args[0]) if isinstance(y, ast.Name)} - {'np', 'numpy', 'self'}
          if len(base) != 1 or any(isinstance(y, ast.Attribute) and is_self_attr(y)
                                   for y in ast.walk(c.args[0])):
            continue
          ax = kwarg(c, 'axis')
          if ax is None and len(c.args) > 1:
            ax = c.args[1]
          groups.setdefault(next(iter(base)), []).append((c, unparse(ax) if ax is not None else None))
      for var, lst in groups.items():
        if len(lst) < 2:
          continue
        n += 1
        axes = {a for _, a in lst}
        if len(axes) == 1:
          ctx.ok(rule, meth, f'{ci.name}.{meth.name}: {len(lst)} reductions of `{var}` along axis={next(iter(axes))}',
                 lst[0][0])
        else:
          odd = min(lst, key=lambda t: sum(1 for _, a in lst if a == t[1]))
          ctx.fail(rule, meth, f'{ci.name}.{meth.name}: reductions of `{var}` along one axis',
                   f'{ci.name}.{meth.name} reduces `{var}` along different axes'
                   f' ({sorted((unparse(c.func), a) for c, a in lst)}): the statistics'
                   ' of one batch no longer refer to the same cells, so the weights'
                   ' used when batches or shards are merged are wrong for'
                   ' multi-column input (1-D input hides it)', node=odd[0])
  ctx.floor(rule, 3, n)


def r14(ctx: Ctx, m):
  rule = 'R-C01-14'
  ctx.rule(rule, '"a metric value for one example never depends on which other examples share its'
           ' batch": the cut-offs a top-k metric is evaluated at (`k_list`) are a function of the'
           ' CONFIGURATION only. In every function of the retrieval / classification aggregates'
           ' that works with k_list, no extent of the batch (len(...) / .shape of the data, and'
           ' anything computed from it) flows into (a) a re-definition of the k list that is then'
           ' used as an index, or (b) the bound of the loop that produces the per-k results —'
           ' except on the branch where no k_list is configured. A batch-dependent k dimension'
           ' gives per-batch statistics of different lengths: accumulating them raises or'
           ' silently broadcasts')
  repo = ctx.repo
  n = 0
  from mlmverif.core import parent_map
  for mod in ('aggregates.retrieval', 'aggregates.classification'):
    mi = repo.module(mod)
    fns = list(mi.functions.values()) + [m_ for c in mi.classes.values() for m_ in c.methods.values()]
    for fi in fns:
      names = {y.id for y in ast.walk(fi.node) if isinstance(y, ast.Name)}
      uses_k = 'k_list' in names or any(is_self_attr(y, 'k_list') for y in ast.walk(fi.node))
      if not uses_k:
        continue
      pm = parent_map(fi.node)

      def unconfigured_branch(x):
        """x sits where no k_list is configured (else of `if self.k_list` / `if k_list`)."""
        prev, q = x, pm.get(x)
        while q is not None and q is not fi.node:
          if isinstance(q, (ast.If, ast.IfExp)):
            t = unparse(q.test)
            neg = isinstance(q.test, ast.UnaryOp) and isinstance(q.test.op, ast.Not)
            if t.replace('not ', '').strip('()') in ('self.k_list', 'k_list'):
              in_else = (prev in q.orelse) if isinstance(q, ast.If) else (prev is q.orelse)
              in_body = (prev in q.body) if isinstance(q, ast.If) else (prev is q.body)
              if (in_else and not neg) or (in_body and neg):
                return True
          prev, q = q, pm.get(q)
        return False

      def extent_source(e):
        for y in ast.walk(e):
          if isinstance(y, ast.Call) and unparse(y.func) == 'len' and y.args and 'k_list' not in unparse(y.args[0]):
            return True
          if isinstance(y, ast.Name) and y.id == 'len' and isinstance(pm.get(y), ast.Call) and pm.get(y).func is not y:
            return True   # map(len, rows)
          if isinstance(y, ast.Attribute) and y.attr == 'shape':
            return True
        return False

      tainted: set[str] = set()
      kder: set[str] = {'k_list'}
      for _ in range(4):
        for x in ast.walk(fi.node):
          if isinstance(x, ast.Assign) and not unconfigured_branch(x):
            tg = set()
            for tt in x.targets:
              for t in (tt.elts if isinstance(tt, (ast.Tuple, ast.List)) else [tt]):
                if isinstance(t, ast.Name):
                  tg.add(t.id)
            vals = x.value
            # an IfExp whose else is the unconfigured case: only the configured arm counts
            if isinstance(vals, ast.IfExp) and unparse(vals.test).strip('()') in ('self.k_list', 'k_list'):
              vals = vals.body
            vn = {y.id for y in ast.walk(vals) if isinstance(y, ast.Name)}
            if extent_source(vals) or (vn & tainted):
              tainted |= tg
            if (vn & kder) or any(is_self_attr(y, 'k_list') for y in ast.walk(vals)):
              kder |= tg
      n += 1
      bad = None
      # (a) a k-derived variable that is also batch-tainted and used as an index
      idx_names = {y.id for s_ in ast.walk(fi.node) if isinstance(s_, ast.Subscript) for y in ast.walk(s_.slice)
                   if isinstance(y, ast.Name)}
      # ... or handed to the helpers that index with it
      idx_names |= {a_.id for c_ in ast.walk(fi.node) if isinstance(c_, ast.Call)
                    and not (isinstance(c_.func, ast.Name) and c_.func.id in ('len', 'min', 'max', 'sorted', 'list', 'set'))
                    and not unparse(c_.func).startswith(('np.', 'logging.'))
                    for a_ in list(c_.args) + [k_.value for k_ in c_.keywords] if isinstance(a_, ast.Name)}
      both = (tainted & kder & idx_names)
      if both:
        def first_line(v_):
          return min((x.lineno for x in ast.walk(fi.node) if isinstance(x, ast.Assign) and any(
              isinstance(t, ast.Name) and t.id == v_ for tt in x.targets for t in (
                  tt.elts if isinstance(tt, (ast.Tuple, ast.List)) else [tt])) and not unconfigured_branch(x)), default=10**9)
        v = min(both, key=first_line)
        bad = (next(x for x in ast.walk(fi.node) if isinstance(x, ast.Assign) and any(
            isinstance(t, ast.Name) and t.id == v for tt in x.targets for t in (
                tt.elts if isinstance(tt, (ast.Tuple, ast.List)) else [tt])) and not unconfigured_branch(x)),
               f'`{v}` — the k values the statistics are indexed by — is recomputed from the batch')
      # (b) per-k loop bound
      for lp in ast.walk(fi.node):
        if isinstance(lp, ast.For) and isinstance(lp.iter, ast.Call) and unparse(lp.iter.func) == 'range':
          per_k = any(isinstance(y, ast.Compare) and any(isinstance(o, ast.In) for o in y.ops) and 'k_list' in unparse(y)
                      for y in ast.walk(lp)) and any(isinstance(y, (ast.Yield, ast.Return)) or (
                          isinstance(y, ast.Call) and isinstance(y.func, ast.Attribute) and y.func.attr == 'append')
                          for y in ast.walk(lp))
          bn = {y.id for a_ in lp.iter.args for y in ast.walk(a_) if isinstance(y, ast.Name)}
          if per_k and ((bn & tainted) or any(extent_source(a_) for a_ in lp.iter.args)):
            bad = (lp, f'the loop that produces one result per k runs to `{unparse(lp.iter)[:40]}`, which depends on the batch')
      if bad:
        ctx.fail(rule, fi, f'{fi.qualname}: the evaluated k values depend on the configuration only',
                 f'{bad[1]} (row lengths of the data): a batch of short rankings yields fewer k entries than a'
                 ' batch of long ones, so the same examples give different state shapes depending on how they'
                 ' are batched — accumulating / merging them raises ValueError or broadcasts silently',
                 node=bad[0])
      else:
        ctx.ok(rule, fi, f'{fi.qualname}: k values come from the configuration', fi.node)
  ctx.floor(rule, 3, n)


def r15(ctx: Ctx, m):
  rule = 'R-C01-15'
  ctx.rule(rule, '"a metric value for one example never depends on which other examples happen to share'
           ' its batch": inside a loop over the examples of a batch, nothing that is computed FROM the'
           ' current example is memoised across iterations — no `if v is None: v = f(<loop variables>)`'
           ' (or `v = v or f(...)`) for a variable initialised outside the loop. The first example\'s'
           ' value would be reused for all others: with ragged rows every row is then truncated or'
           ' padded to the length of whichever row comes first in the batch')
  repo = ctx.repo
  n = 0
  hits = 0
  for mod in ('aggregates.retrieval', 'aggregates.classification', 'aggregates.rolling_stats', 'aggregates.text',
              'aggregates.stats', 'aggregates.utils'):
    try:
      mi = repo.module(mod)
    except Exception:  # pylint: disable=broad-exception-caught
      continue
    fns = list(mi.functions.values()) + [m_ for c in mi.classes.values() for m_ in c.methods.values()]
    for fi in fns:
      for lp in walk_no_nested(fi.node):
        if not isinstance(lp, ast.For):
          continue
        n += 1
        lvars = {y.id for y in ast.walk(lp.target) if isinstance(y, ast.Name)}
        inits = {t.id for x in walk_no_nested(fi.node) if isinstance(x, ast.Assign) and x.lineno < lp.lineno
                 and isinstance(x.value, ast.Constant) and x.value.value is None for t in x.targets if isinstance(t, ast.Name)}
        for x in ast.walk(lp):
          memo = None
          if isinstance(x, ast.If) and isinstance(x.test, ast.Compare) and isinstance(x.test.ops[0], ast.Is) and isinstance(
              x.test.left, ast.Name) and x.test.left.id in inits and unparse(x.test.comparators[0]) == 'None':
            for b in x.body:
              if isinstance(b, ast.Assign) and any(isinstance(t, ast.Name) and t.id == x.test.left.id for t in b.targets) and any(
                  isinstance(y, ast.Name) and y.id in lvars for y in ast.walk(b.value)):
                memo = (b, x.test.left.id)
          if memo:
            hits += 1
            ctx.fail(rule, fi, f'{fi.qualname}: per-example values are computed per example',
                     f'`{unparse(memo[0])[:60]}` is computed from the current example (`{sorted(lvars)}`) but kept in'
                     f' `{memo[1]}`, which is initialised before the loop and only filled while it is None: every later'
                     ' example of the batch reuses the first example\'s value, so its result depends on its batch mates',
                     node=memo[0])
  if not hits:
    ctx.ok(rule, repo.func('aggregates.retrieval', 'retrieval_matcher'), f'{n} loops over examples, no cross-iteration memo',
           repo.func('aggregates.retrieval', 'retrieval_matcher').node)
  ctx.floor(rule, 1)


_NAN_SKIPPING = {'nanmean', 'nanvar', 'nanstd', 'nanmedian', 'nanmin', 'nanmax', 'nanpercentile', 'nanquantile'}
_NAN_SAFE = {'nanadd', 'where', 'isnan', 'nan_to_num', 'nansum', 'isfinite', 'fmin', 'fmax'}


def r17(ctx: Ctx, m):
  rule = 'R-C01-17'
  ctx.rule(rule, 'NaN-skipping is carried through merge: a statistic that the accumulation side computes with a'
           ' NaN-skipping reduction (np.nanmean, np.nanvar, ...) is NaN in every dimension for which a batch has no'
           ' valid value (its count is 0 there). In merge, such a statistic — of the receiver or of the operand — never'
           ' reaches a stored field through a plain `+`/`-`: it goes through the NaN-aware helpers'
           ' (math_utils.nanadd / where / isnan tests). `0 * NaN` is NaN, so a weighted plain sum makes a dimension that'
           ' is empty in ONE batch or shard NaN for the whole stream, while the same rows in one batch give a number')
  n = 0
  for ci in m.classes:
    fields: dict[str, str] = {}
    for name in ('new', 'add'):
      fi = m.method_of(ci, name)
      if fi is None:
        continue
      for c in ast.walk(fi.node):
        if isinstance(c, ast.Call):
          for kw in c.keywords:
            v = kw.value
            if kw.arg and isinstance(v, ast.Call) and isinstance(v.func, ast.Attribute) and v.func.attr in _NAN_SKIPPING:
              fields[kw.arg] = v.func.attr
        if isinstance(c, ast.Assign):
          # a field computed from a NaN-skipping reduction of the batch (directly or inside a combining call)
          red = [y.func.attr for y in ast.walk(c.value) if isinstance(y, ast.Call) and isinstance(y.func, ast.Attribute)
                 and y.func.attr in _NAN_SKIPPING]
          if red:
            for t in c.targets:
              if is_self_attr(t):
                fields[t.attr] = red[0]
    if not fields:
      continue
    names = set(fields) | {f.lstrip('_') for f in fields}
    for merge in (ci.methods.get('merge'), ci.methods.get('add')):
      if merge is None:
        continue
      n += 1
      _r17_method(ctx, rule, ci, merge, fields, names)
  ctx.floor(rule, 2, n)


def _r17_method(ctx, rule, ci, merge, fields, names):
  if True:

    def safe_call(x):
      return isinstance(x, ast.Call) and (
          (isinstance(x.func, ast.Attribute) and x.func.attr in _NAN_SAFE)
          or (isinstance(x.func, ast.Name) and x.func.id in _NAN_SAFE))

    def scan(expr, nanable, poisoned):
      """(may be the NaN of an empty dimension, contains an unguarded sum of such a value)."""
      if safe_call(expr):
        # the helper's result is NaN only where every operand is; a plain sum nested in an argument still counts
        p = any(scan(a, nanable, poisoned)[1] for a in list(expr.args) + [k.value for k in expr.keywords])
        return False, p
      if isinstance(expr, ast.Attribute) and isinstance(expr.value, ast.Name) and expr.attr in names:
        return True, False
      if isinstance(expr, ast.Call) and isinstance(expr.func, ast.Attribute) and expr.func.attr in _NAN_SKIPPING:
        return True, False          # NaN for a batch / dimension without a valid value
      if isinstance(expr, ast.Call) and isinstance(expr.func, ast.Attribute) and expr.func.attr in ('minimum', 'maximum') and (
          len(expr.args) >= 2):
        subs = [scan(a, nanable, poisoned) for a in expr.args]
        any_n = any(a for a, _ in subs)
        return any_n, any_n or any(b for _, b in subs)      # np.minimum / np.maximum propagate NaN
      if isinstance(expr, ast.Name):
        return expr.id in nanable, expr.id in poisoned
      if isinstance(expr, ast.BinOp) and isinstance(expr.op, (ast.Add, ast.Sub)):
        ln, lp = scan(expr.left, nanable, poisoned)
        rn, rp = scan(expr.right, nanable, poisoned)
        return ln or rn, lp or rp or ln or rn
      nn = pp = False
      for ch in ast.iter_child_nodes(expr):
        if isinstance(ch, (ast.expr_context, ast.operator, ast.unaryop, ast.cmpop, ast.boolop)):
          continue
        a, b = scan(ch, nanable, poisoned)
        nn, pp = nn or a, pp or b
      if isinstance(expr, ast.Compare):
        return False, pp
      return nn, pp

    nanable: set[str] = set()
    poisoned: set[str] = set()
    stmts = [x for x in walk_no_nested(merge.node) if isinstance(x, (ast.Assign, ast.AugAssign, ast.AnnAssign))]
    for _ in range(len(stmts) + 1):
      before = (len(nanable), len(poisoned))
      for st in stmts:
        if st.value is None:
          continue
        tgts = st.targets if isinstance(st, ast.Assign) else [st.target]
        pairs = []
        for t in tgts:
          if isinstance(t, ast.Tuple) and isinstance(st.value, ast.Tuple) and len(t.elts) == len(st.value.elts):
            pairs += list(zip(t.elts, st.value.elts))
          elif isinstance(t, ast.Tuple):
            pairs += [(y, st.value) for y in t.elts]
          else:
            pairs.append((t, st.value))
        for y, v in pairs:
          if isinstance(y, ast.Name):
            a, b = scan(v, nanable, poisoned)
            if a:
              nanable.add(y.id)
            if b:
              poisoned.add(y.id)
      if (len(nanable), len(poisoned)) == before:
        break
    bad = None
    for st in stmts:
      if st.value is None:
        continue
      tgts = st.targets if isinstance(st, ast.Assign) else [st.target]
      if not any(is_self_attr(t) for t in tgts):
        continue
      a, b = scan(st.value, nanable, poisoned)
      if isinstance(st, ast.AugAssign) and isinstance(st.op, (ast.Add, ast.Sub)) and (
          a or (is_self_attr(st.target) and st.target.attr in names)):
        b = True
      if b:
        bad = st
        break
    what = f'{ci.name}.{merge.name}: NaN-skipping statistics {sorted(fields)} combined NaN-aware'
    if bad is None:
      ctx.ok(rule, merge, what, merge.node)
    else:
      ctx.fail(rule, merge, what,
               f'{ci.name}.{merge.name} stores `{unparse(bad)[:90]}...`: a plain sum / np.minimum / np.maximum with an operand that is NaN wherever one side'
               f' has no valid value ({sorted(fields)} come from {sorted(set(fields.values()))}); a dimension that is all-NaN'
               ' in one batch or shard becomes NaN for the whole stream (0 * NaN), although one batch with the same rows'
               ' gives a number. Combine the terms with math_utils.nanadd / where(count > 0, ...) / np.fmin / np.fmax', node=bad)


def r18(ctx: Ctx, m):
  rule = 'R-C01-18'
  ctx.rule(rule, '"a metric value for one example never depends on which other examples happen to share its batch": the text'
           ' aggregates look at their batch TEXT BY TEXT — in add(texts) the batch parameter is only iterated (for / '
           'comprehension), measured (len) or tested for emptiness. Joining the texts of a batch into one string (or any'
           ' other whole-batch use) lets a multi-word pattern or an n-gram match across the seam between two neighbouring'
           ' texts: the count then depends on batch composition and on the order of the texts')
  repo = ctx.repo
  mi = repo.module('aggregates.text')
  n = 0
  def whole_batch_use(ci, fi, p, depth=0):
    """First use of the batch parameter `p` of `fi` that is not example-wise (None if there is none)."""
    pm = parent_map(fi.node)
    for x in ast.walk(fi.node):
      if not (isinstance(x, ast.Name) and x.id == p and isinstance(x.ctx, ast.Load)):
        continue
      par = pm.get(x)
      ok = (isinstance(par, (ast.For, ast.comprehension)) and par.iter is x) or (
          isinstance(par, ast.Call) and unparse(par.func) in ('len', 'bool', 'enumerate', 'iter') and par.args and par.args[0] is x
          and (unparse(par.func) in ('len', 'bool') or isinstance(pm.get(par), (ast.For, ast.comprehension)))) or (
              isinstance(par, (ast.If, ast.While, ast.IfExp)) and par.test is x) or (
                  isinstance(par, ast.BoolOp)) or (isinstance(par, ast.UnaryOp) and isinstance(par.op, ast.Not))
      if not ok and isinstance(par, ast.Call) and isinstance(par.func, ast.Attribute) and is_self_attr(par.func) and depth < 2:
        # handed to a helper of the class: the helper's parameter obeys the same rule
        h = ci.methods.get(par.func.attr)
        if h is not None and any(a is x for a in par.args):
          hp = h.params()[1:]
          idx = [i for i, a in enumerate(par.args) if a is x][0]
          if idx < len(hp) and whole_batch_use(ci, h, hp[idx], depth + 1) is None:
            ok = True
      if not ok:
        return par if par is not None else x
    return None

  for ci in mi.classes.values():
    fi = ci.methods.get('add')
    if fi is None or len(fi.params()) < 2:
      continue
    p = fi.params()[1]
    n += 1
    bad = whole_batch_use(ci, fi, p)
    what = f'{ci.name}.add: the batch `{p}` is processed text by text'
    if bad is None:
      ctx.ok(rule, fi, what, fi.node)
    else:
      ctx.fail(rule, fi, what,
               f'`{unparse(bad)[:70]}` uses the whole batch `{p}` at once: what is computed from it (a joined string, a'
               ' concatenation) spans several examples, so a match can straddle two neighbouring texts and the statistic'
               ' depends on which texts share a batch and in which order', node=bad)
  ctx.floor(rule, 2, n)


def r19(ctx: Ctx, m):
  rule = 'R-C01-19'
  ctx.rule(rule, '"any number of independent accumulators ... merged": the configuration an accumulator merges under is the one it'
           ' accumulates under. A configuration field whose annotation admits both an integer and None (`axis: int | None`)'
           ' is never used as a truth value in the methods of its class: `0` is a value (reduce along the first axis), None'
           ' the "not set" marker — `x if self.axis else y` treats the configured axis 0 like None, so merge() reduces the'
           ' per-column results of two shards to scalars while add() keeps them per column')
  from mlmverif.props.c17 import _truth_positions
  n = 0
  for ci in m.classes:
    opt = set()
    for st in ci.node.body:
      if isinstance(st, ast.AnnAssign) and isinstance(st.target, ast.Name):
        a = unparse(st.annotation).replace(' ', '')
        if a in ('int|None', 'None|int', 'Optional[int]', 'typing.Optional[int]'):
          opt.add(st.target.id)
    if not opt:
      continue
    for name, fi in ci.methods.items():
      for t in _truth_positions(fi.node):
        if is_self_attr(t) and t.attr in opt:
          n += 1
          ctx.fail(rule, fi, f'{ci.name}.{name}: `self.{t.attr}` is compared with None, not tested by truth',
                   f'`self.{t.attr}` (annotated `int | None`) is used as a truth value in {ci.name}.{name} (line {t.lineno}): the'
                   f' configured value 0 is taken for "not set" — {name} then works under another configuration than the'
                   ' accumulation, and the merged result of shards differs from the single-accumulator result', node=t)
    n += 1
    ctx.ok(rule, next(iter(ci.methods.values())), f'{ci.name}: optional integer configuration {sorted(opt)} examined', ci.node)
  ctx.floor(rule, 1, n)


def r20(ctx: Ctx, m):
  rule = 'R-C01-20'
  ctx.rule(rule, '"splitting the examples arbitrarily into batches ... same result": an accumulator whose state IS a'
           ' collections.Counter of its inputs (new(inputs) -> cls(<field>=Counter(...))) counts the input ELEMENTS themselves,'
           ' under Python hashing: every state new() returns is `collections.Counter(<inputs>)` (or a Counter filled by'
           ' `.update(<inputs>)`), <inputs> being the parameter itself. A vectorised regrouping of the batch first (np.unique,'
           ' sort + run lengths) equates what hashing keeps apart (every NaN of a batch, 0.0/-0.0 by representation, keys'
           ' converted by tolist()) — but only WITHIN a batch, so the counts then depend on how the examples were batched')
  n = 0
  for ci in m.classes:
    cfields = [st.target.id for st in ci.node.body if isinstance(st, ast.AnnAssign) and isinstance(st.target, ast.Name)
               and 'collections.Counter' in unparse(st.annotation)]
    new = ci.methods.get('new')
    if not cfields or new is None:
      continue
    ps = new.params()[1:]
    if len(ps) != 1:
      continue
    P = ps[0]

    def raw(e):
      while isinstance(e, ast.Call) and unparse(e.func) in ('iter', 'list', 'tuple') and len(e.args) == 1:
        e = e.args[0]
      return isinstance(e, ast.Name) and e.id == P

    def counter_of_inputs(e, depth=0):
      if isinstance(e, ast.Call) and unparse(e.func) in ('collections.Counter', 'Counter'):
        return len(e.args) <= 1 and not e.keywords and all(raw(a) for a in e.args)
      if isinstance(e, ast.Name) and depth == 0:
        defs = [x.value for x in walk_no_nested(new.node) if isinstance(x, ast.Assign)
                and any(isinstance(t, ast.Name) and t.id == e.id for t in x.targets)]
        ups = [c for c in walk_no_nested(new.node) if isinstance(c, ast.Call) and isinstance(c.func, ast.Attribute)
               and isinstance(c.func.value, ast.Name) and c.func.value.id == e.id]
        return bool(defs) and all(counter_of_inputs(d, 1) for d in defs) and all(
            c.func.attr == 'update' and len(c.args) == 1 and raw(c.args[0]) for c in ups)
      return False
    for r_ in walk_no_nested(new.node):
      if not (isinstance(r_, ast.Return) and isinstance(r_.value, ast.Call)):
        continue
      for k in r_.value.keywords:
        if k.arg in cfields:
          n += 1
          what = f'{ci.name}.new: the `{k.arg}` of a new state counts the input elements themselves'
          if counter_of_inputs(k.value):
            ctx.ok(rule, new, what, r_)
          else:
            ctx.fail(rule, new, what,
                     f'`{unparse(r_)[:80]}` builds `{k.arg}` from `{unparse(k.value)[:50]}`, not from collections.Counter({P}): the'
                     ' batch is regrouped by another notion of equality before it is counted (np.unique collapses the NaNs'
                     ' of ONE batch into one key, hashing keeps every NaN apart) — the merged counts depend on the batching',
                     node=r_)
  ctx.floor(rule, 1, n)


def r23(ctx: Ctx, m):
  rule = 'R-C01-23'
  ctx.rule(rule, '"splitting the examples arbitrarily into batches ... same result": what update_state does to a BATCH does not'
           ' depend on whether the state is fresh. In the update_state methods of aggregates/base.py a re-binding of the batch'
           ' parameter (`inputs = self.preprocess_fn(inputs)`) is not nested under a test of the state parameter'
           ' (`if state is None:`): pre-processing only the first batch feeds every later batch raw into the same state')
  mi = ctx.repo.module('aggregates.base')
  n = 0
  for ci in mi.classes.values():
    fi = ci.methods.get('update_state')
    if fi is None:
      continue
    ps = fi.params()
    if len(ps) < 3:
      continue
    state_p, batch_ps = ps[1], set(ps[2:])
    if fi.node.args.vararg:
      batch_ps.add(fi.node.args.vararg.arg)
    pm = parent_map(fi.node)
    for x in walk_no_nested(fi.node):
      if not (isinstance(x, ast.Assign) and any(isinstance(t, ast.Name) and t.id in batch_ps for t in x.targets)):
        continue
      n += 1
      guard = None
      q = x
      while q in pm:
        par = pm[q]
        if isinstance(par, ast.If) and any(isinstance(y, ast.Name) and y.id == state_p for y in ast.walk(par.test)):
          guard = par
        q = par
      what = f'{ci.name}.update_state: `{unparse(x)[:50]}` is applied to every batch'
      if guard is not None:
        ctx.fail(rule, fi, what,
                 f'`{unparse(x)[:60]}` runs only under `{unparse(guard.test)}`: the batch is pre-processed when the state is fresh and'
                 ' accumulated raw afterwards — the result depends on how the examples were split into batches', node=x)
      else:
        ctx.ok(rule, fi, what, x)
  ctx.floor(rule, 1, n)


def r24(ctx: Ctx, m):
  rule = 'R-C01-24'
  ctx.rule(rule, '"any number of independent accumulators ... merged": a state object rebuilt from the statistics of another'
           ' (`Cls(self.k, cm.tp, cm.fp, ...)`) receives each statistic in the parameter of the SAME name. For every call in'
           ' the aggregate modules to a class of the repository whose constructor parameters are known, a positional'
           ' argument that is an attribute read / name spelled like ANOTHER parameter of that constructor than the one at'
           ' its position is a swapped pair (fp handed to tn): the counts are exchanged from the second batch on while one'
           ' batch is right')
  repo = ctx.repo
  ctors = {}
  for ci in repo.all_classes():
    init = ci.methods.get('__init__')
    if init is not None:
      ctors[ci.name] = [a.arg for a in init.node.args.args[1:]]
  n = 0
  for fi in repo.all_functions():
    if '.aggregates.' not in fi.module.name:
      continue
    for c in ast.walk(fi.node):
      if not (isinstance(c, ast.Call) and isinstance(c.func, ast.Name) and c.func.id in ctors and len(c.args) >= 2):
        continue
      ps = ctors[c.func.id]
      n += 1
      swapped = None
      for i, a in enumerate(c.args[:len(ps)]):
        nm = a.attr if isinstance(a, ast.Attribute) else a.id if isinstance(a, ast.Name) else None
        if nm is None:
          continue
        nm = nm.lstrip('_')
        if nm != ps[i] and nm in ps:
          swapped = (a, ps[i], nm)
          break
      what = f'{fi.qualname}: positional arguments of `{c.func.id}(...)` meet the parameters of their name'
      if swapped:
        ctx.fail(rule, fi, what,
                 f'`{unparse(c)[:80]}` passes `{unparse(swapped[0])}` in the position of parameter `{swapped[1]}` although {c.func.id} has'
                 f' a parameter `{swapped[2]}`: the two statistics are exchanged in the rebuilt state', node=c)
      else:
        ctx.ok(rule, fi, what, c)
  ctx.floor(rule, 2, n)


def r25(ctx: Ctx, m):
  rule = 'R-C01-25'
  ctx.rule(rule, '"for order-carrying accumulators up to the documented concatenation order": an accumulator whose merge CONCATENATES'
           ' (`<mine>.extend(<theirs>)` over paired columns of self and the operand) always appends the operand\'s part to'
           ' its own: the two loop variables of the pairing are never exchanged (`mine, theirs = theirs, mine`, e.g. to'
           ' "grow the longer list") — the merged order would depend on which side happens to be longer')
  n = 0
  for ci in m.accumulators:
    fi = ci.methods.get('merge')
    if fi is None:
      continue
    for lp in walk_no_nested(fi.node):
      if not (isinstance(lp, ast.For) and isinstance(lp.target, ast.Tuple) and len(lp.target.elts) == 2
              and all(isinstance(e, ast.Name) for e in lp.target.elts)):
        continue
      a, b = lp.target.elts[0].id, lp.target.elts[1].id
      if not any(isinstance(c, ast.Call) and isinstance(c.func, ast.Attribute) and c.func.attr in ('extend', 'append', '__iadd__')
                 and isinstance(c.func.value, ast.Name) and c.func.value.id == a for c in ast.walk(lp)):
        continue
      n += 1
      swaps = [x for x in ast.walk(lp) if isinstance(x, ast.Assign) and any(
          isinstance(t, ast.Tuple) and {e.id for e in t.elts if isinstance(e, ast.Name)} == {a, b} for t in x.targets)]
      what = f'{ci.name}.merge: the operand\'s part is appended to the receiver\'s, never the other way round'
      if swaps:
        ctx.fail(rule, fi, what,
                 f'`{unparse(swaps[0])[:60]}` exchanges the receiver\'s and the operand\'s part inside the concatenating loop: for a'
                 ' longer operand the result is operand + receiver, the documented concatenation order is lost', node=swaps[0])
      else:
        ctx.ok(rule, fi, what, lp)
  ctx.floor(rule, 1, n)


def r26(ctx: Ctx, m):
  rule = 'R-C01-26'
  ctx.rule(rule, '"splitting the examples arbitrarily into batches ... same result", whatever the SHAPE of a batch: a mean kept as'
           ' (total, count) counts exactly the elements it sums. In add(), when a statistic grows by an ALL-element reduction'
           ' (`np.sum(<f(x)>)` without an axis), the sample counter of the same method grows by `<x>.size` (or len() of a'
           ' flat value) — not by `<x>.shape[0]`: with a 2-D batch the sum runs over n*m elements but the count over n rows,'
           ' so the same data fed as one 2-D batch and as 1-D rows gives different means')
  n = 0
  for ci in m.accumulators:
    fi = ci.methods.get('add')
    if fi is None:
      continue
    total_sums = [x for x in walk_no_nested(fi.node) if isinstance(x, ast.AugAssign) and is_self_attr(x.target) and any(
        isinstance(c, ast.Call) and unparse(c.func) in ('np.sum', 'np.nansum') and kwarg(c, 'axis') is None and len(c.args) == 1
        for c in ast.walk(x.value))]
    if not total_sums:
      continue
    for x in walk_no_nested(fi.node):
      if not (isinstance(x, ast.AugAssign) and is_self_attr(x.target) and isinstance(x.op, ast.Add)):
        continue
      by_rows = [y for y in ast.walk(x.value) if isinstance(y, ast.Subscript) and isinstance(y.value, ast.Attribute) and y.value.attr == 'shape']
      by_size = [y for y in ast.walk(x.value) if isinstance(y, ast.Attribute) and y.attr == 'size']
      if not by_rows and not by_size:
        continue
      n += 1
      what = f'{ci.name}.add: `{unparse(x.target)}` counts the elements the all-element sums run over'
      if by_rows:
        ctx.fail(rule, fi, what,
                 f'`{unparse(x)[:70]}` counts ROWS while `{unparse(total_sums[0])[:50]}` sums over every element: for a 2-D batch the'
                 ' statistic is divided by n instead of n*m — the value depends on whether the data arrives as 2-D blocks or 1-D rows',
                 node=x)
      else:
        ctx.ok(rule, fi, what, x)
  ctx.floor(rule, 1, n)


from mlmverif.selfcheck import B, OK  # noqa: E402

_R = 'aggregates/rolling_stats.py'
_C = 'aggregates/classification.py'
VARIANTS = [
    OK('mean-update-through-locals', 'aggregates/rolling_stats.py',
       "    update = mean_diff * math_utils.safe_divide(other.count, self._count)\n    self._mean = math_utils.nanadd(self._mean, update)", "    weight = math_utils.safe_divide(other.count, self._count)\n    update = mean_diff * weight\n    self._mean = math_utils.nanadd(self._mean, update)"),
    OK('sampler-merge-loop-variables-renamed', 'aggregates/rolling_stats.py',
       "    for samples, others in zip(self._samples, other.samples, strict=True):\n      samples.extend(others)\n", "    for mine, theirs in zip(self._samples, other.samples, strict=True):\n      mine.extend(theirs)\n"),
    B('relative-difference-counts-rows', 'aggregates/rolling_stats.py',
      "    self.num_samples += x.size\n", "    self.num_samples += x.shape[0] if x.ndim else 1\n", 'R-C01-26'),
    B('sampler-merge-grows-the-longer-list', 'aggregates/rolling_stats.py',
      "    for samples, others in zip(self._samples, other.samples, strict=True):\n      samples.extend(others)\n",
      "    merged = []\n    for samples, others in zip(self._samples, other.samples, strict=True):\n      if len(others) > len(samples):\n        samples, others = list(others), samples\n      samples.extend(others)\n      merged.append(samples)\n    self._samples = tuple(merged)\n", 'R-C01-25'),
    OK('nested-agg-preprocesses-through-a-local', 'aggregates/base.py',
       "    if self.preprocess_fn:\n      inputs = self.preprocess_fn(inputs)\n    if state is None:\n", "    prep = self.preprocess_fn\n    if prep:\n      inputs = prep(inputs)\n    if state is None:\n"),
    B('nested-agg-preprocesses-the-first-batch-only', 'aggregates/base.py',
      "    if self.preprocess_fn:\n      inputs = self.preprocess_fn(inputs)\n    if state is None:\n", "    if state is None:\n      if self.preprocess_fn:\n        inputs = self.preprocess_fn(inputs)\n", 'R-C01-23'),
    B('topk-matrix-sum-swaps-fp-and-tn', 'aggregates/classification.py',
      "  def __eq__(self, other):\n    \"\"\"Numerically equals.\"\"\"\n    return np.allclose(self.k, other.k) and super().__eq__(other)",
      "  def __add__(self, other):\n    cm = super().__add__(other)\n    return _TopKConfusionMatrix(self.k, cm.tp, cm.fp, cm.tn, cm.fn)\n\n  def __eq__(self, other):\n    \"\"\"Numerically equals.\"\"\"\n    return np.allclose(self.k, other.k) and super().__eq__(other)", 'R-C01-24'),
    OK('topk-matrix-sum-in-constructor-order', 'aggregates/classification.py',
       "  def __eq__(self, other):\n    \"\"\"Numerically equals.\"\"\"\n    return np.allclose(self.k, other.k) and super().__eq__(other)",
       "  def __add__(self, other):\n    cm = super().__add__(other)\n    return _TopKConfusionMatrix(self.k, cm.tp, cm.tn, cm.fp, cm.fn)\n\n  def __eq__(self, other):\n    \"\"\"Numerically equals.\"\"\"\n    return np.allclose(self.k, other.k) and super().__eq__(other)"),
    B('regression-add-updates-in-place', 'aggregates/rolling_stats.py',
      "    self.sum_x = self.sum_x + np.sum(x, axis=0)", "    self.sum_x += np.sum(x, axis=0)", 'R-C01-22'),
    B('counter-of-a-flat-array-through-unique', _R,
      "  def new(self, inputs: Iterable[_T]) -> Self:\n    return self.__class__(_counter=collections.Counter(inputs))",
      "  def new(self, inputs: Iterable[_T]) -> Self:\n    if isinstance(inputs, np.ndarray) and inputs.ndim == 1:\n      keys, counts = np.unique(inputs, return_counts=True)\n      return self.__class__(_counter=collections.Counter(dict(zip(keys.tolist(), counts.tolist()))))\n    return self.__class__(_counter=collections.Counter(inputs))", 'R-C01-20'),
    OK('counter-filled-by-update', _R,
       "  def new(self, inputs: Iterable[_T]) -> Self:\n    return self.__class__(_counter=collections.Counter(inputs))",
       "  def new(self, inputs: Iterable[_T]) -> Self:\n    counted = collections.Counter()\n    counted.update(iter(inputs))\n    return self.__class__(_counter=counted)"),
    B('samplewise-merge-walks-the-raw-config', _C,
      "    for key, value in other.state.items():\n      self._state[key].merge(value)",
      "    for metric in self.metrics:\n      self._state[metric].merge(other.state[metric])", 'R-C01-21'),
    B('minmax-merge-takes-axis-zero-for-unset', _R,
      '    self._min = np.min((self._min, other.min), axis=self.axis)\n    self._max = np.max((self._max, other.max), axis=self.axis)',
      '    axis = 0 if self.axis else None\n    self._min = np.min((self._min, other.min), axis=axis)\n    self._max = np.max((self._max, other.max), axis=axis)', 'R-C01-19'),
    OK('minmax-merge-axis-through-is-none', _R,
       '    self._min = np.min((self._min, other.min), axis=self.axis)\n    self._max = np.max((self._max, other.max), axis=self.axis)',
       '    axis = None if self.axis is None else self.axis\n    self._min = np.min((self._min, other.min), axis=axis)\n    self._max = np.max((self._max, other.max), axis=axis)'),
    B('minmax-nan-skipped-per-batch-only', _R,
      '    self._min = np.minimum(self._min, np.min(inputs, axis=self.axis))\n    self._max = np.maximum(self._max, np.max(inputs, axis=self.axis))',
      '    self._min = np.minimum(self._min, np.nanmin(inputs, axis=self.axis))\n    self._max = np.maximum(self._max, np.nanmax(inputs, axis=self.axis))', 'R-C01-17'),
    OK('ngrams-counted-by-a-helper-text-by-text', 'aggregates/text.py',
       "    ngrams_counter = collections.Counter()\n    for text in texts:\n      # Remove non-alphabetical and non-space characters",
       "    ngrams_counter = collections.Counter()\n    for text in self._each(texts):\n      # Remove non-alphabetical and non-space characters",
       extra=(('aggregates/text.py', "  def merge(self, other: 'TopKWordNGrams'):", "  def _each(self, batch):\n    for one in batch:\n      yield one\n\n  def merge(self, other: 'TopKWordNGrams'):"),)),
    B('pattern-frequency-scans-the-joined-batch', 'aggregates/text.py',
      '    for pattern in self.patterns:\n      for text in texts:',
      "    for pattern in self.patterns:\n      if self.count_duplicate and texts:\n        batch_frquency_state.counter[pattern] += len(re.findall(r'(?=({}))'.format(re.escape(pattern)), ' '.join(texts)))\n        continue\n      for text in texts:", 'R-C01-18'),
    B('revert-variance-merge-plain-sum', _R,
      '        math_utils.nanadd(\n            prev_count_ratio * self._var, other_count_ratio * other.var\n        )\n',
      '        prev_count_ratio * self._var\n        + other_count_ratio * other.var\n', 'R-C01-17'),
    B('mean-merge-plain-sum', _R,
      '    self._mean = math_utils.nanadd(self._mean, update)', '    self._mean = self._mean + update', 'R-C01-17'),
    OK('variance-merge-through-local', _R,
       '    self._var = (\n        math_utils.nanadd(\n            prev_count_ratio * self._var, other_count_ratio * other.var\n        )\n',
       '    weighted = math_utils.nanadd(prev_count_ratio * self._var, other_count_ratio * other.var)\n    self._var = (\n        weighted\n'),
    B('default-probabilities-from-the-first-row', 'aggregates/retrieval.py',
      '  for row_true, row_pred, row_prob in zip(y_true, y_pred, y_prob, strict=True):\n    row_prob = (\n        np.ones_like(row_pred, dtype=np.float32)\n        if row_prob is None\n        else np.asarray(row_prob)\n    )',
      '  default_prob = None\n  for row_true, row_pred, row_prob in zip(y_true, y_pred, y_prob, strict=True):\n    if row_prob is None:\n      if default_prob is None:\n        default_prob = np.ones_like(row_pred, dtype=np.float32)\n      row_prob = default_prob\n    else:\n      row_prob = np.asarray(row_prob)',
      'R-C01-15'),
    B('vocab-at-k-stops-at-longest-row', _C,
      '  for j in range(max(k_list)):', '  max_k = min(max(k_list), max(map(len, rows), default=0))\n  for j in range(max_k):', 'R-C01-14'),
    OK('vocab-at-k-bound-through-local', _C,
       '  for j in range(max(k_list)):', '  max_k = max(k_list)\n  for j in range(max_k):'),
    B('merge-skips-operand-without-ground-truth', 'aggregates/retrieval.py',
      '  def merge(self, other: ThresholdedRetrieval):\n    self._confusion_matrix.merge(other.confusion_matrix)',
      '  def merge(self, other: ThresholdedRetrieval):\n    if not other.confusion_matrix.p_trues:\n      return\n    self._confusion_matrix.merge(other.confusion_matrix)',
      'R-C01-7'),
    B('mean-count-over-whole-batch', _R,
      '        _count=np.sum(~np.isnan(batch), axis=0),\n        _mean=np.nanmean(batch, axis=0),\n        _input_shape=batch.shape if batch.size else (),\n    )',
      '        _count=np.sum(~np.isnan(batch)),\n        _mean=np.nanmean(batch, axis=0),\n        _input_shape=batch.shape if batch.size else (),\n    )',
      'R-C01-13', count=1),
    B('thresholded-merge-skips-on-one-statistic', 'aggregates/retrieval.py',
      '    assert all(self.thresholds == other.thresholds)\n    self.tp_trues += other.tp_trues',
      '    assert all(self.thresholds == other.thresholds)\n    if not other.p_trues:\n      return\n    self.tp_trues += other.tp_trues',
      'R-C01-7'),
    B('reservoir-early-return-skips-count', _R,
      '    self._reservoir.extend(samples[:len_n])\n    i = len_n - 1',
      '    self._reservoir.extend(samples[:len_n])\n    if len(self._reservoir) < self.max_size:\n      return\n    i = len_n - 1',
      'R-C01-12'),
    OK('reservoir-early-return-on-empty-input', _R,
       '    len_n = min(self.max_size - len(self._reservoir), n)\n    self._reservoir.extend(samples[:len_n])',
       '    if not n:\n      return\n    len_n = min(self.max_size - len(self._reservoir), n)\n    self._reservoir.extend(samples[:len_n])'),
    B('samplewise-vocab-not-forwarded', _C,
      '          vocab=self.vocab,\n          multioutput=(self.input_type == InputType.MULTICLASS_MULTIOUTPUT),',
      '          multioutput=(self.input_type == InputType.MULTICLASS_MULTIOUTPUT),', 'R-C01-11'),
    B('macro-average-not-forwarded', _C,
      '          multioutput=(self._input_type == InputType.MULTICLASS_MULTIOUTPUT),\n          average=self._average,',
      '          multioutput=(self._input_type == InputType.MULTICLASS_MULTIOUTPUT),', 'R-C01-11'),
    B('ngram-dedup-per-batch', 'aggregates/text.py',
      "    ngrams_counter = collections.Counter()\n    for text in texts:\n      # Remove non-alphabetical and non-space characters\n      words = re.sub(r'[^a-zA-Z ]+', '', text).lower().split()\n      if self.n <= len(words):\n        ngrams = []\n",
      "    ngrams_counter = collections.Counter()\n    ngrams = []\n    for text in texts:\n      # Remove non-alphabetical and non-space characters\n      words = re.sub(r'[^a-zA-Z ]+', '', text).lower().split()\n      if self.n <= len(words):\n",
      'R-C01-10',
      extra=(('aggregates/text.py', '        if not self.count_duplicate:\n          ngrams = set(ngrams)\n        ngrams_counter.update(ngrams)\n',
              '    if not self.count_duplicate:\n      ngrams = set(ngrams)\n    ngrams_counter.update(ngrams)\n'),)),
    B('rregression-drop-sum-yy', _R, '    self.sum_yy += other.sum_yy\n', '', 'R-C01-1'),
    B('minmax-merge-min-with-max', _R,
      '    self._min = np.min((self._min, other.min), axis=self.axis)',
      '    self._min = np.max((self._min, other.min), axis=self.axis)', 'R-C01-1'),
    B('rregression-crossed', _R, '    self.sum_x = self.sum_x + other.sum_x\n',
      '    self.sum_x = self.sum_x + other.sum_y\n', 'R-C01-5'),
    B('cm-iadd-crossed', _C, '    self.fp += other.fp\n    self.fn += other.fn\n    return self',
      '    self.fp += other.fn\n    self.fn += other.fp\n    return self', 'R-C01-5'),
    B('cm-add-drops-tn', _C, '    tn = self.tn + other.tn\n', '    tn = self.tn\n', 'R-C01-1'),
    B('calibration-merge-swapped-args', 'metrics/classification.py',
      '        other.labels_hist,\n        other.predictions_hist,',
      '        other.predictions_hist,\n        other.labels_hist,', 'R-C01-5'),
    B('meanvar-new-without-merge-of-var', _R,
      '    if np.all(np.isnan(self._var)):\n      self._var = other.var\n      return\n',
      '    if np.all(np.isnan(self._var)):\n      return\n', 'R-C01-7'),
    B('default-add-merges-twice', 'aggregates/base.py',
      '    batch_result = self.new(*args, **kwargs)\n    self.merge(batch_result)\n',
      '    batch_result = self.new(*args, **kwargs)\n    self.merge(batch_result)\n    self.merge(batch_result)\n',
      'R-C01-2'),
    B('wrapper-merge-delegates-to-update', 'aggregates/base.py',
      '    return self.fn.merge_states(states)', '    return self.fn.update_state(states)',
      'R-C01-4'),
    B('update-state-drops-state', _C,
      '    return (cm + state) if state else cm', '    return cm if state else cm', 'R-C01-6'),
    B('tjur-merge-drops-neg', _R,
      '    self.sum_neg_y_pred += other.sum_neg_y_pred\n\n    return self',
      '    return self', 'R-C01-1'),
    OK('x-plus-equals-vs-plus', _R, '    self.sum_yy += other.sum_yy\n',
       '    self.sum_yy = self.sum_yy + other.sum_yy\n'),
    OK('cm-add-via-locals', _C, '    tn = self.tn + other.tn\n',
       '    tn = other.tn + self.tn if False else self.tn + other.tn\n'),
    OK('drop-input-shape-bookkeeping-free', _R,
       '    self.num_samples += other.num_samples\n    self.sum_x = self.sum_x + other.sum_x',
       '    self.sum_x = self.sum_x + other.sum_x\n    self.num_samples += other.num_samples'),
]
