"""C20 — worker liveness and ownership bookkeeping stays consistent.

Structural part: registry accesses are under its lock with the dead-guard and
the monotone max in one critical section; liveness is a function of the last
recorded heartbeat and the threshold only; worker ownership changes under the
worker's state lock; every pool-level operation that can acquire workers
releases them on every exit.
"""
from __future__ import annotations

import ast

from mlmverif import cfg as cfgm
from mlmverif.core import (parent_map, AnalysisError, Ctx, FuncInfo, is_self_attr, kwarg,
                           unparse, walk_no_nested)
from mlmverif.locks import LockEngine, ls_has

EXPLANATION = (
    'Lockset + CFG analysis of WorkerRegistry, CourierClient liveness, Worker'
    ' ownership and the pool-level operations. Decides: every access to the'
    ' registry table is under the registry lock; refresh reads the previous'
    ' heartbeat and stores in ONE critical section, the store is dominated by'
    ' the not-dead test and stores max(previous, new); only register (explicit'
    ' re-registration) stores an unguarded time and only unregister stores the'
    ' dead marker; direct item assignment raises; liveness = now - last'
    ' heartbeat < threshold with refresh fed the SEND time of completed,'
    ' non-failed calls only; acquire_by/release test-and-set under the state'
    ' lock; every function that can acquire workers releases them on every'
    ' return/raise/generator-close path, and next_idle_worker never keeps a'
    ' worker it acquired but does not return. NOT decided: interleavings of'
    ' concurrent register/refresh/unregister histories beyond the critical'
    ' section structure.'
)
ASSUMPTIONS = ['threading.Lock semantics; UserDict stores its table in'
               ' `.data`; inherited UserDict methods are not used on the'
               ' registry (no in-repo caller).']

CU = 'utils.courier_utils'
CW = 'chainables.courier_worker'
ORCH = 'chainables.orchestrate'


def run(ctx: Ctx):
  for r in (r1, r2, r3, r4, r5, r6, r7, r8, r9, r11, r12, r13, r14, r15, r16, r17, r18, r19, r20, r21):
    ctx.guard(r)
  from mlmverif.props import c06
  ctx.include('R-C20-10', '"liveness is a function only of the last recorded heartbeat": the'
              ' artificial pending future of a remote iteration never COMPLETES (it is'
              ' cancelled on every exit) — a completed placeholder is fed to refresh() as if'
              ' the worker had answered at the iteration start and can revive a worker that'
              ' was declared dead (R-C06-8)', c06.r8, min_instances=1)


def _registry(ctx):
  repo = ctx.repo
  ci = repo.cls(CU, 'WorkerRegistry')
  eng = LockEngine(repo)
  table = eng.lock_table(ci)
  if '_lock' not in table:
    raise AnalysisError('WorkerRegistry._lock not found in __init__')
  return ci, eng, table['_lock'][0]


def r1(ctx: Ctx):
  rule = 'R-C20-1'
  ctx.rule(rule, 'registry lockset: every read or write of the registry table'
           ' (self.data) in WorkerRegistry happens with self._lock held')
  ci, eng, lock = _registry(ctx)
  n = 0
  for name, fi in ci.methods.items():
    if name in ('__init__',):
      continue
    uses = [x for x in walk_no_nested(fi.node) if is_self_attr(x, 'data')]
    if not uses:
      continue
    eng.analyze(fi)
    g = cfgm.cfg_of(fi.node)
    states = eng.states_at(fi)
    for u in uses:
      n += 1
      nodes = [nd for nd in g.nodes if any(x is u for x in cfgm.node_exprs(nd))]
      held = bool(nodes) and all(
          all(ls_has(ls, lock) for ls in st.get(nd, ())) and st.get(nd)
          for st in states for nd in nodes)
      if held:
        ctx.ok(rule, fi, f'{fi.name}: {unparse(_stmt_of(fi, u))}', u)
      else:
        ctx.fail(rule, fi, _stmt_of(fi, u),
                 f'WorkerRegistry.{fi.name} touches the heartbeat table without'
                 ' holding the registry lock: concurrent refresh/unregister'
                 ' can interleave with it', node=u)
  ctx.floor(rule, 4, n)


def _stmt_of(fi, sub):
  for s in walk_no_nested(fi.node):
    if isinstance(s, ast.stmt) and not isinstance(s, (ast.With, ast.If, ast.For,
                                                      ast.While, ast.Try,
                                                      ast.FunctionDef)):
      if any(x is sub for x in ast.walk(s)):
        return s
  return sub


def r2(ctx: Ctx):
  rule = 'R-C20-2'
  ctx.rule(rule, 'atomic check-then-act: refresh reads the previous heartbeat'
           ' and stores the new one inside one `with self._lock` block; the'
           ' store is dominated by `previous is not None` (dead stays dead)'
           ' and stores max(previous, new) (never moves backwards)')
  ci, eng, lock = _registry(ctx)
  fi = ci.methods.get('refresh')
  if fi is None:
    raise AnalysisError('WorkerRegistry.refresh missing')
  ps = fi.params()
  addr, tparam = ps[1], ps[2]
  stores = [x for x in walk_no_nested(fi.node) if isinstance(x, ast.Assign)
            and isinstance(x.targets[0], ast.Subscript)
            and is_self_attr(x.targets[0].value, 'data')]
  if len(stores) != 1:
    ctx.fail(rule, fi, 'refresh: single guarded store',
             f'refresh has {len(stores)} stores into the table (one expected)',
             node=fi.node)
    return
  st = stores[0]
  reads = [x for x in walk_no_nested(fi.node) if isinstance(x, ast.Assign)
           and isinstance(x.targets[0], ast.Name)
           and any(is_self_attr(y, 'data') for y in ast.walk(x.value))]
  if not reads:
    ctx.fail(rule, fi, st, 'refresh stores without reading the previous'
             ' heartbeat: a dead worker is revived and time can move backwards')
    return
  rd = reads[0]
  prev = rd.targets[0].id
  withs = [w for w in walk_no_nested(fi.node) if isinstance(w, ast.With)
           and any(unparse(i.context_expr) == 'self._lock' for i in w.items)]
  same = any(any(x is rd for x in ast.walk(w)) and any(x is st for x in ast.walk(w))
             for w in withs)
  if same:
    ctx.ok(rule, fi, 'read and store in one critical section', st)
  else:
    ctx.fail(rule, fi, st, 'the previous heartbeat is read and the new one'
             ' stored in different critical sections: an unregister between'
             ' them is overwritten (dead worker revived)')
  g = cfgm.cfg_of(fi.node)
  stn = [n for n in g.nodes if n.ast is st]
  def notdead(n):
    if n.kind != 'cond':
      return False
    t = n.ast
    return (isinstance(t, ast.Compare) and isinstance(t.ops[0], ast.IsNot)
            and unparse(t.left) == prev and unparse(t.comparators[0]) == 'None')
  def true_only(a, b, lab):
    if lab in ('exc', 'close'):
      return False
    if notdead(a) and lab == 'false':
      return True   # this is the edge that must NOT reach the store
    return True
  # the store must be unreachable when the not-dead test is false
  bad = False
  for n in stn:
    conds = [c for c in g.nodes if notdead(c)]
    if not conds:
      bad = True
      break
    reach = g.reachable([g.entry], edge_ok=lambda a, b, lab: lab not in ('exc', 'close')
                        and not (notdead(a) and lab == 'true'))
    if n in reach:
      bad = True
  if bad:
    ctx.fail(rule, fi, f'refresh: store guarded by `{prev} is not None`',
             'the store is reachable without passing the not-dead test: a late'
             ' heartbeat revives a worker that was declared dead', node=st)
  else:
    ctx.ok(rule, fi, f'store dominated by `{prev} is not None`', st)
  v = st.value
  if isinstance(v, ast.Name):
    # `newest = max(previous, new); table[address] = newest`
    defs = [x.value for x in walk_no_nested(fi.node) if isinstance(x, ast.Assign) and len(x.targets) == 1
            and isinstance(x.targets[0], ast.Name) and x.targets[0].id == v.id]
    if len(defs) == 1:
      v = defs[0]
  ok = (isinstance(v, ast.Call) and unparse(v.func) == 'max'
        and {unparse(a) for a in v.args} == {prev, tparam})
  if ok:
    ctx.ok(rule, fi, f'stores max({prev}, {tparam})', st)
  else:
    ctx.fail(rule, fi, f'refresh: self.data[{addr}] = max({prev}, {tparam})',
             f'refresh stores `{unparse(v)}` instead of the maximum of the'
             ' previous and the new heartbeat: recorded heartbeats can move'
             ' backwards', node=st)
  key_ok = unparse(st.targets[0].slice) == addr and addr in unparse(rd.value)
  if not key_ok:
    ctx.fail(rule, fi, st, 'refresh reads and writes different keys')
  ctx.floor(rule, 3)


def r3(ctx: Ctx):
  rule = 'R-C20-3'
  ctx.rule(rule, 'single writer: the table is written only by refresh'
           ' (guarded max), register (explicit re-registration) and unregister'
           ' (dead marker None); __setitem__ raises; nothing outside the class'
           ' stores into a registry table')
  repo = ctx.repo
  ci, eng, lock = _registry(ctx)
  writers = {}
  for name, fi in ci.methods.items():
    for x in walk_no_nested(fi.node):
      if isinstance(x, (ast.Assign, ast.AugAssign)):
        tg = x.targets if isinstance(x, ast.Assign) else [x.target]
        for t in tg:
          if isinstance(t, ast.Subscript) and is_self_attr(t.value, 'data'):
            writers.setdefault(name, []).append(x)
      if isinstance(x, ast.Call) and isinstance(x.func, ast.Attribute) and is_self_attr(
          x.func.value, 'data') and x.func.attr in ('update', 'pop', 'clear', 'setdefault',
                                                     'popitem', '__setitem__'):
        writers.setdefault(name, []).append(x)
      if isinstance(x, ast.Delete):
        for t in x.targets:
          if isinstance(t, ast.Subscript) and is_self_attr(t.value, 'data'):
            writers.setdefault(name, []).append(x)
  allowed = {'refresh': 'guarded monotone update (R-C20-2)',
             'register': 'explicit (re-)registration by the worker\'s own server heartbeat',
             'unregister': 'stores the dead marker'}
  for name, sites in writers.items():
    fi = ci.methods[name]
    if name not in allowed:
      ctx.fail(rule, fi, sites[0], f'WorkerRegistry.{name} writes the heartbeat'
               ' table outside the three audited writers: the dead guard and'
               ' monotonicity of refresh can be bypassed')
    else:
      ctx.ok(rule, fi, f'{name}: {allowed[name]}', sites[0])
  un = ci.methods.get('unregister')
  if un is not None:
    st = writers.get('unregister', [])
    if st and all(isinstance(s, ast.Assign) and isinstance(s.value, ast.Constant)
                  and s.value.value is None for s in st):
      ctx.ok(rule, un, 'unregister stores None', st[0])
    else:
      ctx.fail(rule, un, 'unregister: self.data[address] = None',
               'unregister no longer marks the worker dead with None',
               node=un.node)
    # ... on EVERY path: a death notice can be the first thing heard of an
    # address (shutdown of a never-contacted worker); without the tombstone the
    # next refresh counts as first contact and the worker is alive again
    if st:
      g = cfgm.cfg_of(un.node)
      ids = {id(s_) for s_ in st}
      miss = g.must_pass(g.entry, [g.exit_ret], lambda n: n.ast is not None and id(n.ast) in ids,
                         cfgm.only_normal)
      if miss is None:
        ctx.ok(rule, un, 'every return of unregister has stored the dead marker', st[0])
      else:
        ctx.fail(rule, un, 'unregister: the dead marker is stored on every path',
                 'unregister can return without storing the dead marker (path: '
                 + ' -> '.join(x_[:40] for x_ in miss[:6]) + '): a death notice for an'
                 ' address never heard of before leaves no tombstone, the next refresh'
                 ' counts as first contact and the dead worker is reported alive again',
                 node=un.node)
  si = ci.methods.get('__setitem__')
  if si is not None and any(isinstance(x, ast.Raise) for x in si.node.body):
    ctx.ok(rule, si, '__setitem__ raises', si.node)
  else:
    fi0 = si or ci.methods['refresh']
    ctx.fail(rule, fi0, 'WorkerRegistry.__setitem__ raises TypeError',
             'direct item assignment on the registry is possible again: the'
             ' lock and the dead guard are bypassed', node=fi0.node)
  # outside writers
  for fi in repo.all_functions():
    if fi.cls is ci:
      continue
    for x in walk_no_nested(fi.node):
      tg = []
      if isinstance(x, ast.Assign):
        tg = x.targets
      elif isinstance(x, ast.AugAssign):
        tg = [x.target]
      for t in tg:
        if isinstance(t, ast.Subscript) and ('_worker_registry' in unparse(t.value)
                                             or 'worker_registry()' in unparse(t.value)):
          ctx.fail(rule, fi, x, 'the worker registry table is written from'
                   ' outside WorkerRegistry')
  ctx.floor(rule, 6)


def r4(ctx: Ctx):
  rule = 'R-C20-4'
  ctx.rule(rule, 'liveness function: _is_heartbeat_fresh returns now - last'
           ' recorded heartbeat < threshold; it refreshes the registry only'
           ' with the SEND time of calls that completed without exception;'
           ' is_alive returns True only on that result; the registry reports 0'
           ' for a dead worker')
  repo = ctx.repo
  fi = repo.func(CU, 'CourierClient._is_heartbeat_fresh')
  rets = [x for x in walk_no_nested(fi.node) if isinstance(x, ast.Return)]
  ok = False
  if len(rets) == 1 and isinstance(rets[0].value, ast.Compare):
    c = rets[0].value
    op = c.ops[0]
    l, r = unparse(c.left), unparse(c.comparators[0])
    if isinstance(op, ast.Lt) and l in ('time.time() - self._last_heartbeat',) and (
        r == 'self.heartbeat_threshold_secs'):
      ok = True
    if isinstance(op, ast.Gt) and r in ('time.time() - self._last_heartbeat',) and (
        l == 'self.heartbeat_threshold_secs'):
      ok = True
  if ok:
    ctx.ok(rule, fi, 'fresh = now - last_heartbeat < threshold', rets[0])
  else:
    ctx.fail(rule, fi, '_is_heartbeat_fresh: return time.time() - self._last_heartbeat < self.heartbeat_threshold_secs',
             'liveness is no longer `now - last recorded heartbeat < threshold`',
             node=fi.node)
  # refresh(address, <send time>) only for done, non-failed states
  g = cfgm.cfg_of(fi.node)
  refs = [n for n in g.nodes if any(
      isinstance(x, ast.Call) and isinstance(x.func, ast.Attribute)
      and x.func.attr == 'refresh' for x in cfgm.node_exprs(n))]
  if not refs:
    ctx.fail(rule, fi, '_is_heartbeat_fresh: _worker_registry.refresh(address, send_time)',
             'completed calls no longer refresh the heartbeat', node=fi.node)
  for n in refs:
    call = [x for x in cfgm.node_exprs(n) if isinstance(x, ast.Call)
            and isinstance(x.func, ast.Attribute) and x.func.attr == 'refresh'][0]
    a = [unparse(z) for z in call.args]
    loopvars = [unparse(l.target) for l in walk_no_nested(fi.node) if isinstance(l, ast.For)]
    time_ok = len(a) == 2 and a[0] == 'self.address' and any(
        a[1] == f'{lv}.time' for lv in loopvars)
    done = lambda c: c.kind == 'cond' and '.done()' in unparse(c.ast)
    noexc = lambda c: c.kind == 'cond' and '.exception()' in unparse(c.ast)
    reach_done = g.reachable([g.entry], edge_ok=lambda p, q, lab: lab not in ('exc', 'close')
                             and not (done(p) and lab == 'true'))
    reach_exc = g.reachable([g.entry], edge_ok=lambda p, q, lab: lab not in ('exc', 'close')
                            and not (noexc(p) and lab == ('true' if isinstance(p.ast, ast.UnaryOp) else 'false')))
    if not time_ok:
      ctx.fail(rule, fi, call, 'the registry is refreshed with something other'
               ' than the send time of the completed call: a stale reply makes'
               ' a dead worker look freshly alive')
    elif n in reach_done or n in reach_exc:
      ctx.fail(rule, fi, call, 'the heartbeat is refreshed for calls that are'
               ' not done or that failed')
    else:
      ctx.ok(rule, fi, f'{unparse(call)} only for done, non-failed calls', call)
  ia = repo.func(CU, 'CourierClient.is_alive')
  g = cfgm.cfg_of(ia.node)
  bad = None
  for n in g.nodes:
    if isinstance(n.ast, ast.Return):
      v = n.ast.value
      if isinstance(v, ast.Constant) and v.value is False:
        continue
      if isinstance(v, ast.Call) and unparse(v.func) == 'self._is_heartbeat_fresh':
        continue
      # any other return must be under the fresh test
      fresh = lambda c: c.kind == 'cond' and '_is_heartbeat_fresh' in unparse(c.ast)
      reach = g.reachable([g.entry], edge_ok=lambda p, q, lab: lab not in ('exc', 'close')
                          and not (fresh(p) and lab == 'true'))
      if n in reach or not (isinstance(v, ast.Constant) and v.value is True):
        bad = n
  if bad is None:
    ctx.ok(rule, ia, 'is_alive True only when the heartbeat is fresh', ia.node)
  else:
    ctx.fail(rule, ia, bad.ast, 'is_alive can report a worker alive without a'
             ' fresh recorded heartbeat')
  gt = repo.func(CU, 'WorkerRegistry.get')
  txt = unparse(gt.node)
  if 'is None' in txt and ('return 0' in txt):
    ctx.ok(rule, gt, 'get: dead (None) -> 0', gt.node)
  else:
    ctx.fail(rule, gt, 'WorkerRegistry.get: None -> 0',
             'a dead worker no longer reads as heartbeat 0', node=gt.node)
  lh = repo.func(CU, 'CourierClient._last_heartbeat')
  if '_worker_registry.get(self.address)' in unparse(lh.node) or 'worker_registry().get(self.address)' in unparse(lh.node):
    ctx.ok(rule, lh, '_last_heartbeat reads the registry', lh.node)
  else:
    ctx.fail(rule, lh, '_last_heartbeat: return _worker_registry.get(self.address)',
             'liveness no longer reads the recorded heartbeat of its own address',
             node=lh.node)
  ctx.floor(rule, 5)


def r5(ctx: Ctx):
  rule = 'R-C20-5'
  ctx.rule(rule, 'ownership under lock: Worker.acquire_by/release test-and-set'
           ' _lock/_worker_pool under _states_lock; the pool is recorded only'
           ' after a successful acquire; release only releases a locked lock;'
           ' release_all only releases workers available to this pool')
  repo = ctx.repo
  wk = repo.cls(CW, 'Worker')
  eng = LockEngine(repo)
  st_lock = eng.lock_table(wk).get('_states_lock')
  if st_lock is None:
    raise AnalysisError('Worker._states_lock not found')
  st_lock = st_lock[0]
  for name in ('acquire_by', 'release'):
    fi = wk.methods[name]
    eng.analyze(fi)
    g = cfgm.cfg_of(fi.node)
    states = eng.states_at(fi)
    touch = [n for n in g.nodes if n.kind in ('stmt', 'cond') and any(
        is_self_attr(x, '_worker_pool') or is_self_attr(x, '_lock')
        for x in cfgm.node_exprs(n))]
    bad = [n for n in touch if not all(
        all(ls_has(ls, st_lock) for ls in st.get(n, ())) and st.get(n) for st in states)]
    if bad or not touch:
      ctx.fail(rule, fi, (bad[0].ast if bad else fi.node),
               f'Worker.{name} reads/writes the ownership fields outside'
               ' _states_lock: two pools can both believe they own the worker')
    else:
      ctx.ok(rule, fi, f'{name}: ownership fields only under _states_lock', fi.node)
  ab = wk.methods['acquire_by']
  g = cfgm.cfg_of(ab.node)
  pool_param = ab.params()[1]
  sets = [n for n in g.nodes if isinstance(n.ast, ast.Assign) and is_self_attr(
      n.ast.targets[0], '_worker_pool')]
  acq = lambda c: c.kind == 'cond' and any(
      isinstance(x, ast.Call) and isinstance(x.func, ast.Attribute)
      and x.func.attr == 'acquire' and is_self_attr(x.func.value, '_lock')
      for x in cfgm.node_exprs(c))
  reach = g.reachable([g.entry], edge_ok=lambda p, q, lab: lab not in ('exc', 'close')
                      and not (acq(p) and lab == 'true'))
  if sets and all(n not in reach and unparse(n.ast.value) == pool_param for n in sets):
    ctx.ok(rule, ab, 'owner recorded only after a successful _lock.acquire', sets[0].ast)
  else:
    ctx.fail(rule, ab, 'acquire_by: self._worker_pool = worker_pool only after self._lock.acquire()',
             'the owning pool is recorded without having acquired the worker'
             ' lock (or records another pool)', node=ab.node)
  rets = [n for n in g.nodes if isinstance(n.ast, ast.Return)]
  if rets and all(unparse(n.ast.value) == f'self._worker_pool is {pool_param}' for n in rets):
    ctx.ok(rule, ab, 'returns ownership test', rets[0].ast)
  else:
    ctx.fail(rule, ab, f'acquire_by: return self._worker_pool is {pool_param}',
             'acquire_by does not report whether this pool now owns the worker',
             node=ab.node)
  rl = wk.methods['release']
  g = cfgm.cfg_of(rl.node)
  rel = [n for n in g.nodes if any(
      isinstance(x, ast.Call) and isinstance(x.func, ast.Attribute)
      and x.func.attr == 'release' and is_self_attr(x.func.value, '_lock')
      for x in cfgm.node_exprs(n))]
  locked = lambda c: c.kind == 'cond' and 'self._lock.locked()' in unparse(c.ast)
  reach = g.reachable([g.entry], edge_ok=lambda p, q, lab: lab not in ('exc', 'close')
                      and not (locked(p) and lab == 'true'))
  clears = [n for n in g.nodes if isinstance(n.ast, ast.Assign) and is_self_attr(
      n.ast.targets[0], '_worker_pool') and unparse(n.ast.value) == 'None']
  if rel and all(n not in reach for n in rel) and clears:
    ctx.ok(rule, rl, 'release: unlock only when locked, clear owner', rl.node)
  else:
    ctx.fail(rule, rl, 'release: if self._lock.locked(): self._lock.release(); self._worker_pool = None',
             'release can unlock an unlocked lock (RuntimeError) or leaves the'
             ' owner set', node=rl.node)
  ra = repo.func(CW, 'WorkerPool.release_all')
  g = cfgm.cfg_of(ra.node)
  rels = [n for n in g.nodes if any(
      isinstance(x, ast.Call) and isinstance(x.func, ast.Attribute)
      and x.func.attr == 'release' for x in cfgm.node_exprs(n))]
  def _recv(n):
    for x in cfgm.node_exprs(n):
      for c in ast.walk(x):
        if isinstance(c, ast.Call) and isinstance(c.func, ast.Attribute) and c.func.attr == 'release' and (
            isinstance(c.func.value, ast.Name)):
          return c.func.value.id
    return None
  def _passes_owner(n):
    return any(isinstance(c, ast.Call) and isinstance(c.func, ast.Attribute) and c.func.attr == 'release' and (
        c.args or c.keywords) and unparse((c.args + [k.value for k in c.keywords])[0]) == 'self'
               for x in cfgm.node_exprs(n) for c in ast.walk(x))
  # `w.release(self)` is discharged by the callee when Worker.release re-validates the owner (R-C20-12)
  revalidates = _release_revalidates(repo)
  reach = {n for n in rels if not (revalidates and _passes_owner(n)) and (
      _recv(n) is None or not _owned_at(g, _recv(n), n))}
  if rels and all(n not in reach for n in rels):
    ctx.ok(rule, ra, 'release_all guarded by is_available(self)', ra.node)
  else:
    ctx.fail(rule, ra, 'release_all: if worker.is_available(self): worker.release()',
             'a pool can release workers owned by another pool', node=ra.node)
  # ... and releases EVERY worker that is this pool's or free: a worker of the loop is passed
  # over only on the false edge of a test made of ownership tests alone (is_available /
  # is_locked / acquire_by on it); any further condition (e.g. "no call in flight") leaves owned
  # workers acquired when the pool-level operation ends
  heads = [nd for nd in g.nodes if nd.kind == 'for_iter']
  for h in heads:
    wv = h.ast.target.id if isinstance(h.ast.target, ast.Name) else None
    if wv is None:
      continue

    def pure_ownership(t, wv=wv):
      cs = t.values if isinstance(t, ast.BoolOp) and isinstance(t.op, ast.And) else [t]
      return all(isinstance(c_, ast.Call) and isinstance(c_.func, ast.Attribute) and c_.func.attr in _OWN_TESTS
                 and isinstance(c_.func.value, ast.Name) and c_.func.value.id == wv for c_ in cs)

    def edge_ok(a, b, lab, pure_ownership=pure_ownership):
      if lab in ('exc', 'close'):
        return False
      if a.kind == 'cond' and lab in ('true', 'false'):
        t_, neg = a.ast, False
        while isinstance(t_, ast.UnaryOp) and isinstance(t_.op, ast.Not):
          t_, neg = t_.operand, not neg
        if pure_ownership(t_) and lab == ('true' if neg else 'false'):
          return False
      return True

    body = [s_ for s_, lab in h.succ if lab not in ('exc', 'close', 'exit', 'done', 'false')]
    rel = lambda nd, wv=wv: any(isinstance(x, ast.Call) and isinstance(x.func, ast.Attribute) and x.func.attr == 'release'
                                and unparse(x.func.value) == wv for x in cfgm.node_exprs(nd))
    skipped = None
    for s_ in body:
      if s_ is g.exit_ret or rel(s_):
        continue
      reach = g.reachable([s_], avoid=rel, edge_ok=edge_ok, include_src=True)
      if h in reach:
        skipped = g.path_to(reach, h)
    if skipped:
      ctx.fail(rule, ra, 'release_all releases every worker it owns or that is free',
               'release_all can pass over a worker without the ownership test having failed (' +
               ' -> '.join(str(x_).split(':', 2)[-1][:40] for x_ in skipped[-3:]) + '): an extra condition keeps a'
               ' worker this pool owns acquired when the pool-level operation returns or raises', node=ra.node)
    else:
      ctx.ok(rule, ra, 'release_all: only a failed ownership test skips a worker', h.ast)
  dom = [x for x in walk_no_nested(ra.node) if isinstance(x, ast.Assign)
         and isinstance(x.value, ast.BoolOp) and isinstance(x.value.op, ast.Or)]
  ok_dom = any(unparse(x.value.values[-1]) in ('self._workers', 'self.all_workers') for x in dom)
  if ok_dom:
    ctx.ok(rule, ra, 'release_all defaults to ALL workers of the pool', dom[0])
  else:
    ctx.fail(rule, ra, 'release_all: workers = workers or self._workers',
             'without an explicit list release_all does not range over every'
             ' worker of the pool (e.g. only the alive ones): a worker that died'
             ' while acquired stays locked and owned forever', node=ra.node)
  ia = repo.func(CW, 'Worker.is_available')
  txt = unparse([x for x in walk_no_nested(ia.node) if isinstance(x, ast.Return)][0].value)
  p = ia.params()[1]
  if txt in (f'not self._lock.locked() or self._worker_pool is {p}',
             f'self._worker_pool is {p} or not self._lock.locked()'):
    ctx.ok(rule, ia, 'is_available = free or owned by this pool', ia.node)
  else:
    ctx.fail(rule, ia, 'is_available: not self._lock.locked() or self._worker_pool is worker_pool',
             f'is_available is `{txt}`', node=ia.node)
  ctx.floor(rule, 8)


def _acquire_nodes(g, fi):
  out = []
  for n in g.nodes:
    for x in cfgm.node_exprs(n):
      if isinstance(x, ast.Call) and isinstance(x.func, ast.Attribute):
        if x.func.attr == 'next_idle_worker' and const_true(kwarg(x, 'maybe_acquire')):
          out.append(n)
        elif x.func.attr == '_acquire_all':
          out.append(n)
  return out


def const_true(e):
  return isinstance(e, ast.Constant) and e.value is True


def _release_node(n):
  if n.kind == 'for_iter':
    # `for w in container: w.release()` releases every held worker
    for st in n.ast.body:
      for x in ast.walk(st):
        if isinstance(x, ast.Call) and isinstance(x.func, ast.Attribute) and (
            x.func.attr in ('release', 'release_all')) and 'lock' not in unparse(
                x.func.value).lower():
          return True
    return False
  for x in cfgm.node_exprs(n):
    if isinstance(x, ast.Call) and isinstance(x.func, ast.Attribute):
      if x.func.attr == 'release_all':
        return True
      if x.func.attr == 'release' and 'lock' not in unparse(x.func.value).lower():
        return True
  return False


def r6(ctx: Ctx):
  rule = 'R-C20-6'
  ctx.rule(rule, 'acquire/release pairing: from every call that can acquire'
           ' workers (next_idle_worker(maybe_acquire=True), _acquire_all) every'
           ' path to a return, a raise or a generator close releases them;'
           ' next_idle_worker itself never keeps a worker it acquired but does'
           ' not return')
  repo = ctx.repo
  targets = []
  for fi in repo.all_functions():
    if fi.module.name.endswith(('courier_worker', 'orchestrate')):
      targets.append(fi)
      for name, nd in _nested(fi.node).items():
        targets.append(FuncInfo(fi.module, f'{fi.qualname}.{name}', nd, fi.cls))
  n = 0
  for fi in targets:
    g = cfgm.cfg_of(fi.node)
    acq = _acquire_nodes(g, fi)
    if not acq:
      continue
    n += 1
    # idiom: workers kept in a container; the loop runs until it is empty and
    # every removal is paired with a release -> the normal exit is covered
    container_ok = _container_discipline(g, fi)
    exits = [g.exit_exc] + ([g.exit_close] if g.is_generator else [])
    if not container_ok:
      exits.append(g.exit_ret)
    if container_ok is False and _CONTAINER_WITNESS.get(id(g)):
      d, w = _CONTAINER_WITNESS[id(g)]
      ctx.fail(rule, fi, f'{fi.qualname}: a worker taken out of the tracking container is released at once',
               f'after `{unparse(d.ast)}` the worker is no longer covered by the clean-up loop over'
               ' the container, yet a statement that can raise (or a path to the loop head /'
               ' return) comes before its own release(): when it raises the stage fails while'
               ' that worker stays acquired', node=d.ast, witness=w[-8:])
      continue
    worst = None
    for a in acq:
      # the variable that receives the acquired worker (None = nothing held,
      # given the callee-level rule below)
      var = None
      if isinstance(a.ast, ast.Assign) and isinstance(a.ast.targets[0], ast.Name):
        var = a.ast.targets[0].id
      for x in cfgm.node_exprs(a):
        if isinstance(x, ast.NamedExpr) and isinstance(x.target, ast.Name):
          var = x.target.id

      def edge_ok(p, q, lab, var=var, a=a):
        if var and p.kind == 'cond' and isinstance(p.ast, ast.Compare) and len(
            p.ast.ops) == 1 and unparse(p.ast.left) == var and unparse(
                p.ast.comparators[0]) == 'None':
          if isinstance(p.ast.ops[0], ast.Is) and lab == 'true':
            return False
          if isinstance(p.ast.ops[0], ast.IsNot) and lab == 'false':
            return False
        # `if var is None and ...:` — the true edge implies nothing is held
        if var and p.kind == 'cond' and isinstance(p.ast, ast.BoolOp) and isinstance(
            p.ast.op, ast.And) and lab == 'true' and any(
                isinstance(v, ast.Compare) and len(v.ops) == 1
                and isinstance(v.ops[0], ast.Is) and unparse(v.left) == var
                and unparse(v.comparators[0]) == 'None' for v in p.ast.values):
          return False
        return True

      for s, lab in a.succ:
        if lab in ('exc', 'close'):
          continue
        if _release_node(s):
          continue
        w = g.must_pass(s, exits, _release_node, edge_ok)
        if w is not None:
          worst = (a, w)
    if worst:
      a, w = worst
      kind = w[-1].split(':')[1] if w else ''
      ctx.fail(rule, fi, f'{fi.qualname}: workers acquired by {_acq_txt(a)} released on every exit',
               f'{fi.qualname} can acquire workers ({_acq_txt(a)}) and leave'
               f' through {"a raise" if "exc" in kind else "generator close" if "close" in kind else "a return"}'
               ' without releasing them: they stay owned by this pool and are'
               ' unavailable to every other pool', node=a.ast, witness=w[-12:])
    else:
      ctx.ok(rule, fi, f'{fi.qualname}: acquired workers released on every exit', acq[0].ast)
  # callee level: next_idle_worker
  ni = repo.func(CW, 'WorkerPool.next_idle_worker')
  g = cfgm.cfg_of(ni.node)
  conds = [c for c in g.nodes if c.kind == 'cond' and any(
      isinstance(x, ast.Call) and isinstance(x.func, ast.Attribute)
      and x.func.attr == 'acquire_by' for x in cfgm.node_exprs(c))]
  if not conds:
    raise AnalysisError(f'{rule}: next_idle_worker no longer calls acquire_by in a condition')
  for c in conds:
    t = c.ast
    maybe_after_acquire = ['true']
    if isinstance(t, ast.BoolOp) and isinstance(t.op, ast.And):
      idx = [i for i, v in enumerate(t.values) if 'acquire_by' in unparse(v)]
      if idx and idx[0] < len(t.values) - 1:
        maybe_after_acquire.append('false')
    var = None
    for x in cfgm.node_exprs(c):
      if isinstance(x, ast.Call) and isinstance(x.func, ast.Attribute) and x.func.attr == 'acquire_by':
        var = unparse(x.func.value)
    ok_node = lambda nd: _release_node(nd) or (isinstance(nd.ast, ast.Return)
                                               and nd.ast.value is not None
                                               and unparse(nd.ast.value) == var)
    bad = None
    for s, lab in c.succ:
      if lab not in maybe_after_acquire:
        continue
      if ok_node(s):
        continue
      loop_heads = [x for x in g.nodes if x.kind == 'for_iter']
      w = g.must_pass(s, [g.exit_ret] + loop_heads, ok_node, cfgm.only_normal)
      if w is not None or s in loop_heads or s is g.exit_ret:
        bad = w or [f'{c.text()} -[{lab}]-> {s.text()}']
    if bad:
      ctx.fail(rule, ni, c.ast,
               'next_idle_worker acquires a worker and, when it then turns out'
               ' to be busy or dead, neither returns nor releases it: the'
               ' worker stays acquired by the pool after the pool-level'
               ' operation ends', witness=bad)
    else:
      ctx.ok(rule, ni, 'acquired-but-unfit workers are released', c.ast)
  ctx.floor(rule, 4, n + 1)


def _acq_txt(n):
  for x in cfgm.node_exprs(n):
    if isinstance(x, ast.Call) and isinstance(x.func, ast.Attribute) and x.func.attr in (
        'next_idle_worker', '_acquire_all'):
      return x.func.attr
  return 'acquire'


def _nested(fn):
  out = {}
  for s in ast.walk(fn):
    if s is not fn and isinstance(s, (ast.FunctionDef, ast.AsyncFunctionDef)):
      out[s.name] = s
  return out


_CONTAINER_WITNESS: dict = {}


def _container_discipline(g, fi) -> bool:
  """while ... or <container>: ... del container[w]; w.release()"""
  dels = [n for n in g.nodes if isinstance(n.ast, ast.Delete)]
  if not dels:
    return False
  names = set()
  for d in dels:
    for t in d.ast.targets:
      if isinstance(t, ast.Subscript) and isinstance(t.value, ast.Name):
        names.add(t.value.id)
  loop_conds = [c for c in g.nodes if c.kind == 'cond' and getattr(c, 'is_loop', False)]
  guarded = any(any(isinstance(x, ast.Name) and x.id in names for x in cfgm.node_exprs(c))
                for c in loop_conds)
  if not guarded:
    return False
  for d in dels:
    keys = {unparse(t.slice) for t in d.ast.targets if isinstance(t, ast.Subscript)}

    def releases_key(n, keys=keys):
      # the worker taken OUT of the container is released by name: the clean-up
      # loop over the container (in a finally) no longer covers it
      if n.kind == 'for_iter':
        return False
      return any(isinstance(x, ast.Call) and isinstance(x.func, ast.Attribute) and x.func.attr == 'release'
                 and unparse(x.func.value) in keys for x in cfgm.node_exprs(n))

    preds = [q for q in g.nodes for s_, lab_ in q.succ if s_ is d and lab_ not in ('exc', 'close')]
    if preds and all(releases_key(q) for q in preds):
      continue  # released first, then removed
    for s, lab in d.succ:
      if lab in ('exc', 'close'):
        continue
      if releases_key(s):
        continue
      # every continuation, INCLUDING a raise of a statement in between
      w = g.must_pass(s, [g.exit_ret, g.exit_exc] + loop_conds, releases_key, None)
      if w is not None:
        _CONTAINER_WITNESS[id(g)] = (d, w)
        return False
  return True


_OWN_TESTS = ('acquire_by', 'is_available', 'is_locked')
_ALL_OWN_TESTS = _OWN_TESTS
# facts that stay true until this pool releases: a successful acquire, "locked AND owned by this pool".
# is_available() also holds for a FREE worker, which any other pool may acquire the next moment.
_STABLE_OWN_TESTS = ('acquire_by', 'is_locked')


def _own_polarity(t: ast.AST, var: str) -> bool | None:
  """True/False: the edge label on which `var` is known to be owned/free."""
  neg = False
  while isinstance(t, ast.UnaryOp) and isinstance(t.op, ast.Not):
    neg = not neg
    t = t.operand
  cs = [t]
  if isinstance(t, ast.BoolOp) and isinstance(t.op, ast.And) and not neg:
    cs = t.values
  elif isinstance(t, ast.BoolOp) and isinstance(t.op, ast.Or) and neg:
    # not (a or b) == not a and not b: no positive ownership fact
    return None
  for c in cs:
    if isinstance(c, ast.NamedExpr):
      c = c.value
    if isinstance(c, ast.Call) and isinstance(c.func, ast.Attribute) and c.func.attr in _OWN_TESTS and (
        isinstance(c.func.value, ast.Name) and c.func.value.id == var and c.args):
      return not neg
  return None


def _container_of(it: ast.AST) -> str | None:
  if isinstance(it, ast.Name):
    return it.id
  if isinstance(it, ast.Call):
    if isinstance(it.func, ast.Attribute) and it.func.attr in ('items', 'keys', 'copy') and not it.args:
      return _container_of(it.func.value)
    if unparse(it.func) in ('copy.copy', 'list', 'tuple', 'set', 'sorted', 'reversed') and len(it.args) == 1:
      return _container_of(it.args[0])
  return None


def _owned_at(g, var: str, node, depth: int = 0) -> bool:
  """Is `var` proven to be owned by (or free for) this pool whenever `node` runs?"""
  if depth > 3:
    return False
  proven_loops = set()
  for n in g.nodes:
    if n.kind == 'for_iter':
      tv = n.ast.target.elts[0] if isinstance(n.ast.target, ast.Tuple) and n.ast.target.elts else n.ast.target
      if isinstance(tv, ast.Name) and tv.id == var:
        c = _container_of(n.ast.iter)
        if c is not None and _container_owned(g, c, depth + 1):
          proven_loops.add(n)

  def acquired_assign(n):
    if n.kind != 'stmt' or not isinstance(n.ast, ast.Assign):
      return False
    if not any(isinstance(t, ast.Name) and t.id == var for t in n.ast.targets):
      return False
    v = n.ast.value
    return isinstance(v, ast.Call) and isinstance(v.func, ast.Attribute) and (
        v.func.attr == 'next_idle_worker' and unparse(kwarg(v, 'maybe_acquire')) == 'True')

  # if every binding of var is None or an acquiring call, `var is not None`
  # is an ownership fact
  binds = [n for n in g.nodes if n.kind == 'stmt' and isinstance(n.ast, ast.Assign) and any(
      isinstance(t, ast.Name) and t.id == var for t in n.ast.targets)]
  none_or_acq = bool(binds) and all(
      acquired_assign(b) or (isinstance(b.ast.value, ast.Constant) and b.ast.value.value is None)
      for b in binds) and not any(
          n.kind == 'for_iter' and any(isinstance(y, ast.Name) and y.id == var for y in ast.walk(n.ast.target))
          for n in g.nodes)

  def not_none_edge(t, lab):
    if isinstance(t, ast.Compare) and len(t.ops) == 1 and isinstance(t.left, ast.Name) and (
        t.left.id == var) and isinstance(t.comparators[0], ast.Constant) and t.comparators[0].value is None:
      return (isinstance(t.ops[0], ast.Is) and lab == 'false') or (
          isinstance(t.ops[0], ast.IsNot) and lab == 'true')
    return False

  def edge_ok(p, q, lab):
    if lab in ('exc', 'close'):
      return True
    if p.kind == 'cond' and none_or_acq and not_none_edge(p.ast, lab):
      return False
    if p.kind == 'cond':
      pol = _own_polarity(p.ast, var)
      if pol is not None and lab == ('true' if pol else 'false'):
        return False
    if p in proven_loops and lab == 'true':
      return False
    if acquired_assign(p) and lab == 'next':
      return False
    return True

  reach = g.reachable([g.entry], edge_ok=edge_ok, include_src=True)
  return node not in reach


def _container_owned(g, cname: str, depth: int) -> bool:
  sites = []
  for n in g.nodes:
    if n.kind != 'stmt':
      continue
    a = n.ast
    if isinstance(a, ast.Assign):
      for t in a.targets:
        if isinstance(t, ast.Subscript) and isinstance(t.value, ast.Name) and t.value.id == cname:
          sites.append((n, t.slice))
        if isinstance(t, ast.Name) and t.id == cname:
          v = a.value
          if isinstance(v, (ast.Dict, ast.List, ast.Set)) and not (
              getattr(v, 'keys', None) or getattr(v, 'elts', None)):
            continue
          if isinstance(v, ast.Call) and unparse(v.func) in ('dict', 'list', 'set') and not v.args:
            continue
          if isinstance(v, ast.Call) and isinstance(v.func, ast.Attribute) and v.func.attr in (
              '_acquire_all', 'acquire_all'):
            continue
          return False
    if isinstance(a, ast.Expr) and isinstance(a.value, ast.Call) and isinstance(
        a.value.func, ast.Attribute) and isinstance(a.value.func.value, ast.Name) and (
            a.value.func.value.id == cname) and a.value.func.attr in ('append', 'add') and a.value.args:
      sites.append((n, a.value.args[0]))
    if isinstance(a, ast.Expr) and isinstance(a.value, ast.Call) and isinstance(
        a.value.func, ast.Attribute) and isinstance(a.value.func.value, ast.Name) and (
            a.value.func.value.id == cname) and a.value.func.attr in ('extend', 'update', 'insert'):
      return False
  for n, key in sites:
    if not isinstance(key, ast.Name) or not _owned_at(g, key.id, n, depth):
      return False
  return True


def r7(ctx: Ctx):
  rule = 'R-C20-7'
  ctx.rule(rule, '"a pool can only release workers it owns or that are free":'
           ' Worker.release() is unconditional, so every `w.release()` in the'
           ' pool / orchestration code is dominated by an ownership fact for'
           ' that w — the true edge of w.acquire_by(pool) / w.is_available(pool)'
           ' / w.is_locked(pool), w returned by next_idle_worker(maybe_acquire='
           'True), or w drawn from a container that only ever receives such'
           ' workers')
  repo = ctx.repo
  targets = []
  for fi in repo.all_functions():
    if fi.module.name.endswith(('courier_worker', 'orchestrate')):
      targets.append(fi)
      for name, nd in _nested(fi.node).items():
        targets.append(FuncInfo(fi.module, f'{fi.qualname}.{name}', nd, fi.cls))
  n = 0
  revalidates = _release_revalidates(repo)
  for fi in targets:
    if fi.cls is not None and fi.cls.name == 'Worker':
      continue
    g = cfgm.cfg_of(fi.node)
    seen_calls = set()
    for nd in g.nodes:
      for x in cfgm.node_exprs(nd):
        for c in ast.walk(x):
          if isinstance(c, ast.Call) and isinstance(c.func, ast.Attribute) and c.func.attr == 'release' and (
              isinstance(c.func.value, ast.Name)) and 'lock' not in c.func.value.id.lower():
            var = c.func.value.id
            if (id(c), 0) in seen_calls:
              continue
            n += 1
            if (c.args or c.keywords) and revalidates:
              # the release names its owner and Worker.release re-validates it under the state lock (R-C20-12)
              seen_calls.add((id(c), 0))
              ctx.ok(rule, fi, f'{fi.qualname}: {unparse(c)} is validated by the callee', c)
              continue
            if all(_owned_at(g, var, nd2) for nd2 in g.nodes
                   if any(c is c2 for x2 in cfgm.node_exprs(nd2) for c2 in ast.walk(x2))):
              seen_calls.add((id(c), 0))
              ctx.ok(rule, fi, f'{fi.qualname}: {var}.release() under an ownership fact', c)
            else:
              seen_calls.add((id(c), 0))
              ctx.fail(rule, fi, f'{fi.qualname}: {var}.release() only for a worker this pool owns',
                       f'{fi.qualname} releases `{var}` on a path where nothing'
                       ' shows that this pool owns it (or that it is free):'
                       ' Worker.release() is unconditional, so a worker held by'
                       ' ANOTHER pool is released under its feet and two pools'
                       ' then use the same worker', node=c)
  ctx.floor(rule, 3, n)


def _release_revalidates(repo) -> bool:
  """Worker.release(owner): every path to self._lock.release() passes the owning edge of an owner test under _states_lock."""
  wk = repo.cls(CW, 'Worker')
  rel = wk.methods.get('release')
  if rel is None:
    raise AnalysisError('Worker.release not found')
  # (b) the callee
  params = [a.arg for a in rel.node.args.args[1:]] + [a.arg for a in rel.node.args.kwonlyargs]
  g = cfgm.cfg_of(rel.node)
  lock_rel = [nd for nd in g.nodes for x in cfgm.node_exprs(nd) for c in ast.walk(x)
              if isinstance(c, ast.Call) and unparse(c.func) == 'self._lock.release']
  if not lock_rel:
    raise AnalysisError('Worker.release: no self._lock.release() found')
  revalidates = False
  if params:
    owner = params[0]
    # the owner field read into a local INSIDE the state-lock block is the same fact (a read before the block is stale)
    held = {'self._worker_pool'}
    for w in ast.walk(rel.node):
      if isinstance(w, ast.With) and any(unparse(it.context_expr) == 'self._states_lock' for it in w.items):
        for y in ast.walk(w):
          if isinstance(y, ast.Assign) and len(y.targets) == 1 and isinstance(y.targets[0], ast.Name) and (
              unparse(y.value) == 'self._worker_pool'):
            name = y.targets[0].id
            if sum(1 for z in ast.walk(rel.node) if isinstance(z, ast.Name) and z.id == name
                   and isinstance(z.ctx, ast.Store)) == 1:
              held.add(name)

    def fold(t):
      """'own' / 'notown' / True / False / None (unknown), assuming the owner argument is given."""
      if isinstance(t, ast.UnaryOp) and isinstance(t.op, ast.Not):
        v = fold(t.operand)
        return {'own': 'notown', 'notown': 'own', True: False, False: True}.get(v)
      if isinstance(t, ast.Compare) and len(t.ops) == 1:
        l, r = unparse(t.left), unparse(t.comparators[0])
        is_, isnot = isinstance(t.ops[0], (ast.Is, ast.Eq)), isinstance(t.ops[0], (ast.IsNot, ast.NotEq))
        if {l, r} == {owner, 'None'}:
          return False if is_ else True if isnot else None
        if (l in held and r == owner) or (r in held and l == owner):
          return 'own' if is_ else 'notown' if isnot else None
        return None
      if isinstance(t, ast.Name) and t.id == owner:
        return True
      if isinstance(t, ast.Call) and unparse(t.func) in ('self.is_available', 'self.is_locked') and t.args and (
          unparse(t.args[0]) == owner):
        # under _states_lock: free (then `if self._lock.locked()` releases nothing) or owned
        return 'own'
      if isinstance(t, ast.BoolOp):
        vals = [fold(v) for v in t.values]
        if isinstance(t.op, ast.And):
          if False in vals:
            return False
          rest = [v for v in vals if v is not True]
          return True if not rest else rest[0] if len(rest) == 1 else ('own' if 'own' in rest else None)
        if True in vals:
          return True
        rest = [v for v in vals if v is not False]
        return False if not rest else rest[0] if len(rest) == 1 else ('notown' if all(v == 'notown' for v in rest) else None)
      return None

    def edge_ok(p, q, lab):
      if p.kind == 'cond':
        v = fold(p.ast)
        if (v == 'own' and lab == 'true') or (v == 'notown' and lab == 'false'):
          return False
        if (v is True and lab == 'false') or (v is False and lab == 'true'):
          return False
      return True

    reach = g.reachable([g.entry], edge_ok=edge_ok, include_src=True)
    revalidates = not any(nd in reach for nd in lock_rel)
    # ... and the test sits inside the state-lock block
    withs = [w for w in ast.walk(rel.node) if isinstance(w, ast.With) and any(
        unparse(it.context_expr) == 'self._states_lock' for it in w.items)]
    tests = [nd for nd in g.nodes if nd.kind == 'cond' and fold(nd.ast) in ('own', 'notown')]
    inside = bool(withs) and all(any(nd.ast is y for w in withs for y in ast.walk(w)) for nd in tests) and bool(tests)
    revalidates = revalidates and inside
  return revalidates


def r12(ctx: Ctx):
  global _OWN_TESTS
  rule = 'R-C20-12'
  ctx.rule(rule, '"a pool can only release workers it owns or that are free ... for all concurrent sequences of'
           ' acquire/release calls from several pools and threads": an availability test is not an ownership fact —'
           ' is_available(pool) also holds for a FREE worker, and between that test and the release another pool can'
           ' acquire it; and an acquire earlier on the path is not lasting either (another thread of the same pool may'
           ' release_all() while this one waits). So (a) EVERY `w.release(...)` of the pool / orchestration code names the'
           ' releasing pool; and (b) Worker.release re-validates: with'
           ' an owner given, every path to `self._lock.release()` passes — inside the `with self._states_lock` block —'
           ' the owning edge of a test of `self._worker_pool` against that owner')
  repo = ctx.repo
  wk = repo.cls(CW, 'Worker')
  rel = wk.methods.get('release')
  if rel is None:
    raise AnalysisError('Worker.release not found')
  n = 0
  revalidates = _release_revalidates(repo)
  n += 1
  # (a) the callers
  targets = []
  for fi in repo.all_functions():
    if fi.module.name.endswith(('courier_worker', 'orchestrate')):
      targets.append(fi)
      for name, nd in _nested(fi.node).items():
        targets.append(FuncInfo(fi.module, f'{fi.qualname}.{name}', nd, fi.cls))
  needs_callee = []
  for fi in targets:
    if fi.cls is not None and fi.cls.name == 'Worker':
      continue
    g2 = cfgm.cfg_of(fi.node)
    seen = set()
    for nd in g2.nodes:
      for x in cfgm.node_exprs(nd):
        for c in ast.walk(x):
          if not (isinstance(c, ast.Call) and isinstance(c.func, ast.Attribute) and c.func.attr == 'release'
                  and isinstance(c.func.value, ast.Name) and 'lock' not in c.func.value.id.lower()):
            continue
          if id(c) in seen:
            continue
          seen.add(id(c))
          var = c.func.value.id
          n += 1
          nodes = [nd2 for nd2 in g2.nodes if any(c is c2 for x2 in cfgm.node_exprs(nd2) for c2 in ast.walk(x2))]
          _OWN_TESTS = _STABLE_OWN_TESTS
          try:
            stable = all(_owned_at(g2, var, nd2) for nd2 in nodes)
          finally:
            _OWN_TESTS = _ALL_OWN_TESTS
          passes_owner = bool(c.args or c.keywords)
          what = f'{fi.qualname}: {var}.release() atomically tied to ownership'
          if stable and not passes_owner:
            # An acquire earlier on the path is no LASTING fact either: another thread of the same pool can run
            # release_all() (every pool-level operation does, in its finally) while this one waits for a result,
            # a second pool acquires the free worker, and this release then frees that pool's worker.
            ctx.fail(rule, fi, what,
                     f'{fi.qualname} calls `{unparse(c)}` without naming the releasing pool. The worker was acquired earlier on'
                     ' this path, but that is not a lasting fact: while this thread waits (for a result, a batch) another'
                     ' thread of the same pool may release_all(), a second pool acquires the worker, and this unconditional'
                     ' release frees it under that pool\'s feet. Pass the pool: `release(<pool>)` is re-validated under the'
                     ' worker\'s state lock', node=c)
          elif passes_owner:
            needs_callee.append((fi, c, var))
            if revalidates:
              ctx.ok(rule, fi, what, c)
            else:
              ctx.fail(rule, fi, what,
                       f'{fi.qualname} hands the pool to `{unparse(c)}`, but Worker.release does not re-validate the owner'
                       ' under _states_lock on every path to self._lock.release(): the availability test the caller made'
                       ' is stale by then — a worker that was free can have been acquired by another pool, and is released'
                       ' under its feet', node=c)
          else:
            ctx.fail(rule, fi, what,
                     f'{fi.qualname} calls `{unparse(c)}` with no stable ownership fact for `{var}`: the only guard is an'
                     ' availability test (true for a FREE worker too), and Worker.release() without an owner is'
                     ' unconditional. Between the test and the release another pool can acquire the worker; it is then'
                     ' released under its feet and a third pool can take it as well. Pass the pool: `release(self)`',
                     node=c)
  what = 'Worker.release: with an owner given, the lock is released only on the owning edge of a test under _states_lock'
  if revalidates or not needs_callee:
    ctx.ok(rule, rel, what, rel.node)
  ctx.floor(rule, 5, n)


def r13(ctx: Ctx):
  rule = 'R-C20-13'
  ctx.rule(rule, '"when a pool-level operation returns or raises, none of its workers remains acquired" / "at most one pool owns'
           ' a given worker": ownership lives IN the Worker objects (their lock and owner field), and release_all() walks'
           ' the pool\'s worker list. That list therefore holds the same objects for the whole life of the pool: it is'
           ' bound in the constructor only (methods may read it, never rebind or replace its elements). A method that'
           ' swaps the objects between an acquisition and the release makes release_all walk never-acquired twins while'
           ' the acquired objects stay locked for ever')
  ci = ctx.repo.cls(CW, 'WorkerPool')
  init = ci.methods.get('__init__')
  if init is None:
    raise AnalysisError('WorkerPool.__init__ not found')
  lists = {t.attr for x in walk_no_nested(init.node) if isinstance(x, ast.Assign) for t in x.targets if is_self_attr(t)
           and 'worker' in t.attr}
  if not lists:
    raise AnalysisError('WorkerPool.__init__ binds no worker list')
  n = 0
  for name, fi in ci.methods.items():
    if name == '__init__':
      continue
    n += 1
    bad = None
    for x in walk_no_nested(fi.node):
      tgts = x.targets if isinstance(x, ast.Assign) else [x.target] if isinstance(x, (ast.AugAssign, ast.AnnAssign)) else []
      for t in tgts:
        base = t.value if isinstance(t, ast.Subscript) else t
        if is_self_attr(base) and base.attr in lists:
          bad = x
      if isinstance(x, ast.Call) and isinstance(x.func, ast.Attribute) and is_self_attr(x.func.value) and x.func.value.attr in lists and (
          x.func.attr in ('clear', 'pop', 'remove', 'insert', 'extend', 'append', 'sort', 'reverse')):
        bad = x
      if isinstance(x, ast.Delete) and any(is_self_attr(t.value if isinstance(t, ast.Subscript) else t) for t in x.targets):
        bad = x
    what = f'WorkerPool.{name}: the pool keeps its worker objects'
    if bad is None:
      ctx.ok(rule, fi, what, fi.node)
    else:
      ctx.fail(rule, fi, what,
               f'`{unparse(bad)[:80]}` in WorkerPool.{name} replaces the worker objects of a live pool: workers acquired before'
               ' are no longer in the list release_all() walks (they stay locked and owned by this pool for ever), and the'
               ' new objects are twins for the same addresses that a second pool can own at the same time', node=bad)
  ctx.floor(rule, 15, n)


def r14(ctx: Ctx):
  rule = 'R-C20-14'
  ctx.rule(rule, '"at most one pool owns a given worker ... for all concurrent sequences ... from several pools and threads":'
           ' ownership lives in the Worker OBJECT, and pools find the object of an address through the singleton'
           ' metaclass. Its lookup of the instance table and the insertion of a new instance are one critical section:'
           ' in SingletonMeta.__call__ every read of the table (`.get(` / `in` / subscript) and the store into it lie'
           ' inside one `with <lock>` block. Otherwise two threads that construct the worker of one address at the same'
           ' time both miss and both insert: two objects, two locks — two pools own "the same worker"')
  repo = ctx.repo
  ci = repo.cls('utils.func_utils', 'SingletonMeta')
  fi = ci.methods.get('__call__')
  if fi is None:
    raise AnalysisError('SingletonMeta.__call__ not found')
  tables = set()
  for x in ast.walk(fi.node):
    if isinstance(x, ast.Assign):
      for t in x.targets:
        if isinstance(t, ast.Subscript) and isinstance(t.value, ast.Attribute) and isinstance(t.value.value, ast.Name):
          tables.add(unparse(t.value))
  if not tables:
    raise AnalysisError('SingletonMeta.__call__ no longer stores the new instance in a table')
  n = 0
  for tb in sorted(tables):
    n += 1
    uses = [x for x in ast.walk(fi.node) if isinstance(x, ast.Attribute) and unparse(x) == tb]
    withs = [w for w in ast.walk(fi.node) if isinstance(w, ast.With) and any('lock' in unparse(it.context_expr).lower() for it in w.items)]
    inside = [w for w in withs if all(any(y is u for y in ast.walk(w)) for u in uses)]
    what = f'SingletonMeta.__call__: lookup and insertion in `{tb}` are one critical section'
    if inside:
      ctx.ok(rule, fi, what, inside[0])
    else:
      ctx.fail(rule, fi, what,
               f'the {len(uses)} accesses of `{tb}` in SingletonMeta.__call__ (lookup, insertion) are not inside one `with <lock>`'
               ' block: two threads constructing equal instances concurrently both miss the lookup and both insert — for a'
               ' Worker that means two objects with their own ownership locks for one server address', node=uses[0])
  ctx.floor(rule, 1, n)


def r8(ctx: Ctx):
  rule = 'R-C20-8'
  ctx.rule(rule, '"recorded heartbeats never move backwards": register() stores'
           ' unconditionally, so the time the server\'s heartbeat handler'
           ' registers for a sender must be a clock reading taken on that very'
           ' path — `time.time()` itself or a field assigned from it on every'
           ' path to the call; a value left over from earlier activity would'
           ' overwrite a newer heartbeat recorded by the client side')
  fi = ctx.repo.func('chainables.courier_server', 'CourierServer._heartbeat')
  g = cfgm.cfg_of(fi.node)
  regs = []
  for nd in g.nodes:
    for x in cfgm.node_exprs(nd):
      for c in ast.walk(x):
        if isinstance(c, ast.Call) and isinstance(c.func, ast.Attribute) and c.func.attr in (
            'register', 'refresh') and 'registry' in unparse(c.func.value) and len(c.args) >= 2:
          regs.append((nd, c))
  if not regs:
    raise AnalysisError(f'{rule}: no registry store in CourierServer._heartbeat')
  n = 0
  for nd, c in regs:
    n += 1
    tv = c.args[1]
    if isinstance(tv, ast.Call) and unparse(tv.func) in ('time.time', 'time.monotonic'):
      ctx.ok(rule, fi, f'{unparse(c.func)[-30:]} with a direct clock reading', c)
      continue
    fresh = lambda n_: n_.kind == 'stmt' and isinstance(n_.ast, ast.Assign) and any(
        unparse(t) == unparse(tv) for t in n_.ast.targets) and isinstance(n_.ast.value, ast.Call) and (
            unparse(n_.ast.value.func) in ('time.time', 'time.monotonic'))
    w = g.must_pass(g.entry, [nd], fresh, cfgm.only_normal)
    if w is None:
      ctx.ok(rule, fi, f'`{unparse(tv)}` is assigned from the clock on every path to the store', c)
    else:
      ctx.fail(rule, fi, f'CourierServer._heartbeat: the registered time is a fresh clock reading',
               f'the handler stores `{unparse(tv)}` for the sender, but a path reaches the'
               ' store without assigning it from the clock: the sender is stamped'
               ' with the time of some earlier activity, a newer heartbeat is'
               ' overwritten and a worker that just reported can be declared dead',
               node=c, witness=w[-6:])
  ctx.floor(rule, 1, n)


def r9(ctx: Ctx):
  rule = 'R-C20-9'
  ctx.rule(rule, '"at most one pool owns a given worker": the ownership lock lives'
           ' on the Worker object, and workers/clients/servers are looked up as'
           ' singletons and dictionary keys by hash — so __hash__ may only'
           ' depend on fields that are written once, in the constructor (no'
           ' other method, property setter or outside code stores them);'
           ' hashing a mutable configuration makes a second, equal twin with'
           ' its own lock appear after the configuration changes')
  repo = ctx.repo
  n = 0
  for mod in ('utils.courier_utils', 'chainables.courier_worker', 'chainables.courier_server'):
    mi = repo.module(mod)
    for ci in mi.classes.values():
      hm = ci.methods.get('__hash__')
      if hm is None:
        continue
      # only classes that are looked up as singletons by hash (the Worker family)
      if not any('SingletonMeta' in unparse(k.value) for c_ in repo.mro(ci)
                 for k in c_.node.keywords if k.arg == 'metaclass'):
        continue
      # fields the hash depends on (properties of the class expanded)
      fields: set[str] = set()
      todo = [hm]
      seen = set()
      delegated = False
      while todo:
        f = todo.pop()
        if id(f.node) in seen:
          continue
        seen.add(id(f.node))
        for x in ast.walk(f.node):
          if is_self_attr(x):
            pm = repo.find_method(ci, x.attr)
            if pm is not None and pm.is_property:
              todo.append(pm)
            elif pm is None:
              fields.add(x.attr)
          if isinstance(x, ast.Call) and unparse(x.func) == 'super().__hash__':
            delegated = True
      if delegated and not fields:
        continue
      n += 1
      mutable = []
      for c_ in repo.mro(ci) + repo.subclasses(ci):
        for m_ in c_.methods.values():
          if m_.name in ('__init__', '__post_init__', '__new__'):
            continue
          for x in walk_no_nested(m_.node):
            if isinstance(x, (ast.Assign, ast.AugAssign, ast.AnnAssign)):
              tg = x.targets if isinstance(x, ast.Assign) else [x.target]
              for t in tg:
                if is_self_attr(t) and t.attr in fields:
                  mutable.append((t.attr, f'{c_.name}.{m_.name}', x))
      # outside stores `obj.<field> = ...`
      for fi in repo.all_functions():
        if fi.cls is not None and (fi.cls is ci or ci in repo.mro(fi.cls)):
          continue
        for x in ast.walk(fi.node):
          if isinstance(x, ast.Assign):
            for t in x.targets:
              if isinstance(t, ast.Attribute) and not is_self_attr(t) and t.attr in fields and (
                  t.attr.startswith('_') or t.attr in ('address', 'server_name')):
                mutable.append((t.attr, fi.qualname, x))
      if mutable:
        f_, where, node = mutable[0]
        ctx.fail(rule, hm, f'{ci.name}.__hash__ depends on write-once fields only',
                 f'{ci.name}.__hash__ depends on `{f_}`, which {where} re-assigns after'
                 ' construction: once it changes, the singleton/dictionary lookup by'
                 ' hash misses the existing object and an equal twin is created —'
                 ' with its own ownership lock, so two pools can hold "the same"'
                 ' worker', node=node)
      else:
        ctx.ok(rule, hm, f'{ci.name}.__hash__ over write-once fields {sorted(fields)}', hm.node)
  ctx.floor(rule, 1, n)


def r11(ctx: Ctx):
  rule = 'R-C20-11'
  ctx.rule(rule, '"a worker that was declared dead is never reported alive again merely because of a late'
           ' or stale heartbeat, and recorded heartbeats never move backwards": of the registry\'s'
           ' writers only refresh() is guarded (dead stays dead, max). register() overwrites'
           ' unconditionally — it is for the SERVER side, where a worker announces itself with its own'
           ' heartbeat RPC. So register() is called from the server\'s heartbeat handler only; every'
           ' client-side path that learns of an answered call (incl. its own heartbeat ping) goes'
           ' through refresh()')
  repo = ctx.repo
  allowed = {('chainables.courier_server', 'CourierServer._heartbeat'): 'the worker\'s own heartbeat RPC, handled on the server'}
  n = 0
  for fi in repo.all_functions():
    if fi.module.name.endswith('_test'):
      continue
    for c in walk_no_nested(fi.node):
      if isinstance(c, ast.Call) and isinstance(c.func, ast.Attribute) and c.func.attr == 'register' and (
          'registry' in unparse(c.func.value)):
        n += 1
        key = (fi.module.name.split('._src.')[-1], fi.qualname)
        if key in allowed:
          ctx.ok(rule, fi, f'{fi.qualname}: registry.register ({allowed[key]})', c)
        else:
          ctx.fail(rule, fi, f'{fi.qualname}: heartbeats learnt by a client go through refresh()',
                   f'`{unparse(c)[:60]}` writes the registry with the unguarded register() outside the server\'s'
                   ' heartbeat handler: a late reply overwrites the dead marker (the worker is alive again) and an'
                   ' older timestamp moves the recorded heartbeat backwards', node=c)
  ctx.floor(rule, 1, n)


def r15(ctx: Ctx):
  rule = 'R-C20-15'
  ctx.rule(rule, '"a worker that was declared dead is never reported alive again": asking a worker to shut down IS declaring it'
           ' dead — CourierClient.shutdown() stores the dead marker itself, on every path to its return (a call of the'
           ' registry\'s unregister in its own body, CFG must-pass). Deferring the marker to a completion callback of the'
           ' shutdown request, or making it conditional on the request\'s success, leaves a worker that is going away (or'
           ' already gone: the request of a dead server never completes successfully) reported alive on the strength of'
           ' its last heartbeat, and pools keep handing work to it')
  repo = ctx.repo
  ci = repo.cls(CU, 'CourierClient')
  fi = ci.methods.get('shutdown')
  if fi is None:
    raise AnalysisError('CourierClient.shutdown not found')
  g = cfgm.cfg_of(fi.node)
  unreg = lambda nd: any(isinstance(x, ast.Call) and isinstance(x.func, ast.Attribute) and x.func.attr == 'unregister'
                         for x in cfgm.node_exprs(nd))
  w = g.must_pass(g.entry, [g.exit_ret], unreg, cfgm.only_normal)
  what = 'CourierClient.shutdown: the dead marker is stored on every path to the return'
  if w is None and any(unreg(nd) for nd in g.nodes):
    ctx.ok(rule, fi, what, fi.node)
  else:
    ctx.fail(rule, fi, what,
             'CourierClient.shutdown can return without having called the registry\'s unregister itself (a deferred or'
             ' conditional marker): until the callback runs — never, when the request fails or is cancelled — the worker'
             ' is still reported alive from its last heartbeat', node=fi.node, witness=w)
  ctx.floor(rule, 1, 1)


def r16(ctx: Ctx):
  rule = 'R-C20-16'
  ctx.rule(rule, '"when a pool-level operation returns or raises, none of its workers remains acquired": taking a worker is never'
           ' a FILTER. In the pool / orchestration code a `w.acquire_by(pool)` call (a) is not evaluated in the condition of'
           ' a comprehension, and (b) is the LAST operand of an `and` chain — everything tested after a successful'
           ' acquisition (capacity, liveness) can fail and leaves the worker acquired although the expression is false and'
           ' nobody holds a reference to release it. (Statement-level `if w.acquire_by(pool):` with a release on the'
           ' unfit path is the form R-C20-3 checks.)')
  repo = ctx.repo
  n = 0
  for fi in repo.all_functions():
    if not fi.module.name.endswith(('courier_worker', 'orchestrate')):
      continue
    pm = None
    for c in ast.walk(fi.node):
      if not (isinstance(c, ast.Call) and isinstance(c.func, ast.Attribute) and c.func.attr == 'acquire_by'):
        continue
      n += 1
      if pm is None:
        pm = parent_map(fi.node)
      bad = None
      q, child = pm.get(c), c
      while q is not None and not isinstance(q, (ast.stmt,)):
        if isinstance(q, ast.BoolOp) and isinstance(q.op, ast.And) and child is not q.values[-1]:
          bad = f'`{unparse(q)[:80]}` tests further conditions AFTER the acquisition'
        if isinstance(q, ast.comprehension) and any(child is t or any(y is c for y in ast.walk(t)) for t in q.ifs):
          bad = bad or f'the acquisition is the filter of a comprehension (`{unparse(q)[:70]}`)'
        child, q = q, pm.get(q)
      what = f'{fi.qualname}: `{unparse(c)[:50]}` is the last test of its condition'
      if bad:
        ctx.fail(rule, fi, what,
                 bad + f' in {fi.qualname}: a worker that is acquired and then found busy or dead stays acquired by this pool —'
                 ' it is in no result list, so no pool-level operation ever releases it', node=c)
      else:
        ctx.ok(rule, fi, what, c)
  ctx.floor(rule, 3, n)


def r17(ctx: Ctx):
  rule = 'R-C20-17'
  ctx.rule(rule, '"a worker that was declared dead is never reported alive again merely because of a late or stale heartbeat": the'
           ' dead marker (the None entry) is what makes refresh() ignore a late heartbeat, so it is PERMANENT: no method of'
           ' the registry removes entries (`del self.data[...]`, pop, popitem, clear) — a tombstone dropped by a clean-up'
           ' (e.g. when another worker registers) lets the next stale refresh of the dead worker record a time, and the'
           ' worker is alive again')
  ci = ctx.repo.cls(CU, 'WorkerRegistry')
  n = 0
  for name, fi in ci.methods.items():
    n += 1
    bad = None
    for x in ast.walk(fi.node):
      if isinstance(x, ast.Delete) and any('self.data' in unparse(t) or unparse(t).startswith('self[') for t in x.targets):
        bad = x
      if isinstance(x, ast.Call) and isinstance(x.func, ast.Attribute) and x.func.attr in ('pop', 'popitem', 'clear') and (
          unparse(x.func.value) in ('self.data', 'self')):
        bad = x
    what = f'WorkerRegistry.{name}: no entry (dead marker) is ever removed'
    if bad is not None:
      ctx.fail(rule, fi, what,
               f'`{unparse(bad)[:60]}` in WorkerRegistry.{name} removes entries: with its tombstone gone, a dead worker\'s late'
               ' heartbeat is recorded like a first one and the worker is reported alive again', node=bad)
    else:
      ctx.ok(rule, fi, what, fi.node)
  ctx.floor(rule, 4, n)


def r18(ctx: Ctx):
  rule = 'R-C20-18'
  ctx.rule(rule, '"when a pool-level operation returns or raises, none of its workers remains acquired": the worker returned by'
           ' `next_idle_worker(..., maybe_acquire=True)` is ALREADY acquired. The test that decides whether it is used'
           ' is a pure None / truth test of that result — a further conjunct (`worker is not None and <something else>`)'
           ' opens a path on which an acquired worker is neither registered as busy nor released: it stays owned by the'
           ' pool after the operation returns')
  repo = ctx.repo
  n = 0
  for fi in repo.all_functions():
    if not fi.module.name.endswith(('courier_worker', 'orchestrate')):
      continue
    for scope in [fi.node] + [x for x in ast.walk(fi.node) if isinstance(x, (ast.FunctionDef, ast.AsyncFunctionDef)) and x is not fi.node]:
      acquired = set()
      for x in walk_no_nested(scope):
        v = x.value if isinstance(x, (ast.Assign, ast.NamedExpr)) else None
        if isinstance(v, ast.Call) and isinstance(v.func, ast.Attribute) and v.func.attr == 'next_idle_worker' and (
            isinstance(kwarg(v, 'maybe_acquire'), ast.Constant) and kwarg(v, 'maybe_acquire').value is True):
          tg = x.targets[0] if isinstance(x, ast.Assign) else x.target
          if isinstance(tg, ast.Name):
            acquired.add(tg.id)
      if not acquired:
        continue
      for t in walk_no_nested(scope):
        if not isinstance(t, (ast.If, ast.While)):
          continue
        test = t.test
        if not (isinstance(test, ast.BoolOp) and isinstance(test.op, ast.And)):
          continue
        # only a POSITIVE test (`w is not None`, bare `w`) leaves an acquired worker behind when a later conjunct fails
        def positive(v):
          if isinstance(v, ast.Name) and v.id in acquired:
            return True
          return (isinstance(v, ast.Compare) and isinstance(v.left, ast.Name) and v.left.id in acquired and len(v.ops) == 1
                  and isinstance(v.ops[0], ast.IsNot) and isinstance(v.comparators[0], ast.Constant) and v.comparators[0].value is None)
        idx = [i for i, v in enumerate(test.values) if positive(v)]
        walrus = [i for i, v in enumerate(test.values) if any(isinstance(y, ast.NamedExpr) and isinstance(y.target, ast.Name)
                                                              and y.target.id in acquired for y in ast.walk(v))]
        for i in idx + walrus:
          if i < len(test.values) - 1:
            n += 1
            w = next(iter(acquired))
            released_else = any(isinstance(c, ast.Call) and isinstance(c.func, ast.Attribute) and c.func.attr == 'release'
                                for b in t.orelse for c in ast.walk(b))
            what = f'{fi.qualname}: the acquired worker is used whenever it is not None'
            if released_else:
              ctx.ok(rule, fi, what, t)
            else:
              ctx.fail(rule, fi, what,
                       f'`{unparse(test)[:80]}` tests something else AFTER the worker was acquired: when that part is false the worker'
                       ' is acquired but neither put to work nor released — it stays owned by this pool for good', node=t)
      n += 1
      ctx.ok(rule, fi, f'{fi.qualname}: acquisition results examined', scope)
  ctx.floor(rule, 2, n)


def r19(ctx: Ctx):
  rule = 'R-C20-19'
  ctx.rule(rule, '"recorded heartbeats never move backwards": every method of the registry that stores a TIME (not the dead marker)'
           ' stores it relative to the entry it replaces — the stored value is `max(<previous>, <new>)` whenever a previous'
           ' time exists (`<new> if <previous> is None else max(...)`, or a store guarded by `<previous> is not None`). An'
           ' unconditional `self.data[address] = time_` lets an alive-notice whose time stamp was taken before a newer'
           ' heartbeat was recorded overwrite it: the heartbeat of a live worker goes back, and liveness with it')
  ci = ctx.repo.cls(CU, 'WorkerRegistry')
  n = 0
  for name, fi in ci.methods.items():
    for x in ast.walk(fi.node):
      if not (isinstance(x, ast.Assign) and isinstance(x.targets[0], ast.Subscript) and unparse(x.targets[0].value) == 'self.data'):
        continue
      if isinstance(x.value, ast.Constant) and x.value.value is None:
        continue
      n += 1
      is_max = lambda e: any(isinstance(c, ast.Call) and unparse(c.func) == 'max' and len(c.args) >= 2 for c in ast.walk(e))
      has_max = is_max(x.value) or (isinstance(x.value, ast.Name) and any(
          isinstance(y, ast.Assign) and any(isinstance(t, ast.Name) and t.id == x.value.id for t in y.targets) and is_max(y.value)
          for y in ast.walk(fi.node)))
      what = f'WorkerRegistry.{name}: a stored time is never older than the one it replaces'
      if has_max:
        ctx.ok(rule, fi, what, x)
      else:
        ctx.fail(rule, fi, what,
                 f'`{unparse(x)[:70]}` in WorkerRegistry.{name} overwrites the recorded time unconditionally: a (re-)registration'
                 ' carrying an older time stamp than the last refresh moves the heartbeat of a live worker backwards', node=x)
  ctx.floor(rule, 2, n)


def r20(ctx: Ctx):
  rule = 'R-C20-20'
  ctx.rule(rule, '"at any time at most one pool owns a given worker": every ownership test the pool / orchestration code makes'
           ' names the pool it asks for — `w.is_locked(<pool>)`, `w.is_available(<pool>)`, `w.acquire_by(<pool>)` always carry'
           ' their pool argument. `w.is_locked()` without it answers "locked by ANYBODY": a pool is handed a worker another'
           ' pool holds and uses it while the owner field still names the other pool')
  n = 0
  for fi in ctx.repo.all_functions():
    if not fi.module.name.endswith(('courier_worker', 'orchestrate')) or (fi.cls is not None and fi.cls.name == 'Worker'):
      continue
    for c in ast.walk(fi.node):
      if isinstance(c, ast.Call) and isinstance(c.func, ast.Attribute) and c.func.attr in ('is_locked', 'is_available', 'acquire_by'):
        n += 1
        what = f'{fi.qualname}: `{unparse(c)[:40]}` names the pool it asks for'
        if c.args or kwarg(c, 'worker_pool') is not None:
          ctx.ok(rule, fi, what, c)
        else:
          ctx.fail(rule, fi, what,
                   f'`{unparse(c)}` asks whether ANY pool holds the worker: a worker held by another pool passes the test and is'
                   ' used by this one — two pools work with one worker', node=c)
  ctx.floor(rule, 6, n)


def r21(ctx: Ctx):
  rule = 'R-C20-21'
  ctx.rule(rule, '"when a pool-level operation returns or raises, none of its workers remains acquired" — raises of every kind:'
           ' in the methods of WorkerPool a release that is meant for the failure path stands in a `finally`, or in a'
           ' handler that catches BaseException / everything. `except Exception: self.release_all(); raise` leaves the'
           ' workers acquired when the operation is left by KeyboardInterrupt, SystemExit or a cancellation')
  ci = ctx.repo.cls(CW, 'WorkerPool')
  n = 0
  for name, fi in ci.methods.items():
    for t in ast.walk(fi.node):
      if not isinstance(t, ast.Try):
        continue
      rel = lambda nodes: any(isinstance(c, ast.Call) and isinstance(c.func, ast.Attribute) and c.func.attr in ('release', 'release_all')
                              for b in nodes for c in ast.walk(b))
      narrow = [h for h in t.handlers if rel(h.body) and any(isinstance(r_, ast.Raise) for b in h.body for r_ in ast.walk(b))
                and h.type is not None and 'BaseException' not in unparse(h.type)]
      if not (rel(t.finalbody) or narrow or any(rel(h.body) for h in t.handlers)):
        continue
      n += 1
      what = f'WorkerPool.{name}: the failure path releases for every kind of exception'
      if narrow and not rel(t.finalbody):
        ctx.fail(rule, fi, what,
                 f'`except {unparse(narrow[0].type)}:` releases and re-raises, and there is no `finally` release: an interrupt or a'
                 ' cancellation (BaseException) leaves every worker of the pool acquired', node=narrow[0])
      else:
        ctx.ok(rule, fi, what, t)
  ctx.floor(rule, 2, n)


from mlmverif.selfcheck import B, OK  # noqa: E402

_U = 'utils/courier_utils.py'
_W = 'chainables/courier_worker.py'
_O = 'chainables/orchestrate.py'
VARIANTS = [
    B('release-owner-read-before-the-state-lock', 'chainables/courier_worker.py',
      "    with self._states_lock:\n      if worker_pool is not None and self._worker_pool is not worker_pool:\n        # Free, or acquired by another pool since the caller looked.\n        return",
      "    owner = self._worker_pool\n    with self._states_lock:\n      if worker_pool is not None and owner is not worker_pool:\n        return", 'R-C20-12'),
    OK('release-owner-test-through-a-local', 'chainables/courier_worker.py',
       "      if worker_pool is not None and self._worker_pool is not worker_pool:\n        # Free, or acquired by another pool since the caller looked.\n        return", "      owner = self._worker_pool\n      if worker_pool is not None and owner is not worker_pool:\n        return"),
    OK('release-all-loop-variable-renamed', 'chainables/courier_worker.py',
       "    for worker in workers:\n      if worker.is_available(self):\n        worker.release(self)", "    for w in workers:\n      if w.is_available(self):\n        w.release(self)"),
    OK('unused-workers-through-a-local', 'chainables/orchestrate.py',
       "        worker_pool.release_all(unused_workers)", "        spare = unused_workers\n        worker_pool.release_all(spare)"),
    OK('dead-marker-address-through-a-local', 'utils/courier_utils.py',
       "    _worker_registry.unregister(self.address)", "    address = self.address\n    _worker_registry.unregister(address)"),
    OK('refresh-newest-through-a-local', 'utils/courier_utils.py',
       "        self.data[address] = max(last_time, time_)", "        newest = max(last_time, time_)\n        self.data[address] = newest"),
    OK('call-and-wait-releases-in-a-base-exception-handler', 'chainables/courier_worker.py',
       "    except Exception as e:  # pylint: disable=broad-exception-caught\n      raise e\n    finally:\n      self.release_all()\n    return result",
       "    except BaseException:  # pylint: disable=broad-exception-caught\n      self.release_all()\n      raise\n    self.release_all()\n    return result"),
    B('ownership-test-without-its-pool', 'chainables/courier_worker.py',
      "      if worker.is_locked(self):\n        if worker.has_capacity and worker.is_alive:\n          return worker", "      if worker.is_locked():\n        if worker.has_capacity and worker.is_alive:\n          return worker", 'R-C20-20'),
    B('call-and-wait-releases-on-exception-only', 'chainables/courier_worker.py',
      "    except Exception as e:  # pylint: disable=broad-exception-caught\n      raise e\n    finally:\n      self.release_all()\n    return result",
      "    except Exception:  # pylint: disable=broad-exception-caught\n      self.release_all()\n      raise\n    self.release_all()\n    return result", 'R-C20-21'),
    B('revert-registration-overwrites-the-recorded-time', 'utils/courier_utils.py',
      "      self.data[address] = time_ if last_time is None else max(last_time, time_)", "      self.data[address] = time_", 'R-C20-19'),
    OK('registration-keeps-the-newer-time-with-an-if', 'utils/courier_utils.py',
       "      self.data[address] = time_ if last_time is None else max(last_time, time_)", "      if last_time is not None:\n        time_ = max(last_time, time_)\n      self.data[address] = time_"),
    OK('registration-logs-the-number-of-dead-workers', 'utils/courier_utils.py',
       "    with self._lock:\n      last_time = self.data.get(address)\n",
       "    with self._lock:\n      n_dead = sum(1 for v in self.data.values() if v is None)\n      logging.debug('chainable: %s', f'{n_dead} dead workers known')\n      last_time = self.data.get(address)\n"),
    OK('stage-names-the-none-test', 'chainables/orchestrate.py',
       "          if worker is not None:\n            remote_iterator = worker.async_iter(", "          got_worker = worker is not None\n          if got_worker:\n            remote_iterator = worker.async_iter("),
    OK('acquire-all-nested-instead-of-and', 'chainables/courier_worker.py',
       "      elif worker.is_available(self) and worker.acquire_by(self):\n        result.append(worker)", "      elif worker.is_available(self):\n        if worker.acquire_by(self):\n          result.append(worker)"),
    B('registration-drops-the-tombstones', 'utils/courier_utils.py',
      "    with self._lock:\n      last_time = self.data.get(address)\n",
      "    with self._lock:\n      for dead in [k for k, v in self.data.items() if v is None]:\n        del self.data[dead]\n      last_time = self.data.get(address)\n", 'R-C20-17'),
    B('stage-drops-a-worker-it-just-acquired', 'chainables/orchestrate.py',
      "          if worker is not None:\n            remote_iterator = worker.async_iter(", "          if worker is not None and not result_q.enqueue_done:\n            remote_iterator = worker.async_iter(", 'R-C20-18'),
    B('dead-marker-deferred-to-the-shutdown-callback', 'utils/courier_utils.py',
      "    self._pendings = []\n    _worker_registry.unregister(self.address)\n    return self.state",
      "    self._pendings = []\n    self.state.add_done_callback(lambda f: (not f.cancelled() and f.exception() is None) and _worker_registry.unregister(self.address))\n    return self.state", 'R-C20-15'),
    OK('dead-marker-stored-first', 'utils/courier_utils.py',
       "    self.state = self._client.futures.shutdown()\n    for p in self._pendings:\n      p.state.cancel()\n    self._pendings = []\n    _worker_registry.unregister(self.address)\n    return self.state",
       "    _worker_registry.unregister(self.address)\n    self.state = self._client.futures.shutdown()\n    for p in self._pendings:\n      p.state.cancel()\n    self._pendings = []\n    return self.state"),
    B('idle-workers-acquires-as-a-filter', 'chainables/courier_worker.py',
      "        if worker.is_available(self) and worker.has_capacity and worker.is_alive\n    ]",
      "        if worker.acquire_by(self) and worker.has_capacity and worker.is_alive\n    ]", 'R-C20-16'),
    B('acquire-all-tests-liveness-after-taking', 'chainables/courier_worker.py',
      "      elif worker.is_available(self) and worker.acquire_by(self):", "      elif worker.acquire_by(self) and worker.is_alive:", 'R-C20-16'),
    B('revert-run-releases-without-naming-the-pool', _W,
      '      result = worker.submit(task).result()\n    finally:\n      worker.release(self)\n    return result',
      '      result = worker.submit(task).result()\n    finally:\n      worker.release()\n    return result', 'R-C20-12'),
    OK('release-of-an-unacquired-worker-names-the-pool', _W,
       '      if worker.acquire_by(self):\n        if worker.has_capacity and worker.is_alive:\n          return worker\n        # Do not keep a worker that was acquired but cannot be used.\n        worker.release(self)',
       '      if not (worker.has_capacity and worker.is_alive):\n        worker.release(self)\n        continue\n      if worker.acquire_by(self):\n        return worker'),
    B('revert-singleton-lookup-and-insert-unlocked', 'utils/func_utils.py',
      "    with cls._instances_lock:\n      if (ref := cls._instances.get(obj, None)) and (\n          result := ref()\n      ) is not None:\n        return result\n      logging.info('chainable: %s', f'singleton {cls.__name__}, {obj}')\n      cls._instances[obj] = weakref.ref(obj)\n    return obj",
      "    if (ref := cls._instances.get(obj, None)) and (result := ref()) is not None:\n      return result\n    logging.info('chainable: %s', f'singleton {cls.__name__}, {obj}')\n    cls._instances[obj] = weakref.ref(obj)\n    return obj", 'R-C20-14'),
    B('singleton-insert-outside-the-lock', 'utils/func_utils.py',
      "      logging.info('chainable: %s', f'singleton {cls.__name__}, {obj}')\n      cls._instances[obj] = weakref.ref(obj)\n    return obj",
      "      logging.info('chainable: %s', f'singleton {cls.__name__}, {obj}')\n    cls._instances[obj] = weakref.ref(obj)\n    return obj", 'R-C20-14'),
    B('set-timeout-swaps-worker-objects', _W,
      '    for c in self._workers:\n      c.call_timeout = timeout', '    self._workers = [dc.replace(c.configs, call_timeout=timeout).make() for c in self._workers]', 'R-C20-13'),
    B('release-all-keeps-busy-workers', 'chainables/courier_worker.py',
      '      if worker.is_available(self):\n        worker.release(self)', '      if worker.is_available(self) and not worker.pendings:\n        worker.release(self)', 'R-C20-5'),
    B('answered-ping-registers', 'utils/courier_utils.py',
      '            _worker_registry.refresh(self.address, state_and_time.time)',
      '            if state_and_time is self._heartbeat:\n              _worker_registry.register(self.address, state_and_time.time)\n            else:\n              _worker_registry.refresh(self.address, state_and_time.time)', 'R-C20-11'),
    B('stage-loop-release-after-raising-call', 'chainables/orchestrate.py',
      '            del iterating[worker]\n            worker.release(worker_pool)\n            if exc := state.exception():\n              logging.exception(\n                  \'chainable: %s\',\n                  f\'worker {worker} failed with exception: {type(exc)}, {exc}\',\n              )\n              worker_exceptions.append(exc)',
      '            del iterating[worker]\n            if exc := state.exception():\n              logging.exception(\n                  \'chainable: %s\',\n                  f\'worker {worker} failed with exception: {type(exc)}, {exc}\',\n              )\n              worker_exceptions.append(exc)\n            worker.release()', 'R-C20-6'),
    OK('stage-loop-release-before-removal', 'chainables/orchestrate.py',
       '            del iterating[worker]\n            worker.release(worker_pool)', '            worker.release(worker_pool)\n            del iterating[worker]'),
    B('unregister-skips-unknown-address', 'utils/courier_utils.py',
      '      # Set to None as the worker has pronouced dead.\n      self.data[address] = None',
      '      if address not in self.data:\n        return\n      self.data[address] = None', 'R-C20-3'),
    OK('unregister-logs-unknown-address', 'utils/courier_utils.py',
       '      # Set to None as the worker has pronouced dead.\n      self.data[address] = None',
       '      if address not in self.data:\n        logging.info(\'unknown %s\', address)\n      self.data[address] = None'),
    B('client-hash-from-mutable-configs', _U,
      '  def __hash__(self):\n    return hash(self.address)', '  def __hash__(self):\n    return hash(self.configs)',
      'R-C20-9'),
    B('heartbeat-registers-stale-time', 'chainables/courier_server.py',
      '    self._last_heartbeat = time.time()\n    if not sender_addr:\n      return',
      '    if not sender_addr:\n      self._last_heartbeat = time.time()\n      return', 'R-C20-8'),
    OK('heartbeat-registers-direct-clock', 'chainables/courier_server.py',
       '      courier_utils.worker_registry().register(\n          sender_addr, self._last_heartbeat\n      )',
       '      courier_utils.worker_registry().register(sender_addr, time.time())'),
    B('release-before-acquire-in-next-idle-worker', _W,
      '      if worker.acquire_by(self):\n        if worker.has_capacity and worker.is_alive:\n          return worker\n        # Do not keep a worker that was acquired but cannot be used.\n        worker.release(self)',
      '      if not (worker.has_capacity and worker.is_alive):\n        worker.release()\n        continue\n      if worker.acquire_by(self):\n        return worker',
      'R-C20-7'),
    B('release-all-unconditional', _W,
      '      if worker.is_available(self):\n        worker.release(self)', '      worker.release()', 'R-C20-7'),
    OK('release-all-guard-inverted', _W,
       '      if worker.is_available(self):\n        worker.release(self)',
       '      if not worker.is_available(self):\n        continue\n      worker.release(self)'),
    B('revert-release-all-without-owner', _W,
      '      if worker.is_available(self):\n        worker.release(self)', '      if worker.is_available(self):\n        worker.release()', 'R-C20-12'),
    B('release-ignores-the-owner', _W,
      '      if worker_pool is not None and self._worker_pool is not worker_pool:\n        # Free, or acquired by another pool since the caller looked.\n        return\n', '', 'R-C20-12'),
    B('release-validates-outside-the-state-lock', _W,
      '    with self._states_lock:\n      if worker_pool is not None and self._worker_pool is not worker_pool:\n        # Free, or acquired by another pool since the caller looked.\n        return\n',
      '    if worker_pool is not None and self._worker_pool is not worker_pool:\n      return\n    with self._states_lock:\n', 'R-C20-12'),
    OK('release-all-relies-on-release', _W,
       '      if worker.is_available(self):\n        worker.release(self)', '      worker.release(self)'),
    OK('release-revalidates-positive-form', _W,
       '      if worker_pool is not None and self._worker_pool is not worker_pool:\n        # Free, or acquired by another pool since the caller looked.\n        return\n      if self._lock.locked():\n        self._lock.release()\n      self._worker_pool = None',
       '      if worker_pool is None or self._worker_pool is worker_pool:\n        if self._lock.locked():\n          self._lock.release()\n        self._worker_pool = None'),
    B('get-without-lock', _U,
      '    with self._lock:\n      if (result := self.data.get(key, default)) is None:\n        # None means the client has pronounced dead.\n        return 0\n\n      return result',
      '    if (result := self.data.get(key, default)) is None:\n      return 0\n    return result',
      'R-C20-1'),
    B('refresh-split-critical-section', _U,
      '    with self._lock:\n      last_time = self.data.get(address, 0)\n      # Cannot update the worker that is already dead.\n      if last_time is not None:',
      '    with self._lock:\n      last_time = self.data.get(address, 0)\n    with self._lock:\n      # Cannot update the worker that is already dead.\n      if last_time is not None:',
      'R-C20-2'),
    B('refresh-no-dead-guard', _U,
      '      if last_time is not None:\n        self.data[address] = max(last_time, time_)',
      '      self.data[address] = max(last_time or 0, time_)', 'R-C20-2'),
    B('refresh-no-max', _U, '        self.data[address] = max(last_time, time_)',
      '        self.data[address] = time_', 'R-C20-2'),
    B('setitem-allowed', _U,
      "    raise TypeError(f'Cannot assign {item} to {key=}, use register() instead.')",
      '    self.data[key] = item', 'R-C20-3'),
    B('fresh-uses-now', _U,
      '            _worker_registry.refresh(self.address, state_and_time.time)',
      '            _worker_registry.refresh(self.address, time.time())', 'R-C20-4'),
    B('fresh-ignores-exception', _U,
      '          if not state_and_time.state.exception():\n            _worker_registry.refresh(self.address, state_and_time.time)',
      '          _worker_registry.refresh(self.address, state_and_time.time)', 'R-C20-4'),
    B('alive-when-pending', _U,
      '      self._check_heartbeat()\n      return False', '      self._check_heartbeat()\n      return bool(self._pendings)',
      'R-C20-4'),
    B('acquire-by-outside-lock', _W,
      '    with self._states_lock:\n      if self._worker_pool is not worker_pool and self._lock.acquire(\n          blocking=blocking\n      ):\n        self._worker_pool = worker_pool\n      return self._worker_pool is worker_pool',
      '    if self._worker_pool is not worker_pool and self._lock.acquire(\n        blocking=blocking\n    ):\n      self._worker_pool = worker_pool\n    return self._worker_pool is worker_pool',
      'R-C20-5'),
    B('owner-recorded-before-acquire', _W,
      '      if self._worker_pool is not worker_pool and self._lock.acquire(\n          blocking=blocking\n      ):\n        self._worker_pool = worker_pool\n',
      '      if self._worker_pool is not worker_pool:\n        self._worker_pool = worker_pool\n        self._lock.acquire(blocking=blocking)\n',
      'R-C20-5'),
    B('release-all-unguarded', _W,
      '      if worker.is_available(self):\n        worker.release(self)', '      worker.release()',
      'R-C20-5'),
    B('release-all-alive-only', _W, '    workers = workers or self._workers\n    for worker in workers:\n      if worker.is_available(self):',
      '    workers = workers or self.workers\n    for worker in workers:\n      if worker.is_available(self):', 'R-C20-5'),
    B('call-and-wait-no-finally', _W,
      '      result = get_results(states)\n    except Exception as e:  # pylint: disable=broad-exception-caught\n      raise e\n    finally:\n      self.release_all()\n    return result',
      '      result = get_results(states)\n    except Exception as e:  # pylint: disable=broad-exception-caught\n      raise e\n    self.release_all()\n    return result',
      'R-C20-6'),
    B('next-idle-keeps-unfit', _W,
      '        # Do not keep a worker that was acquired but cannot be used.\n        worker.release(self)\n',
      '', 'R-C20-6'),
    B('run-release-only-on-success', _W,
      '      result = worker.submit(task).result()\n    finally:\n      worker.release(self)\n    return result',
      '      result = worker.submit(task).result()\n    except ValueError:\n      raise\n    worker.release(self)\n    return result',
      'R-C20-6'),
    B('as-completed-release-only-at-end', _O,
      '  finally:\n    worker_pool.release_all()\n',
      '  except KeyboardInterrupt:\n    raise\n  worker_pool.release_all()\n', 'R-C20-6'),
    B('stage-runner-no-finally', _O,
      '    finally:\n      # Workers still iterating when the stage fails must not stay acquired.\n      for worker in iterating:\n        worker.release(worker_pool)\n',
      '    except KeyboardInterrupt:\n      raise\n', 'R-C20-6'),
    OK('run-release-through-pool', _W,
       '      result = worker.submit(task).result()\n    finally:\n      worker.release(self)\n    return result',
       '      result = worker.submit(task).result()\n    finally:\n      self.release_all([worker])\n    return result'),
    OK('refresh-max-arg-order', _U, '        self.data[address] = max(last_time, time_)',
       '        self.data[address] = max(time_, last_time)'),
    OK('fresh-comparison-flipped', _U,
       '    return time.time() - self._last_heartbeat < self.heartbeat_threshold_secs',
       '    return self.heartbeat_threshold_secs > time.time() - self._last_heartbeat'),
]
