"""C18 — tree views obey get/set laws and never mutate the viewed data.

Structural part: the copying set path only ever stores into fresh copies
(effect analysis of `_set_by_path` specialised to in_place=False), the
in_place flag is threaded unchanged, every copy-API routes through it with
in_place=False, and key dispatch distinguishes key paths from multi-keys.
"""
from __future__ import annotations

import ast

from mlmverif import cfg as cfgm
from mlmverif.core import (parent_map, AnalysisError, Ctx, FuncInfo, is_self_attr, kwarg,
                           unparse, walk_no_nested)
from mlmverif.effects import DIRECT, ELEM, NONE, Effects

EXPLANATION = (
    'Effect/alias analysis of TreeMapView._set_by_path with the flag'
    ' in_place folded to False: every item store / append targets a local'
    ' whose value is a fresh (shallow) copy, never the viewed tree or one of'
    ' its sub-containers; the recursive call descends into the copy\'s element'
    ' and passes in_place through unchanged; set() forwards its in_place to'
    ' every _set_by_path call and returns a new view when copying;'
    ' copy_and_set -> set(in_place=False); copy_and_update/__or__ ->'
    ' copy_and_set; apply copies the root first; __getitem__ tests `Key()`'
    ' before the multi-key tuple arm; _dfs_iter_tree extends the parent path'
    ' per child. NOT decided: get-after-set / frame laws as value statements.'
)
ASSUMPTIONS = ['copy.copy / list() produce a fresh outer container.']

T = 'chainables.tree'


def run(ctx: Ctx):
  for r in (r1, r2, r3, r4, r5, r6, r7, r8, r9, r10, r11, r12, r13, r14, r15, r16, r17, r18, r19, r20, r21):
    ctx.guard(r)


def r1(ctx: Ctx):
  rule = 'R-C18-1'
  ctx.rule(rule, 'fresh-copy discipline: with in_place=False, _set_by_path'
           ' performs no store/append/delete on the viewed tree or anything'
           ' owned by it; it recurses into the element of the copy with the'
           ' same in_place and returns the copy')
  repo = ctx.repo
  fi = repo.func(T, 'TreeMapView._set_by_path')
  ps = fi.params()
  if 'in_place' not in ps or 'tree' not in ps:
    raise AnalysisError(f'{rule}: _set_by_path signature changed: {ps}')
  eff = Effects(repo, consts={'in_place': False})
  muts = eff.mutations(fi, {'tree': DIRECT})
  if muts:
    for mu in muts:
      ctx.fail(rule, mu.fi, mu.node,
               f'copying set: {mu.how} on `{mu.target}`, which is (part of) the'
               ' viewed tree: the caller\'s original data is modified by'
               ' copy_and_set', node=mu.node)
  else:
    ctx.ok(rule, fi, 'no mutation of the viewed tree when in_place=False', fi.node)
  # the working container is a copy
  env = eff.env(fi, {'tree': DIRECT})
  stores = [x for x in walk_no_nested(fi.node) if isinstance(x, ast.Assign)
            and isinstance(x.targets[0], ast.Subscript)]
  for st in stores:
    base = st.targets[0].value
    lv = eff.level(base, env)
    if lv == DIRECT:
      continue  # already reported above
    ctx.ok(rule, fi, f'{unparse(st.targets[0])} = ... stores into a '
           + ('fresh copy' if lv == ELEM else 'fresh value'), st)
  # recursion threads in_place and descends into the copy
  rec = [c for c in walk_no_nested(fi.node) if isinstance(c, ast.Call)
         and unparse(c.func) == 'self._set_by_path']
  if not rec:
    raise AnalysisError(f'{rule}: _set_by_path is no longer recursive')
  for c in rec:
    ip = c.args[3] if len(c.args) > 3 else kwarg(c, 'in_place')
    if not (isinstance(ip, ast.Name) and ip.id == 'in_place'):
      ctx.fail(rule, fi, c, 'the recursive call does not pass in_place through'
               ' unchanged: deeper levels are modified in place during a'
               ' copying set (or copied during an in-place set)')
    else:
      ctx.ok(rule, fi, f'recursion passes in_place: {unparse(c)[:70]}', c)
    sub = c.args[0] if c.args else None
    if sub is not None and 'tree' in {y.id for y in ast.walk(sub) if isinstance(y, ast.Name)}:
      ctx.fail(rule, fi, c, 'the recursion descends into the original tree'
               ' instead of the copy')
  reassigned = [x for x in walk_no_nested(fi.node) if isinstance(x, ast.Name)
                and x.id == 'in_place' and isinstance(x.ctx, ast.Store)]
  if reassigned:
    ctx.fail(rule, fi, f'_set_by_path: in_place reassigned at line {reassigned[0].lineno}',
             'the in_place flag is overwritten inside _set_by_path: the levels'
             ' below are then written in place during a copying set, so'
             ' copy_and_set modifies the caller\'s nested containers',
             node=reassigned[0])
  else:
    ctx.ok(rule, fi, 'in_place is never reassigned', fi.node)
  rets = [x for x in walk_no_nested(fi.node) if isinstance(x, ast.Return)]
  last = rets[-1] if rets else None
  # the working copy = the local that receives copy.copy(tree) / list(tree)
  work = {x.targets[0].id for x in walk_no_nested(fi.node) if isinstance(x, ast.Assign)
          and isinstance(x.targets[0], ast.Name)
          and any(isinstance(c, ast.Call) and unparse(c.func) in ('copy.copy', 'list') and c.args
                  and unparse(c.args[0]) == 'tree' for c in ast.walk(x.value))}
  if last is not None and isinstance(last.value, ast.Name) and last.value.id in work:
    ctx.ok(rule, fi, 'returns the working copy', last)
  else:
    ctx.fail(rule, fi, '_set_by_path: return result', 'the updated copy is not returned',
             node=fi.node)
  ctx.floor(rule, 4)


def r2(ctx: Ctx):
  rule = 'R-C18-2'
  ctx.rule(rule, 'routing: set() forwards its in_place to every _set_by_path'
           ' call and returns a new view when copying; copy_and_set ->'
           ' set(in_place=False); copy_and_update and __or__ -> copy_and_set;'
           ' apply() copies the root before updating')
  repo = ctx.repo
  st = repo.func(T, 'TreeMapView.set')
  calls = [c for c in walk_no_nested(st.node) if isinstance(c, ast.Call)
           and unparse(c.func) == 'self._set_by_path']
  bad = [c for c in calls if not (len(c.args) > 3 and unparse(c.args[3]) == 'in_place'
                                  or unparse(kwarg(c, 'in_place')) == 'in_place')]
  if calls and not bad:
    ctx.ok(rule, st, f'set: {len(calls)} _set_by_path calls forward in_place', st.node)
  else:
    ctx.fail(rule, st, (bad[0] if bad else st.node),
             'set() calls _set_by_path without forwarding its in_place flag: a'
             ' copying set modifies the original for this key shape')
  rets = [x for x in walk_no_nested(st.node) if isinstance(x, ast.Return)]
  from mlmverif import pat
  # the local that accumulates the _set_by_path results
  datav = {x.targets[0].id for x in walk_no_nested(st.node) if isinstance(x, ast.Assign)
           and isinstance(x.targets[0], ast.Name) and isinstance(x.value, ast.Call)
           and unparse(x.value.func) == 'self._set_by_path'}
  ok = rets and len(datav) == 1 and all(
      pat.match('self if in_place else dataclasses.replace(self, data=$d)', r.value,
                ) is not None and r.value.orelse.keywords[0].value.id in datav for r in rets)
  if ok:
    ctx.ok(rule, st, 'set returns self (in place) or a new view with the new data', rets[0])
  else:
    ctx.fail(rule, st, 'set: return self if in_place else dataclasses.replace(self, data=data)',
             'a copying set does not return a new view over the updated copy',
             node=st.node)
  cs = repo.func(T, 'TreeMapView.copy_and_set')
  c = [x for x in walk_no_nested(cs.node) if isinstance(x, ast.Call) and unparse(x.func) == 'self.set']
  ip = kwarg(c[0], 'in_place') if c else None
  if c and isinstance(ip, ast.Constant) and ip.value is False and [unparse(a) for a in c[0].args] == cs.params()[1:3]:
    ctx.ok(rule, cs, 'copy_and_set -> set(keys, values, in_place=False)', c[0])
  else:
    ctx.fail(rule, cs, 'copy_and_set: return self.set(keys, values, in_place=False)',
             'copy_and_set does not request a copying set', node=cs.node)
  cu = repo.func(T, 'TreeMapView.copy_and_update')
  cc = [x for x in walk_no_nested(cu.node) if isinstance(x, ast.Call)
        and isinstance(x.func, ast.Attribute) and x.func.attr in ('set', 'copy_and_set', '__setitem__')]
  if cc and all(unparse(x.func) == 'self.copy_and_set' for x in cc):
    ctx.ok(rule, cu, 'copy_and_update -> copy_and_set', cc[0])
  else:
    ctx.fail(rule, cu, 'copy_and_update: self.copy_and_set(...)',
             'copy_and_update does not go through the copying set', node=cu.node)
  orf = repo.func(T, 'TreeMapView.__or__')
  if 'self.copy_and_update(' in unparse(orf.node):
    ctx.ok(rule, orf, '__or__ -> copy_and_update', orf.node)
  else:
    ctx.fail(rule, orf, '__or__: return self.copy_and_update(other)',
             '`view | mapping` does not copy', node=orf.node)
  ap = repo.func(T, 'TreeMapView.apply')
  txt = unparse(ap.node)
  if 'TreeMapView(copy.copy(self.data))' in txt and '.copy_and_update(self.items())' in txt:
    ctx.ok(rule, ap, 'apply copies the root, then copy_and_update', ap.node)
  else:
    ctx.fail(rule, ap, 'apply: TreeMapView(copy.copy(self.data)).copy_and_update(self.items())',
             'apply() does not work on a copy of the viewed data', node=ap.node)
  ctx.floor(rule, 6)


def pat_has_tuple_read(case, keys_param: str) -> bool:
  from mlmverif import pat
  for s in case.body:
    if isinstance(s, ast.Return) and pat.match(
        f'tuple(self.__get($k) for $k in {keys_param})', s.value) is not None:
      return True
  return False


def _pat(p) -> str:
  if isinstance(p, ast.MatchClass) and unparse(p.cls) == 'Key' and not p.patterns:
    return 'Key()'
  if isinstance(p, ast.MatchSequence):
    if not p.patterns:
      return '()'
    if len(p.patterns) == 2 and isinstance(p.patterns[1], ast.MatchStar):
      return '(_, *_)'
  if isinstance(p, ast.MatchAs) and p.pattern is None:
    return '_'
  return unparse(p)


def r3(ctx: Ctx):
  rule = 'R-C18-3'
  ctx.rule(rule, 'key dispatch: __getitem__ and set() test the Key() pattern'
           ' before the multi-key tuple pattern (a Key is a tuple subclass);'
           ' multi-key reads return a tuple aligned with the keys;'
           ' _dfs_iter_tree extends the parent path for each child and yields'
           ' the path of each leaf')
  repo = ctx.repo
  for qn in ('TreeMapView.__getitem__', 'TreeMapView.set'):
    fi = repo.func(T, qn)
    m = [s for s in fi.node.body if isinstance(s, ast.Match)]
    if not m:
      raise AnalysisError(f'{rule}: {qn} no longer uses match')
    pats = [_pat(c.pattern) for c in m[0].cases]
    try:
      ik = pats.index('Key()')
      it = pats.index('(_, *_)')
    except ValueError:
      ctx.fail(rule, fi, f'{qn}: case Key() / case (_, *_)', f'patterns are {pats}', node=fi.node)
      continue
    if ik < it:
      ctx.ok(rule, fi, f'{qn}: Key() arm before tuple arm', m[0])
    else:
      ctx.fail(rule, fi, f'{qn}: case Key() before case (_, *_)',
               'a key path (tuple subclass) is treated as several separate'
               ' keys', node=m[0])
  gi = repo.func(T, 'TreeMapView.__getitem__')
  m = [s for s in gi.node.body if isinstance(s, ast.Match)][0]
  arm = [c for c in m.cases if _pat(c.pattern) == '(_, *_)']
  ok = bool(arm) and pat_has_tuple_read(arm[0], gi.params()[1])
  if ok:
    ctx.ok(rule, gi, 'multi-key read: tuple(get(key) for key in keys)', arm[0])
  else:
    ctx.fail(rule, gi, '__getitem__: tuple(self.__get(key) for key in keys)',
             'multi-key reads are not aligned with the keys', node=gi.node)
  df = repo.func(T, '_dfs_iter_tree')
  from mlmverif import pat
  dp = df.params()
  a = pat.search(df.node, f'for $k, $v in {dp[0]}.items():\n  yield from _dfs_iter_tree($v, {dp[1]}.at($k))')
  b_ = pat.search(df.node, f'for $i, $v in enumerate({dp[0]}):\n  yield from _dfs_iter_tree($v, {dp[1]}.at(Index($i)))')
  leaf = pat.has(df.node, f'yield Key({dp[1]})')
  ok = bool(a) and bool(b_) and leaf
  if ok:
    ctx.ok(rule, df, '_dfs_iter_tree recurses per child with the extended path', df.node)
  else:
    ctx.fail(rule, df, '_dfs_iter_tree: recurse into v with parent_key_path.at(key)',
             'leaf enumeration does not visit each child under its own path',
             node=df.node)
  ctx.floor(rule, 4)


def r4(ctx: Ctx):
  rule = 'R-C18-4'
  ctx.rule(rule, 'reserved-key test: _is_key(candidate, reserved) requires the'
           ' CANDIDATE to be an instance of the reserved key\'s type (a plain'
           ' string spelled like a reserved key is an ordinary key), and every'
           ' call site passes the reserved sentinel as the second argument')
  repo = ctx.repo
  fi = repo.func(T, '_is_key')
  ps = fi.params()
  if len(ps) != 2:
    raise AnalysisError(f'{rule}: _is_key signature changed')
  cand, res = ps
  inst = [c for c in walk_no_nested(fi.node) if isinstance(c, ast.Call) and unparse(c.func) == 'isinstance']
  ok = False
  for c in inst:
    if len(c.args) == 2 and unparse(c.args[0]) == cand and unparse(c.args[1]) in (
        f'type({res})', 'Reserved'):
      ok = True
  eq = any(isinstance(x, ast.Compare) and isinstance(x.ops[0], (ast.Eq, ast.Is))
           and {unparse(x.left), unparse(x.comparators[0])} == {cand, res}
           for x in walk_no_nested(fi.node))
  if ok and eq:
    ctx.ok(rule, fi, f'isinstance({cand}, type({res})) and {cand} == {res}', fi.node)
  else:
    ctx.fail(rule, fi, f'_is_key: isinstance({cand}, type({res})) and {cand} == {res}',
             'the reserved-key test no longer requires the candidate key to be'
             ' of the reserved type: a plain string key equal to a reserved'
             ' name is treated as the sentinel (SELF returns the whole subtree,'
             ' SKIP drops the value)', node=fi.node)
  mi = repo.module(T)
  sentinels = ('_SELF', '_SKIP', 'Key.SELF', 'Key.SKIP')
  n = 0
  for f2 in list(mi.functions.values()) + [mm for c in mi.classes.values() for mm in c.methods.values()]:
    for c in walk_no_nested(f2.node):
      if isinstance(c, ast.Call) and unparse(c.func) == '_is_key' and len(c.args) == 2:
        n += 1
        if unparse(c.args[1]) in sentinels and unparse(c.args[0]) not in sentinels:
          ctx.ok(rule, f2, unparse(c), c)
        else:
          ctx.fail(rule, f2, c, f'`{unparse(c)}` does not pass the reserved'
                   ' sentinel as the second argument')
  ctx.floor(rule, 3, n + 1)


def _seq_nf(e: ast.AST) -> list[str] | None:
  """Sequence normal form: '*x' = the elements of x, 'x' = the single element x."""
  if isinstance(e, ast.Name):
    return ['*' + e.id]
  if isinstance(e, ast.Tuple) or isinstance(e, ast.List):
    out = []
    for x in e.elts:
      if isinstance(x, ast.Starred):
        sub = _seq_nf(x.value)
        if sub is None:
          return None
        out += sub
      else:
        out.append(unparse(x))
    return out
  if isinstance(e, ast.BinOp) and isinstance(e.op, ast.Add):
    l, r = _seq_nf(e.left), _seq_nf(e.right)
    return None if l is None or r is None else l + r
  if isinstance(e, ast.Call) and len(e.args) == 1 and not e.keywords and unparse(e.func) in (
      'Key', 'tuple', 'cls', 'type(self)', 'self.__class__', 'list'):
    return _seq_nf(e.args[0])
  return None


def r5(ctx: Ctx):
  rule = 'R-C18-5'
  ctx.rule(rule, 'path extension adds exactly one component: every return of'
           ' Key.at(k) and Key.__getattr__(name) is the receiver\'s components'
           ' followed by the argument as ONE component (sequence normal form'
           ' [*self, k]) — a tuple used as a dict key must stay one path'
           ' component, or iterated paths no longer read back their leaf')
  ci = ctx.repo.cls(T, 'Key')
  n = 0
  for name in ('at', '__getattr__'):
    fi = ci.methods.get(name)
    if fi is None:
      raise AnalysisError(f'{rule}: Key.{name} not found')
    ps = fi.params()
    if len(ps) != 2:
      raise AnalysisError(f'{rule}: Key.{name} has parameters {ps}')
    want = ['*' + ps[0], ps[1]]
    for r_ in [x for x in walk_no_nested(fi.node) if isinstance(x, ast.Return)]:
      n += 1
      nf = _seq_nf(r_.value) if r_.value is not None else None
      if nf is None:
        raise AnalysisError(f'{rule}: cannot normalise `{unparse(r_.value)[:50]}` in Key.{name}')
      if nf == want:
        ctx.ok(rule, fi, f'Key.{name} returns {nf}', r_)
      else:
        ctx.fail(rule, fi, f'Key.{name}: return [*self, {ps[1]}]',
                 f'Key.{name} can return the path {nf} instead of {want}: an'
                 ' argument that is itself a tuple is spliced in as several'
                 ' components (or the component is lost), so a tuple-valued'
                 ' dict key yields a path that does not read back its leaf',
                 node=r_)
  ctx.floor(rule, 2, n)


def r6(ctx: Ctx):
  rule = 'R-C18-6'
  ctx.rule(rule, 'a multi-key set writes EVERY (key, value) pair: the loop that'
           ' zips keys with values in TreeMapView.set has no break/return and'
           ' on every path through its body the pair is either written'
           ' (_set_by_path with this key and value) or skipped by `continue`'
           ' — a `break` on a placeholder key silently drops the pairs after it')
  fi = ctx.repo.func(T, 'TreeMapView.set')
  loops = [x for x in ast.walk(fi.node) if isinstance(x, ast.For) and isinstance(x.iter, ast.Call)
           and unparse(x.iter.func) == 'zip' and isinstance(x.target, ast.Tuple) and len(x.target.elts) == 2]
  if not loops:
    raise AnalysisError(f'{rule}: the key/value zip loop was not found in TreeMapView.set')
  n = 0
  for lp in loops:
    n += 1
    kv, vv = (unparse(e) for e in lp.target.elts)
    strict = any(k.arg == 'strict' and isinstance(k.value, ast.Constant) and k.value.value is True
                 for k in lp.iter.keywords)
    exits = [x for b in lp.body for x in ast.walk(b) if isinstance(x, (ast.Break, ast.Return))]
    # inner loops own their breaks
    inner = {id(y) for b in lp.body for z in ast.walk(b) if isinstance(z, (ast.For, ast.While))
             for y in ast.walk(z) if isinstance(y, ast.Break)}
    exits = [x for x in exits if id(x) not in inner]
    writes = [c for b in lp.body for c in ast.walk(b) if isinstance(c, ast.Call) and isinstance(
        c.func, ast.Attribute) and c.func.attr == '_set_by_path' and len(c.args) >= 3
              and unparse(c.args[1]) == kv and unparse(c.args[2]) == vv]
    if exits:
      ctx.fail(rule, fi, f'TreeMapView.set: for {kv}, {vv} in zip(keys, values): every pair written',
               f'the multi-key loop can leave early (`{unparse(exits[0])}`): the pairs'
               ' after that key are silently not written, so reading one of'
               ' those paths after the copying set returns the old value',
               node=exits[0])
    elif not writes or not strict:
      ctx.fail(rule, fi, f'TreeMapView.set: for {kv}, {vv} in zip(keys, values, strict=True): _set_by_path',
               'the multi-key loop does not write each zipped pair through'
               ' _set_by_path (or the zip is not strict)', node=lp)
    else:
      ctx.ok(rule, fi, f'every ({kv}, {vv}) pair is written; no early exit', lp)
  ctx.floor(rule, 1, n)


def r7(ctx: Ctx):
  rule = 'R-C18-7'
  ctx.rule(rule, '"applying a leaf function maps every leaf and only leaves": in'
           ' the path reader of TreeMapView, a Literal key component yields its'
           ' own value directly — no path from the `isinstance(k, Literal)`'
           ' branch reaches a return that passes through the view\'s leaf'
           ' function (_maybe_map); a literal is not a leaf of the tree')
  ci = ctx.repo.cls(T, 'TreeMapView')
  fi = None
  for name, m_ in ci.methods.items():
    if name.endswith('__get') or name == '_TreeMapView__get':
      fi = m_
  if fi is None:
    raise AnalysisError(f'{rule}: TreeMapView.__get not found')
  g = cfgm.cfg_of(fi.node)
  conds = [c for c in g.nodes if c.kind == 'cond' and 'Literal' in unparse(c.ast) and 'isinstance' in unparse(c.ast)]
  if not conds:
    raise AnalysisError(f'{rule}: the Literal branch was not found in __get')
  n = 0
  for c in conds:
    n += 1
    starts = [s_ for s_, lab in c.succ if lab == 'true']
    reach = g.reachable(starts, edge_ok=cfgm.only_normal, include_src=True)
    mapped = [nd for nd in reach if nd.kind == 'stmt' and isinstance(nd.ast, ast.Return) and any(
        isinstance(x, ast.Call) and isinstance(x.func, ast.Attribute) and x.func.attr == '_maybe_map'
        for x in ast.walk(nd.ast))]
    # returns inside the loop that belong to LATER iterations are reached through the loop head
    loops = [l for l in g.nodes if l.kind == 'for_iter']
    direct = g.reachable(starts, avoid=lambda nd: nd in loops, edge_ok=cfgm.only_normal, include_src=True)
    mapped = [nd for nd in mapped if nd in direct]
    if mapped:
      ctx.fail(rule, fi, 'TreeMapView.__get: a Literal component returns its value unmapped',
               f'from the Literal branch the reader reaches `{mapped[0].text()[:50]}`:'
               ' the literal\'s value is run through the view\'s leaf function, so'
               ' view[path, Literal(3)] returns map_fn(3) instead of 3', node=mapped[0].ast)
    else:
      ctx.ok(rule, fi, 'a Literal component is returned without the leaf function', c.ast)
  ctx.floor(rule, 1, n)


def r8(ctx: Ctx):
  rule = 'R-C18-8'
  ctx.rule(rule, '"reading a path after a copying set returns the set value" for fresh paths:'
           ' when a branch does not exist yet, _default_tree decides the container kind from'
           ' the KEY KIND — a sequence only for an `Index(...)` key (class pattern / isinstance'
           ' on Index), a mapping for every other key. A pattern that also matches plain ints'
           ' (`int(key)`) turns {\'ids\': {3: v}} into a failed insert and {0: v} into [v]:'
           ' the path no longer reads back')
  fi = ctx.repo.func(T, '_default_tree')
  n = 0
  ok_any = False
  for m_ in walk_no_nested(fi.node):
    if not isinstance(m_, ast.Match):
      continue
    for case in m_.cases:
      builds_list = any(isinstance(y, ast.Return) and isinstance(y.value, ast.List) for b in case.body for y in ast.walk(b))
      if not builds_list:
        continue
      n += 1
      classes = [unparse(p_.cls).split('.')[-1] for p_ in ast.walk(case.pattern) if isinstance(p_, ast.MatchClass)]
      guard_idx = case.guard is not None and 'Index' in unparse(case.guard) and 'isinstance' in unparse(case.guard)
      if (classes and all(c_ == 'Index' for c_ in classes)) or (not classes and guard_idx):
        ok_any = True
        ctx.ok(rule, fi, '_default_tree: a fresh sequence only for an Index key', case.pattern)
      else:
        ctx.fail(rule, fi, '_default_tree: a fresh sequence is created only for an Index key',
                 f'the case `{unparse(case.pattern)[:50]}` that builds a list matches {classes or "any key"}, not only'
                 ' Index: a plain int (or bool) key of a fresh branch is taken for a list position — non-zero'
                 ' keys fail to insert and key 0 builds [v] instead of {0: v}, so the set path does not read back',
                 node=case.pattern)
  if n == 0:
    # if/elif form
    for x in walk_no_nested(fi.node):
      if isinstance(x, ast.If) and any(isinstance(y, ast.Return) and isinstance(y.value, ast.List) for b in x.body for y in ast.walk(b)):
        n += 1
        t = unparse(x.test)
        if 'isinstance' in t and 'Index' in t and 'int' not in t.replace('Index', ''):
          ctx.ok(rule, fi, '_default_tree: a fresh sequence only for an Index key', x.test)
        else:
          ctx.fail(rule, fi, '_default_tree: a fresh sequence is created only for an Index key',
                   f'the branch `{t[:50]}` that builds a list is not restricted to Index keys', node=x.test)
  ctx.floor(rule, 1, n)


def r9(ctx: Ctx):
  rule = 'R-C18-9'
  ctx.rule(rule, '"setting a path ... every other path reads as before": a reserved key means the'
           ' same on an EMPTY tree as on an existing container. _set_by_path gives the reserved'
           ' sentinels their meaning (SELF: the node itself, SKIP: write nothing) but hands an'
           ' empty tree to _default_tree, which knows plain keys only. So every sentinel that'
           ' _set_by_path tests anywhere is tested on every path BEFORE the delegation to'
           ' _default_tree (or by _default_tree itself). Otherwise the sentinel becomes a'
           ' literal dict key on a fresh tree: an output routed to Key.SKIP shows up in the'
           ' record as {Reserved(\'SKIP\'): value} when it is the first key')
  repo = ctx.repo
  fi = repo.func(T, 'TreeMapView._set_by_path')
  dt = repo.func(T, '_default_tree')
  g = cfgm.cfg_of(fi.node)

  def sentinels_in(node):
    out = set()
    for c in ast.walk(node):
      if isinstance(c, ast.Call) and unparse(c.func) == '_is_key' and len(c.args) == 2:
        out.add(unparse(c.args[1]))
    return out

  handled = sentinels_in(fi.node)
  if len(handled) < 2:
    raise AnalysisError(f'{rule}: _set_by_path tests {sorted(handled)} only (SELF and SKIP expected)')
  deleg = [nd for nd in g.nodes if nd.kind in ('stmt', 'cond') and any(
      isinstance(c, ast.Call) and unparse(c.func) == '_default_tree' for c in cfgm.node_exprs(nd))]
  if not deleg:
    raise AnalysisError(f'{rule}: _set_by_path no longer delegates an empty tree to _default_tree')
  in_builder = sentinels_in(dt.node)
  n = 0
  for sname in sorted(handled):
    n += 1
    if sname in in_builder:
      ctx.ok(rule, dt, f'_default_tree handles {sname} itself', dt.node)
      continue
    tests = lambda nd, sname=sname: any(isinstance(c, ast.Call) and unparse(c.func) == '_is_key' and len(c.args) == 2
                                        and unparse(c.args[1]) == sname for c in cfgm.node_exprs(nd))
    w = None
    for d in deleg:
      w = w or g.dominates(tests, d, cfgm.only_normal)
    if w is None:
      ctx.ok(rule, fi, f'{sname} is tested before an empty tree is handed to _default_tree', deleg[0].ast)
    else:
      ctx.fail(rule, fi, f'_set_by_path: {sname} is handled before the fresh-tree delegation',
               f'_set_by_path gives {sname} its meaning only on the path for existing containers; an empty tree'
               f' reaches `{deleg[0].text()[:40]}` first, and _default_tree stores the reserved key as an ordinary'
               ' dict key: the same key path behaves differently depending on whether a container exists yet'
               ' (an output routed to Key.SKIP as FIRST output key appears in the record)', node=deleg[0].ast)
  ctx.floor(rule, 2, n)


def r10(ctx: Ctx):
  rule = 'R-C18-10'
  ctx.rule(rule, '"reading a path after a copying set returns the set value": the getter and the setter'
           ' agree on Key.SELF. Reading stops at SELF and returns the node reached; so the setter'
           ' must stop there too: in _set_by_path every path from the true edge of its SELF test'
           ' returns the value being set, without re-binding the key path and descending further.'
           ' A setter that strips SELF and goes on writes below the node the getter returns: the'
           ' path no longer reads back what was set')
  fi = ctx.repo.func(T, 'TreeMapView._set_by_path')
  g = cfgm.cfg_of(fi.node)
  ps = fi.params()
  val = ps[3] if len(ps) > 3 else 'value'
  tests = [nd for nd in g.nodes if nd.kind == 'cond' and any(
      isinstance(c, ast.Call) and unparse(c.func) == '_is_key' and len(c.args) == 2 and unparse(c.args[1]) == '_SELF'
      for c in cfgm.node_exprs(nd))]
  if not tests:
    raise AnalysisError(f'{rule}: _set_by_path no longer tests its key for SELF')
  n = 0
  for t in tests:
    n += 1
    starts = [s_ for s_, lab in t.succ if lab == 'true']
    is_ret = lambda nd: isinstance(nd.ast, ast.Return) and isinstance(nd.ast.value, ast.Name) and nd.ast.value.id == val
    bad = None
    for s_ in starts:
      if is_ret(s_):
        continue
      w = g.must_pass(s_, [g.exit_ret, g.exit_exc], is_ret, cfgm.only_normal)
      if w is not None:
        bad = w
    if bad:
      ctx.fail(rule, fi, '_set_by_path: SELF ends the path (return the value)',
               f'when the key is SELF, _set_by_path does not return `{val}` at once (path: '
               + ' -> '.join(x_.split(':', 2)[-1][:30] for x_ in bad[-4:]) + ') but keeps descending with the rest'
               ' of the path, whereas reading stops at SELF: copy_and_set(p, v)[p] returns the surrounding'
               ' (sub)tree instead of v for every path with keys behind SELF', node=t.ast)
    else:
      ctx.ok(rule, fi, 'SELF test -> return value', t.ast)
  ctx.floor(rule, 1, n)


def r11(ctx: Ctx):
  rule = 'R-C18-11'
  ctx.rule(rule, '"iterating a view lists every leaf exactly once": without user-supplied key paths'
           ' TreeMapView.__iter__ yields the depth-first enumeration as it is — `yield from'
           ' _dfs_iter_tree(...)`, or a loop whose yield is not under any condition. The existence'
           ' filter (`self.get(key) is not None`) belongs to user-supplied key paths only: applied'
           ' to the enumeration it drops every leaf whose value is None (and every leaf a map_fn'
           ' maps to None is then left unmapped)')
  fi = ctx.repo.func(T, 'TreeMapView.__iter__')
  from mlmverif.core import parent_map
  pm = parent_map(fi.node)
  calls = [c for c in ast.walk(fi.node) if isinstance(c, ast.Call) and unparse(c.func) == '_dfs_iter_tree']
  if not calls:
    raise AnalysisError(f'{rule}: __iter__ no longer enumerates with _dfs_iter_tree')
  n = 0
  for c in calls:
    n += 1
    par = pm.get(c)
    if isinstance(par, ast.YieldFrom):
      ctx.ok(rule, fi, 'yield from _dfs_iter_tree(...)', c)
      continue
    # the enumeration is bound to a name / iterated: every loop over it must yield unconditionally
    names = set()
    if isinstance(par, ast.Assign):
      names = {t.id for t in par.targets if isinstance(t, ast.Name)}
    loops = [l for l in ast.walk(fi.node) if isinstance(l, ast.For) and (l.iter is c or (
        isinstance(l.iter, ast.Name) and l.iter.id in names))]
    filtered = None
    for l in loops:
      for y in ast.walk(l):
        if isinstance(y, (ast.Yield, ast.YieldFrom)):
          q = pm.get(y)
          while q is not None and q is not l:
            if isinstance(q, ast.If):
              filtered = q
            q = pm.get(q)
    if not loops:
      raise AnalysisError(f'{rule}: cannot follow the depth-first enumeration to a yield')
    if filtered is not None:
      ctx.fail(rule, fi, '__iter__: the depth-first enumeration is yielded unfiltered',
               f'the leaf paths produced by _dfs_iter_tree are only yielded under `{unparse(filtered.test)[:50]}`:'
               ' a leaf whose value is None is not listed (len, keys(), items() miss it) and apply() leaves every'
               ' leaf that map_fn maps to None unmapped', node=filtered)
    else:
      ctx.ok(rule, fi, 'enumeration yielded unconditionally', c)
  ctx.floor(rule, 1, n)


def r12(ctx: Ctx):
  rule = 'R-C18-12'
  ctx.rule(rule, '"never mutate the viewed data" — nor the view a new view is derived from: tree views are values. No function'
           ' of the tree module stores an attribute on an object it was handed (a parameter, incl. `self` outside'
           ' __init__/__post_init__/__setstate__); a derived view (other map_fn / key_paths) is built with'
           ' dataclasses.replace / the constructor. `as_view(base, map_fn=f)` that assigns base.map_fn rewires `base`:'
           ' its later reads come back mapped and get-after-set fails on it')
  mi = ctx.repo.module(T)
  fns = list(mi.functions.values()) + [m_ for c in mi.classes.values() for m_ in c.methods.values()]
  n = 0
  for fi in fns:
    if fi.name in ('__init__', '__post_init__', '__setstate__'):
      continue
    n += 1
    params = set(fi.params())
    # names that may still hold a parameter object: the parameters themselves (re-binding on one path does not help)
    bad = None
    for x in walk_no_nested(fi.node):
      tgts = x.targets if isinstance(x, ast.Assign) else [x.target] if isinstance(x, (ast.AugAssign, ast.AnnAssign)) else []
      for t in tgts:
        if isinstance(t, ast.Attribute) and isinstance(t.value, ast.Name) and t.value.id in params:
          bad = x
    what = f'{fi.qualname}: stores no attribute on an object it was handed'
    if bad is None:
      ctx.ok(rule, fi, what, fi.node)
    else:
      ctx.fail(rule, fi, what,
               f'`{unparse(bad)[:70]}` in {fi.qualname} changes an object the caller still holds: a view derived from another'
               ' view must be a new object (dataclasses.replace), otherwise the original view changes its mapping / key'
               ' paths under the caller', node=bad)
  ctx.floor(rule, 20, n)


def r13(ctx: Ctx):
  rule = 'R-C18-13'
  ctx.rule(rule, '"iterating a view lists every leaf exactly once ... applying a leaf function maps every leaf": what a leaf IS is'
           ' decided by the KIND of the node, never by its truth value. In the leaf enumeration (_dfs_iter_tree) the node'
           ' is tested by truth only as the emptiness test of a container — a conjunct next to an isinstance(node, Mapping /'
           ' Sequence) test in the same condition. A bare `elif data:` drops falsy leaves (0, \'\', False, np.zeros(1)) and'
           ' raises for a multi-element array ("truth value of an array is ambiguous")')
  from mlmverif.props.c17 import _truth_positions
  fi = ctx.repo.func(T, '_dfs_iter_tree')
  p = fi.params()[0]
  n = 0
  bad = None
  pm = parent_map(fi.node)
  for t in _truth_positions(fi.node):
    if not (isinstance(t, ast.Name) and t.id == p):
      continue
    n += 1
    par = pm.get(t)
    # allowed: `isinstance(data, X) and ... and data` (emptiness of a container), possibly under a `not`
    q, ok = t, False
    while q in pm:
      par = pm[q]
      def kind_test(v):
        if isinstance(v, ast.BoolOp) and isinstance(v.op, ast.Or):
          return all(kind_test(z) for z in v.values)
        return (isinstance(v, ast.Call) and unparse(v.func) == 'isinstance' and v.args and unparse(v.args[0]) == p
                and not any(isinstance(y, ast.Name) and y.id == 'str' for y in ast.walk(v.args[1])))
      if isinstance(par, ast.BoolOp) and isinstance(par.op, ast.And) and any(kind_test(v) for v in par.values if v is not q):
        ok = True
      q = par
    if not ok:
      bad = bad or t
  what = '_dfs_iter_tree: a node is tested by truth only as the emptiness of a container'
  if bad is None:
    ctx.ok(rule, fi, what, fi.node)
  else:
    ctx.fail(rule, fi, what,
             f'`{p}` is used as a bare truth value at line {bad.lineno} of _dfs_iter_tree: a falsy leaf (0, \'\', False, an array of'
             ' one zero) is not listed and not mapped, and a multi-element array raises ValueError — leaves are to be'
             ' recognised by their kind', node=bad)
  ctx.floor(rule, 2, n)


def r14(ctx: Ctx):
  rule = 'R-C18-14'
  ctx.rule(rule, '"iterating a view lists every leaf exactly once with a path that reads back that leaf, multi-key reads return'
           ' values aligned with the keys": keys(), values(), items() and len() of a view are ONE enumeration — keys() is'
           ' built by iterating the view itself (the same __iter__ that values()/items()/len() go through, which drops the'
           ' user key paths that do not resolve). A shortcut that returns the configured key paths lists paths that do not'
           ' read back and misaligns zip(keys(), values())')
  ci = ctx.repo.cls(T, 'TreeMapView')
  n = 0
  for name in ('keys', 'values', 'items', '__len__'):
    fi = ci.methods.get(name)
    if fi is None:
      continue
    rets = [r_ for r_ in ast.walk(fi.node) if isinstance(r_, ast.Return) and r_.value is not None]
    for r_ in rets:
      n += 1
      over_self = any((isinstance(y, ast.comprehension) and unparse(y.iter) in ('self', 'iter(self)', 'self.keys()', 'self.items()'))
                      or (isinstance(y, ast.Call) and unparse(y.func) in ('tuple', 'list', 'len', 'iter', 'sum', 'zip') and any(
                          unparse(a) in ('self', 'iter(self)', 'self.keys()', 'self.items()', 'self.values()') for a in y.args))
                      or (isinstance(y, ast.Call) and unparse(y.func) in ('self.__iter__', 'self.keys', 'self.items', 'self.__len__'))
                      for y in ast.walk(r_.value))
      what = f'TreeMapView.{name}: derived from the view\'s own enumeration'
      if over_self:
        ctx.ok(rule, fi, what, r_)
      else:
        ctx.fail(rule, fi, what,
                 f'`{unparse(r_)[:70]}` in TreeMapView.{name} does not go through the iteration of the view: {name}() can list'
                 ' key paths that __iter__ / values() drop (a path that does not resolve), so keys and values are no longer'
                 ' aligned and a listed path does not read back', node=r_)
  ctx.floor(rule, 3, n)


def r15(ctx: Ctx):
  rule = 'R-C18-15'
  ctx.rule(rule, '"reading a path after a copying set returns the set value (incl. index append)": the copying setter decides on'
           ' the object it writes to. In _set_by_path a kind test (isinstance) that guards a mutation of the working copy'
           ' (`result.append(...)`) tests the WORKING COPY — for a tuple node the copy is a list while the original is not, so'
           ' a test of the original refuses the append and a valid index-append on a tuple raises instead of extending it')
  ci = ctx.repo.cls(T, 'TreeMapView')
  fi = ci.methods.get('_set_by_path')
  if fi is None:
    raise AnalysisError('TreeMapView._set_by_path not found')
  pm = parent_map(fi.node)
  n = 0
  for c in ast.walk(fi.node):
    if not (isinstance(c, ast.Call) and isinstance(c.func, ast.Attribute) and c.func.attr in ('append', 'insert', 'extend')
            and isinstance(c.func.value, ast.Name)):
      continue
    tgt = c.func.value.id
    n += 1
    q, bad = c, None
    while q in pm:
      par = pm[q]
      if isinstance(par, ast.If) and any(y is q for b in par.body for y in ast.walk(b)):
        for t in ast.walk(par.test):
          if isinstance(t, ast.Call) and unparse(t.func) == 'isinstance' and t.args and isinstance(t.args[0], ast.Name) and (
              t.args[0].id != tgt):
            bad = t
      q = par
    what = f'_set_by_path: `{unparse(c)[:30]}` is guarded by tests of `{tgt}` itself'
    if bad is None:
      ctx.ok(rule, fi, what, c)
    else:
      ctx.fail(rule, fi, what,
               f'`{unparse(c)[:40]}` mutates `{tgt}` under `{unparse(bad)}`, a kind test of ANOTHER object: the working copy of a'
               ' tuple node is a list, the original is not — the index append on a tuple is refused (KeyError "Failed to'
               ' insert") instead of giving the extended tuple', node=bad)
  ctx.floor(rule, 1, n)


def r16(ctx: Ctx):
  rule = 'R-C18-16'
  ctx.rule(rule, '"a copying set leaves the input untouched ... and returns the tree with the values stored": an immutable node is'
           ' copied by rebuilding it from the LIST of its (updated) items. The constructor used for that takes one iterable —'
           ' the builtin `tuple` (or list): in tree.py a name that is later CALLED to rebuild a container is bound to a'
           ' builtin container type, never to `type(<node>)`, and `type(<node>)(...)` is not called directly. The dynamic'
           ' type of a tuple node may be a named tuple (or another subclass with its own signature): `type(node)([items])`'
           ' raises for it, so every copying set / apply through such a node fails where it used to work')
  mi = ctx.repo.module(T)
  fns = list(mi.functions.values()) + [m_ for c in mi.classes.values() for m_ in c.methods.values()]
  n = 0
  for fi in fns:
    called = {c.func.id for c in ast.walk(fi.node) if isinstance(c, ast.Call) and isinstance(c.func, ast.Name)}
    for x in ast.walk(fi.node):
      if isinstance(x, ast.Call) and isinstance(x.func, ast.Call) and unparse(x.func.func) == 'type':
        n += 1
        ctx.fail(rule, fi, f'{fi.qualname}: containers are rebuilt with a builtin container type',
                 f'`{unparse(x)[:60]}` constructs the dynamic type of a node from its items: a named-tuple node (fields as'
                 ' positional parameters) cannot be built from one list — the copying set raises TypeError', node=x)
      if isinstance(x, ast.Assign) and len(x.targets) == 1 and isinstance(x.targets[0], ast.Name) and x.targets[0].id in called \
          and not isinstance(x.value, ast.Constant):
        n += 1
        what = f'{fi.qualname}: `{x.targets[0].id}` (called to rebuild a container) is a builtin container type'
        if isinstance(x.value, ast.Name) and x.value.id in ('tuple', 'list', 'dict', 'frozenset', 'set'):
          ctx.ok(rule, fi, what, x)
        elif isinstance(x.value, ast.Call) and unparse(x.value.func) == 'type':
          ctx.fail(rule, fi, what,
                   f'`{unparse(x)}`: the node is rebuilt with its own dynamic type, called with ONE list of items: a named'
                   ' tuple takes its fields as separate arguments, so copy_and_set / apply through such a node raises', node=x)
        else:
          ctx.info(rule, fi, what + f' (bound to `{unparse(x.value)[:40]}`)')
  ctx.floor(rule, 1, n)


def r17(ctx: Ctx):
  rule = 'R-C18-17'
  ctx.rule(rule, '"iterating a view lists every leaf exactly once with a path that reads back that leaf": the enumeration descends'
           ' only into the kinds of node a key path can be READ from. The getter indexes Mappings (by key) and list / tuple'
           ' nodes (types.is_array_like, by Index); so every isinstance test that guards a recursive descent in'
           ' _dfs_iter_tree names Mapping, list, tuple (or dict) — not an abstract Sequence / Iterable / Collection: bytes,'
           ' range, deque and user sequences are Sequences too, their elements would be listed under paths that raise'
           ' KeyError when read (and keys()/items() of a record holding a bytes value fail)')
  mi = ctx.repo.module(T)
  fi = mi.functions.get('_dfs_iter_tree')
  if fi is None:
    raise AnalysisError('_dfs_iter_tree not found')
  readable = {'Mapping', 'list', 'tuple', 'dict', 'collections.abc.Mapping', 'abc.Mapping', 'MutableMapping'}
  n = 0
  for x in ast.walk(fi.node):
    if not isinstance(x, ast.If):
      continue
    if not any(isinstance(c, ast.Call) and unparse(c.func) == fi.node.name for b in x.body for c in ast.walk(b)):
      continue
    n += 1
    kinds = set()
    for c in ast.walk(x.test):
      if isinstance(c, ast.Call) and unparse(c.func) == 'isinstance' and len(c.args) == 2:
        pm_neg = False
        k = c.args[1]
        kinds |= {unparse(e) for e in (k.elts if isinstance(k, ast.Tuple) else [k])}
    positive = set()
    # only the POSITIVE tests decide what is descended into: `isinstance(d, Sequence) and not isinstance(d, str)`
    def pos(e, neg=False):
      if isinstance(e, ast.UnaryOp) and isinstance(e.op, ast.Not):
        pos(e.operand, not neg)
      elif isinstance(e, ast.BoolOp):
        for v in e.values:
          pos(v, neg)
      elif isinstance(e, ast.Call) and unparse(e.func) == 'isinstance' and len(e.args) == 2 and not neg:
        k = e.args[1]
        positive.update(unparse(z) for z in (k.elts if isinstance(k, ast.Tuple) else [k]))
      elif isinstance(e, ast.Call) and unparse(e.func).endswith('is_array_like') and not neg:
        positive.update({'list', 'tuple'})
    pos(x.test)
    extra = positive - readable
    what = f'_dfs_iter_tree: descent under `{unparse(x.test)[:60]}` enters readable node kinds only'
    if extra or not positive:
      ctx.fail(rule, fi, what,
               f'`{unparse(x.test)[:80]}` descends into {sorted(extra) or "nodes of any kind"}: the getter reads Index paths from list /'
               ' tuple nodes only, so the elements of a bytes / range / deque value are listed under paths that raise KeyError'
               ' when read back', node=x)
    else:
      ctx.ok(rule, fi, what, x)
  ctx.floor(rule, 2, n)


def r18(ctx: Ctx):
  rule = 'R-C18-18'
  ctx.rule(rule, '"reading a path after a copying set returns the set value": the getter and the setter agree on what an indexable'
           ' NODE is. The setter descends into every `types.is_array_like` node (lists, tuples, arrays) and into Mappings;'
           ' the read loop of the view uses the same predicate — both functions call `types.is_array_like`, or neither'
           ' does. A getter narrowed to (Mapping, list, tuple) cannot read the array element the setter has just written'
           ' (KeyError on every path that continues into an ndarray)')
  ci = ctx.repo.cls(T, 'TreeMapView')
  setter = ci.methods.get('_set_by_path')
  getters = [m_ for name, m_ in ci.methods.items() if m_ is not setter and any(
      isinstance(x, ast.Raise) and 'mapping key' in unparse(x) for x in ast.walk(m_.node))]
  if setter is None or not getters:
    raise AnalysisError(f'{rule}: the read loop (raising "... as a mapping key ...") or _set_by_path was not found in TreeMapView')
  uses = lambda f: any(isinstance(c, ast.Call) and unparse(c.func).endswith('is_array_like') for c in ast.walk(f.node))
  n = 0
  for g_ in getters:
    n += 1
    what = f'TreeMapView.{g_.name} and _set_by_path use the same indexable-node predicate'
    if uses(g_) == uses(setter):
      ctx.ok(rule, g_, what, g_.node)
    else:
      ctx.fail(rule, g_, what,
               f'_set_by_path {"tests" if uses(setter) else "does not test"} types.is_array_like while {g_.name} {"does" if uses(g_) else "does not"}:'
               ' a path the setter can write (into an array node) cannot be read back', node=g_.node)
  ctx.floor(rule, 1, n)


def r19(ctx: Ctx):
  rule = 'R-C18-19'
  ctx.rule(rule, '"setting a path to its current value changes nothing ... every other path reads as before": the setter only ADDS'
           ' or REPLACES entries of the node copy it works on — `_set_by_path` never removes one (no pop / popitem / del /'
           ' clear on the node): fetching the child with `pop(key, ...)` re-inserts every key on the path at the END of its'
           ' mapping, so a no-op set changes the order of keys(), values(), the JSON form, and OrderedDict equality')
  ci = ctx.repo.cls(T, 'TreeMapView')
  fi = ci.methods.get('_set_by_path')
  if fi is None:
    raise AnalysisError(f'{rule}: TreeMapView._set_by_path not found')
  bad = None
  for x in ast.walk(fi.node):
    if isinstance(x, ast.Call) and isinstance(x.func, ast.Attribute) and x.func.attr in ('pop', 'popitem', 'clear') and isinstance(x.func.value, ast.Name):
      bad = x
    if isinstance(x, ast.Delete):
      bad = x
  what = 'TreeMapView._set_by_path removes no entry of the node it updates'
  if bad is not None:
    ctx.fail(rule, fi, what,
             f'`{unparse(bad)[:60]}` removes an entry while setting: the key comes back at the end of the mapping — the leaf order of'
             ' the copy differs from the original even when nothing changed', node=bad)
  else:
    ctx.ok(rule, fi, what, fi.node)
  ctx.floor(rule, 1, 1)


def r20(ctx: Ctx):
  rule = 'R-C18-20'
  ctx.rule(rule, '"every other path reads as before": a field that HOLDS None is a leaf like 0 or \'\' — only a MISSING key stands'
           ' for "nothing there yet". `_set_by_path` fetches the child it descends into with a default for the missing key'
           ' (`node.get(key, NullMap())`) and never tests the fetched child against None: treating a stored None as absent'
           ' silently replaces it by a fresh container when a longer path is set through it, where every other leaf parent'
           ' (0, a string) is an error')
  ci = ctx.repo.cls(T, 'TreeMapView')
  fi = ci.methods.get('_set_by_path')
  if fi is None:
    raise AnalysisError(f'{rule}: TreeMapView._set_by_path not found')
  fetched = set()
  for x in ast.walk(fi.node):
    v = x.value if isinstance(x, (ast.Assign, ast.NamedExpr)) else None
    if v is not None and ((isinstance(v, ast.Call) and isinstance(v.func, ast.Attribute) and v.func.attr == 'get') or isinstance(v, ast.Subscript)):
      tg = x.targets[0] if isinstance(x, ast.Assign) else x.target
      if isinstance(tg, ast.Name):
        fetched.add(tg.id)
  bad = None
  for c in ast.walk(fi.node):
    if isinstance(c, ast.Compare) and any(isinstance(o, (ast.Is, ast.IsNot)) for o in c.ops) and any(
        isinstance(k, ast.Constant) and k.value is None for k in c.comparators):
      left = c.left.target if isinstance(c.left, ast.NamedExpr) else c.left
      if (isinstance(left, ast.Name) and left.id in fetched) or isinstance(c.left, ast.NamedExpr) or (
          isinstance(c.left, ast.Call) and isinstance(c.left.func, ast.Attribute) and c.left.func.attr == 'get'):
        bad = c
  what = 'TreeMapView._set_by_path: a stored None is a leaf, not a missing key'
  if bad is not None:
    ctx.fail(rule, fi, what,
             f'`{unparse(bad)[:60]}` treats a child that IS None like a missing one: setting a longer path through a field that holds'
             ' None replaces the None by a new container instead of failing like for any other leaf', node=bad)
  else:
    ctx.ok(rule, fi, what, fi.node)
  ctx.floor(rule, 1, 1)


def r21(ctx: Ctx):
  rule = 'R-C18-21'
  ctx.rule(rule, '"for ... all sequences of copy-and-set operations": copy_and_update applies an iterable of (key, value) pairs IN'
           ' SEQUENCE, like the same copy_and_set calls one after the other. It does not pass a non-mapping argument'
           ' through `dict(...)`: a dict keeps a repeated key at its FIRST position with its LAST value, so resetting a'
           ' parent after writing below it ([(a, {}), (a.y, 5), (a, {z: 0})]) leaves the child written after the reset')
  ci = ctx.repo.cls(T, 'TreeMapView')
  fi = ci.methods.get('copy_and_update')
  if fi is None:
    raise AnalysisError(f'{rule}: TreeMapView.copy_and_update not found')
  ps = set(fi.params()[1:])
  bad = [c for c in ast.walk(fi.node) if isinstance(c, ast.Call) and unparse(c.func) in ('dict', 'collections.OrderedDict', 'OrderedDict')
         and c.args and isinstance(c.args[0], ast.Name) and c.args[0].id in ps]
  what = 'TreeMapView.copy_and_update: key/value pairs are applied in the order given'
  if bad:
    ctx.fail(rule, fi, what,
             f'`{unparse(bad[0])}` turns the sequence of writes into a mapping: a key that occurs twice keeps its first POSITION and'
             ' its last VALUE — the batched update no longer equals the sequence of copy_and_set calls', node=bad[0])
  else:
    ctx.ok(rule, fi, what, fi.node)
  ctx.floor(rule, 1, 1)


from mlmverif.selfcheck import B, OK  # noqa: E402

_F = 'chainables/tree.py'
VARIANTS = [
    OK('copy-and-set-through-a-local', 'chainables/tree.py',
       "    return self.set(keys, values, in_place=False)", "    updated = self.set(keys, values, in_place=False)\n    return updated"),
    OK('setter-copy-as-statement', 'chainables/tree.py',
       "      result = tree if in_place else copy.copy(tree)", "      if in_place:\n        result = tree\n      else:\n        result = copy.copy(tree)"),
    OK('child-fetched-through-a-local', 'chainables/tree.py',
       "          result[key] = self._set_by_path(\n              result.get(key, NullMap()), Key(rest_keys), value, in_place\n          )",
       "          child = result.get(key, NullMap())\n          result[key] = self._set_by_path(\n              child, Key(rest_keys), value, in_place\n          )"),
    B('none-parent-taken-for-a-missing-key', 'chainables/tree.py',
      "          result[key] = self._set_by_path(\n              result.get(key, NullMap()), Key(rest_keys), value, in_place\n          )",
      "          if (child := result.get(key)) is None:\n            child = NullMap()\n          result[key] = self._set_by_path(\n              child, Key(rest_keys), value, in_place\n          )", 'R-C18-20'),
    B('update-pairs-collapsed-through-dict', 'chainables/tree.py',
      "    if isinstance(other, Mapping):\n      return self.copy_and_set(*zip(*other.items(), strict=True))\n    else:\n      return self.copy_and_set(*zip(*other, strict=True))",
      "    if not isinstance(other, Mapping):\n      other = dict(other)\n    return self.copy_and_set(*zip(*other.items(), strict=True))", 'R-C18-21'),
    B('getter-narrowed-to-builtin-containers', 'chainables/tree.py',
      "      if types.is_array_like(data) or isinstance(data, Mapping):\n        data = data[k]", "      if isinstance(data, (Mapping, list, tuple)):\n        data = data[k]", 'R-C18-18'),
    B('setter-pops-the-child-it-updates', 'chainables/tree.py',
      "              result.get(key, NullMap()), Key(rest_keys), value, in_place", "              result.pop(key, NullMap()), Key(rest_keys), value, in_place", 'R-C18-19'),
    OK('tuple-node-rebuilt-through-a-list-then-tuple', 'chainables/tree.py',
       "        container_maker = tuple\n", "        container_maker = tuple\n        assert container_maker is tuple\n"),
    B('revert-enumeration-descends-into-any-sequence', 'chainables/tree.py',
      "  elif isinstance(data, (list, tuple)) and data:\n    for i, v in enumerate(data):", "  elif isinstance(data, Sequence) and not isinstance(data, str) and data:\n    for i, v in enumerate(data):", 'R-C18-17'),
    OK('enumeration-descends-into-list-then-tuple', 'chainables/tree.py',
       "  elif isinstance(data, (list, tuple)) and data:\n    for i, v in enumerate(data):", "  elif (isinstance(data, list) or isinstance(data, tuple)) and data:\n    for i, v in enumerate(data):"),
    B('tuple-node-rebuilt-with-its-dynamic-type', 'chainables/tree.py',
      "        container_maker = tuple\n", "        container_maker = type(tree)\n", 'R-C18-16'),
    B('keys-shortcut-returns-the-configured-paths', 'chainables/tree.py',
      "  def keys(self):\n    return tuple(k for k in self)", "  def keys(self):\n    if self.key_paths is not None:\n      return tuple(self.key_paths)\n    return tuple(k for k in self)", 'R-C18-14'),
    B('append-guarded-by-the-kind-of-the-original', 'chainables/tree.py',
      "          if key == len(result):\n            assert isinstance(result, list)\n            result.append(NullMap())",
      "          if key == len(result) and isinstance(tree, list):\n            result.append(NullMap())", 'R-C18-15'),
    B('revert-root-leaf-by-truth', 'chainables/tree.py',
      "  elif data is not None and not isinstance(data, (Mapping, list, tuple)):\n", "  elif data:\n", 'R-C18-13'),
    B('as-view-rewires-the-incoming-view', 'chainables/tree.py',
      "      tree_or_view = dataclasses.replace(\n          tree_or_view,\n          map_fn=map_fn,\n      )", "      tree_or_view.map_fn = map_fn", 'R-C18-12'),
    B('setter-strips-self-and-descends', 'chainables/tree.py',
      '    if key_path == Key() or _is_key(key_path[0], _SELF):\n      return value\n',
      '    if key_path and _is_key(key_path[0], _SELF):\n      key_path = Key(key_path[1:])\n    if key_path == Key():\n      return value\n', 'R-C18-10'),
    B('iteration-filters-none-leaves', 'chainables/tree.py',
      '    if self.key_paths is not None:\n      for key in self.key_paths:\n        if self.get(key) is not None:\n          yield key\n      return\n    yield from _dfs_iter_tree(self.data, Key())',
      '    key_paths = self.key_paths\n    if key_paths is None:\n      key_paths = _dfs_iter_tree(self.data, Key())\n    for key in key_paths:\n      if self.get(key) is not None:\n        yield key', 'R-C18-11'),
    OK('iteration-explicit-loop', 'chainables/tree.py',
       '    yield from _dfs_iter_tree(self.data, Key())', '    for key in _dfs_iter_tree(self.data, Key()):\n      yield key'),
    B('revert-skip-on-empty-tree', 'chainables/tree.py',
      '    # Nothing is written for a skipped key, also when there is no tree yet.\n    if _is_key(key_path[0], _SKIP):\n      return tree\n',
      '', 'R-C18-9'),
    OK('skip-and-self-tested-together', 'chainables/tree.py',
       '    # Nothing is written for a skipped key, also when there is no tree yet.\n    if _is_key(key_path[0], _SKIP):\n      return tree\n',
       '    skipped = _is_key(key_path[0], _SKIP)\n    if skipped:\n      return tree\n'),
    B('fresh-branch-int-key-as-position', 'chainables/tree.py',
      '    case (Index(key), *rest_keys):', '    case (int(key), *rest_keys):', 'R-C18-8'),
    OK('fresh-branch-index-by-guard', 'chainables/tree.py',
       '    case (Index(key), *rest_keys):', '    case (key, *rest_keys) if isinstance(key, Index):'),
    B('literal-value-through-leaf-fn', _F,
      '      if isinstance(k, Literal):\n        return k.value',
      '      if isinstance(k, Literal):\n        data = k.value\n        break', 'R-C18-7'),
    B('multi-key-set-breaks-on-skip', _F,
      '          for key, value in zip(keys, values, strict=True):\n            data = self._set_by_path(data, key, value, in_place)',
      '          for key, value in zip(keys, values, strict=True):\n            if _is_key(key, _SKIP):\n              break\n            data = self._set_by_path(data, key, value, in_place)',
      'R-C18-6'),
    OK('multi-key-set-continues-on-skip', _F,
       '          for key, value in zip(keys, values, strict=True):\n            data = self._set_by_path(data, key, value, in_place)',
       '          for key, value in zip(keys, values, strict=True):\n            if _is_key(key, _SKIP):\n              continue\n            data = self._set_by_path(data, key, value, in_place)'),
    B('key-at-splices-tuples', _F,
      '  def at(self, key: BaseKey):\n    return Key(self + (key,))',
      '  def at(self, key: BaseKey):\n    if isinstance(key, tuple):\n      return Key(self + key)\n    return Key(self + (key,))',
      'R-C18-5'),
    OK('key-at-star-form', _F,
       '  def at(self, key: BaseKey):\n    return Key(self + (key,))',
       '  def at(self, key: BaseKey):\n    return Key((*self, key))'),
    B('tuple-branch-flips-in-place', _F,
      '        container_maker = tuple\n        result = list(tree)',
      '        container_maker = tuple\n        result, in_place = list(tree), True', 'R-C18-1'),
    B('is-key-swapped', _F, '  return isinstance(key, type(other_key)) and key == other_key',
      '  return isinstance(other_key, type(key)) and key == other_key', 'R-C18-4'),
    B('no-copy', _F, '      result = tree if in_place else copy.copy(tree)',
      '      result = tree', 'R-C18-1'),
    B('tuple-branch-aliases', _F,
      '        container_maker = tuple\n        result = list(tree)',
      '        container_maker = tuple\n        result = tree', 'R-C18-1'),
    B('recursion-forces-in-place', _F,
      '              result[key], Key(rest_keys), value, in_place\n          )',
      '              result[key], Key(rest_keys), value, True\n          )', 'R-C18-1'),
    B('recursion-into-original', _F,
      '              result.get(key, NullMap()), Key(rest_keys), value, in_place',
      '              tree.get(key, NullMap()), Key(rest_keys), value, in_place', 'R-C18-1'),
    B('set-drops-in-place-on-one-arm', _F,
      '          data = self._set_by_path(data, keys[0], values, in_place)',
      '          data = self._set_by_path(data, keys[0], values)', 'R-C18-2'),
    B('copy-and-set-in-place', _F,
      '    return self.set(keys, values, in_place=False)', '    return self.set(keys, values)',
      'R-C18-2'),
    B('apply-no-root-copy', _F,
      '    initial_map = TreeMapView(copy.copy(self.data))',
      '    initial_map = TreeMapView(self.data)', 'R-C18-2'),
    B('key-arm-after-tuple', _F,
      '      case Key():\n        return self.__get(keys)\n      case ():\n        return ()\n      # Always treats the first tuple dimension as multi-key.\n      case (_, *_):\n        return tuple(self.__get(key) for key in keys)',
      '      case ():\n        return ()\n      # Always treats the first tuple dimension as multi-key.\n      case (_, *_):\n        return tuple(self.__get(key) for key in keys)\n      case Key():\n        return self.__get(keys)',
      'R-C18-3'),
    OK('copy-via-local', _F, '      result = tree if in_place else copy.copy(tree)',
       '      if in_place:\n        result = tree\n      else:\n        result = copy.copy(tree)'),
]
