"""C03 — results do not depend on the execution strategy (structural part).

Equality of outputs across executions is a relation between runs and is NOT
decided.  Decided are the necessary structural conditions that every strategy
feeds the same operators, in the same order, over the same partition of the
input, and updates the aggregate once per delivered batch in one thread.
"""
from __future__ import annotations

import ast

from mlmverif import cfg as cfgm
from mlmverif import pat
from mlmverif.core import (AnalysisError, Ctx, FuncInfo, is_self_attr, kwarg,
                           unparse, walk_no_nested)

EXPLANATION = (
    'AST/CFG structure of the runners. Decides: with num_threads>0 a shardable'
    ' source is split into shard(i, num_threads) for i in range(num_threads)'
    ' (each index once) and otherwise used whole; the sequential strategy'
    ' chains ALL source iterators in order; the threaded strategies give every'
    ' source its own operator chain or share one lock-protected input (C13);'
    ' the operator chain applies runner.fns in order, each once; the aggregate'
    ' state is updated exactly once per delivered batch, in the consumer'
    ' (__next__), never inside the thread-pool operator chain; fusing'
    ' concatenates fns/agg_fns/slicers as self + child; flatten_transform lists'
    ' ancestors first; make() builds one runner per stage in that order and'
    ' ChainedRunner.iterate pipes stage i into stage i+1; the chained iterator'
    ' draws from the last stage and returns the aggregate of all stages; the'
    ' in-process stage runner feeds its input queue through the same runner.'
    ' Producer count, shared-input locking and merge counting are decided'
    ' under C13 and C16. NOT decided: equality of results across strategies.'
)
ASSUMPTIONS = ['Sharding is a partition (C09); queues deliver exactly once (C04).']

TR = 'chainables.transform'
IU = 'utils.iter_utils'
ORCH = 'chainables.orchestrate'


def run(ctx: Ctx):
  for r in (r1, r2, r3, r4, r6, r7, r8, r12, r13, r15, r17, r19):
    ctx.guard(r)
  from mlmverif.props import c09
  from mlmverif.props import c13, c16
  ctx.include('R-C03-16', '"as a chain of named stages ... the same aggregate results": the chain hands every stage the BATCHES of the'
              ' stage before it whether or not the caller wants batch outputs back — the caller\'s with_result flag is not passed'
              ' to the per-stage iterators (R-C16-17): an aggregate-only run of a chain would otherwise feed None into every'
              ' downstream stage while the single fused stage is unaffected', c16.r17, min_instances=1)
  from mlmverif.props import c08 as _c08
  ctx.include('R-C03-18', '"every supported execution strategy ... the same emitted batches and aggregate results" when the SAME in-memory'
              ' dataset is handed to one strategy after another: operators reach records only through the copying tree API and'
              ' never write into them (R-C08-1) — an assign that writes into the caller\'s batch dicts makes every later run'
              ' start from the previous run\'s output', _c08.r1, min_instances=5)
  ctx.include('R-C03-9', '"with any number of worker threads ... as a chain of named'
              ' stages": threads that share one upstream iterator (the previous'
              ' stage) pull from it under a lock, whatever kind of iterator it is'
              ' (R-C13-1) — its __next__ also updates that stage\'s aggregate',
              c13.r1, min_instances=3)
  ctx.include('R-C03-14', '"with any number of worker threads ... all thread schedules": the queue that merges the per-thread'
              ' sub-shards knows how many producers to expect BEFORE any of them runs (max_enqueuer=len(inputs), one producer'
              ' per input — R-C13-2). Counting the producers as they start lets the stream end as soon as the threads started'
              ' so far are done: a sub-shard whose thread is scheduled late is dropped from the batches and the aggregate',
              c13.r2, min_instances=1)
  from mlmverif.props import c04
  from mlmverif.props._queue import model as qmodel
  ctx.include('R-C03-11', '"with any number of worker threads ... through the'
              ' interleaved stage runner": the queue that links worker threads'
              ' and stages reports end-of-stream only from a state in which'
              ' nothing is left inside it — the emptiness test and the'
              ' enqueue_done test of a non-blocking get are one atomic step under'
              ' the states lock, and the return values are recorded before done'
              ' can be observed (R-C04-6); every dequeue wakes a blocked producer'
              ' (R-C04-5)', _c04_shared, qmodel(ctx), min_instances=6)
  ctx.include('R-C03-10', '"over any number of shards whose states are merged":'
              ' every incoming (metric, slice) entry is merged into the result on'
              ' every path (R-C16-5)', c16.r5, min_instances=1)
  ctx.include('R-C03-5', 'the sharded strategies (thread sub-shards, make(shard='
              '...)) run over shards rebuilt from recorded state and over'
              ' ranges of merged sequences: the rebuilt shard is the recorded'
              ' one incl. its configuration (R-C09-2) and a range never reads'
              ' past its stop (R-C09-6); and the shards ARE a partition: shard() computes the'
              ' balanced contiguous split for all (n, K, k) (R-C09-1); a per-thread sub-shard that starts inside one piece of a'
              ' merged source reads every later piece from its offset 0 (R-C09-12)', _c09_shared, min_instances=12)

def r12(ctx: Ctx):
  rule = 'R-C03-12'
  ctx.rule(rule, '"as one fused stage or as a chain of named stages ... through the interleaved stage'
           ' runner": only the LAST stage of a chain may drop its batches (aggregate_only); every other'
           ' stage feeds the next one. In run_pipeline_interleaved the per-stage aggregate_only /'
           ' with_result argument therefore depends on the position of the stage (it mentions a value'
           ' derived from the loop index compared with the number of stages), not merely on whether'
           ' the stage aggregates — an aggregating stage in the middle of the chain would hand `None`'
           ' batches to its successor')
  fi = ctx.repo.func('chainables.orchestrate', 'run_pipeline_interleaved')
  n = 0
  for lp in walk_no_nested(fi.node):
    if not isinstance(lp, ast.For):
      continue
    calls = [c for c in ast.walk(lp) if isinstance(c, ast.Call) and kwarg(c, 'aggregate_only') is not None]
    if not calls:
      continue
    # names that carry the position: the enumerate index and everything computed from it
    idx = set()
    if isinstance(lp.iter, ast.Call) and unparse(lp.iter.func) == 'enumerate' and isinstance(lp.target, ast.Tuple) and isinstance(
        lp.target.elts[0], ast.Name):
      idx.add(lp.target.elts[0].id)
    for _ in range(2):
      for x in ast.walk(lp):
        if isinstance(x, ast.Assign) and any(isinstance(y, ast.Name) and y.id in idx for y in ast.walk(x.value)):
          idx |= {t.id for t in x.targets if isinstance(t, ast.Name)}
    for c in calls:
      n += 1
      v = kwarg(c, 'aggregate_only')
      positional = any(isinstance(y, ast.Name) and y.id in idx for y in ast.walk(v))
      if positional and idx:
        ctx.ok(rule, fi, f'aggregate_only={unparse(v)[:40]} depends on the stage position', c)
      else:
        ctx.fail(rule, fi, 'run_pipeline_interleaved: only the last stage may drop its batches',
                 f'`aggregate_only={unparse(v)[:50]}` does not depend on the position of the stage in the chain: a'
                 ' non-last stage that aggregates is run without results and enqueues None for every batch, which'
                 ' is what the next stage then receives', node=c)
  ctx.floor(rule, 1, n)



def _c04_shared(sub, m):
  from mlmverif.props import c04
  sub.guard(c04.r6, m)
  sub.guard(c04.r5, m)
  # the interleaved stage runner links its stages with asyncio-backed bounded queues: both buffer kinds' "full"/"empty"
  # signals are waited on (R-C04-16)
  sub.guard(c04.r16, m)


def _c09_shared(sub):
  from mlmverif.props import c09
  sub.guard(c09.r2)
  sub.guard(c09.r6)
  sub.guard(c09.r10)
  sub.guard(c09.r1)
  sub.guard(c09.r12)


def r1(ctx: Ctx):
  rule = 'R-C03-1'
  ctx.rule(rule, 'input partition: TransformRunner._actual_inputs shards a'
           ' shardable source into shard(i, num_threads) for every i in'
           ' range(num_threads) when threads are requested and uses the source'
           ' whole otherwise; MultiplexIterator consumes every source (chained'
           ' in order sequentially; one operator chain per source in parallel)')
  repo = ctx.repo
  fi = repo.func(TR, 'TransformRunner._actual_inputs')
  comps = [c for c in walk_no_nested(fi.node) if isinstance(c, ast.ListComp)]
  ok = False
  for c in comps:
    if len(c.generators) == 1 and unparse(c.generators[0].iter) == 'range(self.num_threads)':
      iv = unparse(c.generators[0].target)
      if isinstance(c.elt, ast.Call) and unparse(c.elt.func).endswith('.shard') and [
          unparse(a) for a in c.elt.args] == [iv, 'self.num_threads']:
        ok = True
  whole = any(isinstance(x, ast.Assign) and isinstance(x.value, ast.List) and len(x.value.elts) == 1
              for x in walk_no_nested(fi.node))
  g = cfgm.cfg_of(fi.node)
  guard = [c for c in g.nodes if c.kind == 'cond' and 'self.num_threads' in unparse(c.ast) and 'is_shardable' in unparse(c.ast)]
  if ok and whole and guard:
    ctx.ok(rule, fi, 'shard(i, num_threads) for i in range(num_threads) | [data_source]', comps[0])
  else:
    ctx.fail(rule, fi, '_actual_inputs: [data_source.shard(i, self.num_threads) for i in range(self.num_threads)]',
             'the threaded runner does not cover each shard index of the data'
             ' source exactly once (or no longer falls back to the whole'
             ' source): elements are processed twice or never', node=fi.node)
  mi = repo.func(IU, 'MultiplexIterator.__init__')
  seq = pat.has(mi.node, 'itt.chain(*self._source_iterators)') and pat.has(mi.node, 'self._source_iterators[0]')
  its = pat.search(mi.node, '$its = self._source_iterators')
  itv = its[0][1]['its'] if its else '_'
  per_source = pat.has(mi.node, f'{itv} = [iter_fn($d) for $d in {itv}]') or pat.has(
      mi.node, '$x = [iter_fn($d) for $d in self._source_iterators]')
  srcs = any(isinstance(x, ast.Assign) and is_self_attr(x.targets[0], '_source_iterators')
             and isinstance(x.value, ast.ListComp) and unparse(x.value.elt).startswith('iter(')
             and unparse(x.value.generators[0].iter) == 'data_sources' for x in walk_no_nested(mi.node))
  pm = [c for c in walk_no_nested(mi.node) if isinstance(c, ast.Call) and unparse(c.func) == 'piter_multiplex']
  pm_ok = pm and unparse(kwarg(pm[0], 'input_iterators')) == itv
  if seq and per_source and srcs and pm_ok:
    ctx.ok(rule, mi, 'every source iterated: chained in order / one operator chain per source', mi.node)
  else:
    ctx.fail(rule, mi, 'MultiplexIterator.__init__: chain(*sources) sequentially; [iter_fn(ds) for ds in sources] in parallel',
             f'not every data source is consumed under every strategy'
             f' (sequential chain: {seq}, per-source chains: {per_source},'
             f' sources: {srcs}, multiplex over them: {bool(pm_ok)})', node=mi.node)
  ctx.floor(rule, 2)


def r2(ctx: Ctx):
  rule = 'R-C03-2'
  ctx.rule(rule, 'same operators, same order, one aggregate update per batch:'
           ' the operator chain applies runner.fns in order, each once; the'
           ' aggregate state is updated in __next__ with exactly the batch that'
           ' is delivered, and never inside the (possibly threaded) chain')
  repo = ctx.repo
  init = repo.func(TR, '_RunnerIterator.__init__')
  itf = None
  for s in ast.walk(init.node):
    if isinstance(s, ast.FunctionDef) and s.name == 'iter_fn':
      itf = FuncInfo(init.module, '_RunnerIterator.__init__.iter_fn', s, init.cls)
  if itf is None:
    raise AnalysisError(f'{rule}: iter_fn not found')
  loops = [l for l in walk_no_nested(itf.node) if isinstance(l, ast.For) and unparse(l.iter) == 'self._runner.fns']
  ok = False
  if len(loops) == 1:
    l = loops[0]
    fnv = unparse(l.target)
    calls = [c for c in ast.walk(l) if isinstance(c, ast.Call) and isinstance(c.func, ast.Attribute) and c.func.attr == 'iterate']
    if len(calls) == 1:
      acc = unparse(calls[0].args[0])
      assigned = any(isinstance(s, ast.Assign) and unparse(s.targets[0]) == acc and s.value is calls[0] for s in l.body)
      starts = any(isinstance(s, ast.Assign) and unparse(s.targets[0]) == acc and unparse(s.value) == itf.params()[0]
                   for s in itf.node.body)
      yields = any(isinstance(x, ast.YieldFrom) and unparse(x.value) == acc for x in ast.walk(itf.node))
      skip = any(isinstance(x, (ast.Continue, ast.Break, ast.If)) for s in l.body for x in ast.walk(s))
      ok = assigned and starts and yields and not skip and unparse(calls[0].func.value) == fnv
  if ok:
    ctx.ok(rule, itf, 'result = fn.iterate(result) for fn in runner.fns, then yield from result', loops[0])
  else:
    ctx.fail(rule, itf, 'iter_fn: for fn in self._runner.fns: result = fn.iterate(result); yield from result',
             'the operator chain does not apply every operator once, in order,'
             ' to the output of the previous one', node=itf.node)
  upd_in_chain = any(isinstance(c, ast.Call) and isinstance(c.func, ast.Attribute) and c.func.attr == 'update_state'
                     for c in ast.walk(itf.node))
  nx = repo.func(TR, '_RunnerIterator.__next__')
  g = cfgm.cfg_of(nx.node)
  pull = [n for n in g.nodes if isinstance(n.ast, ast.Assign) and unparse(n.ast.value) == 'super().__next__()']
  upd = [n for n in g.nodes if isinstance(n.ast, ast.Assign) and is_self_attr(n.ast.targets[0], 'agg_state')
         and 'update_state(' in unparse(n.ast.value)]
  ok2 = False
  if len(pull) == 1 and len(upd) == 1 and not upd_in_chain:
    b = unparse(pull[0].ast.targets[0])
    c = upd[0].ast.value
    ok2 = ([unparse(a) for a in c.args] == ['self.agg_state', b]
           and g.dominates(lambda n: n is pull[0], upd[0], cfgm.only_normal) is None
           and upd[0] not in g.reachable([upd[0]], edge_ok=cfgm.only_normal))
    rets = [n for n in g.nodes if isinstance(n.ast, ast.Return)]
    ok2 = ok2 and all(b in unparse(r_.ast) for r_ in rets)
    guard = [cnd for cnd in g.nodes if cnd.kind == 'cond' and unparse(cnd.ast) == 'self._with_agg']
    ok2 = ok2 and bool(guard)
  if ok2:
    ctx.ok(rule, nx, 'one update_state(agg_state, delivered batch) per __next__, in the consumer', upd[0].ast)
  else:
    ctx.fail(rule, nx, '_RunnerIterator.__next__: batch = super().__next__(); agg_state = runner.update_state(agg_state, batch)',
             'the aggregate is not updated exactly once with each delivered'
             ' batch in the consuming thread (updates inside the threaded chain'
             f': {upd_in_chain}): threaded and sequential runs aggregate'
             ' different data', node=nx.node)
  ctx.floor(rule, 2)


def r3(ctx: Ctx):
  rule = 'R-C03-3'
  ctx.rule(rule, 'fusing and chaining keep the operators: _chain_and_fuse ='
           ' self.fns + child.fns (likewise agg_fns, slicers); chain() links'
           ' every child stage in order; flatten_transform lists ancestors'
           ' first; make() builds one runner per stage in that order;'
           ' ChainedRunner.iterate pipes stage i into stage i+1')
  repo = ctx.repo
  cf = repo.func(TR, 'TreeTransform._chain_and_fuse')
  calls = [c for c in walk_no_nested(cf.node) if isinstance(c, ast.Call) and unparse(c.func) == 'self.maybe_replace']
  ch = cf.params()[1]
  want = {'fns': f'self.fns + {ch}.fns', 'agg_fns': f'self.agg_fns + {ch}.agg_fns',
          'slicers': f'self.slicers + {ch}.slicers'}
  got = {k.arg: unparse(k.value) for c in calls for k in c.keywords}
  if got == want:
    ctx.ok(rule, cf, 'fuse: self.X + child.X for fns, agg_fns, slicers', calls[0])
  else:
    ctx.fail(rule, cf, '_chain_and_fuse: fns=self.fns + child.fns, agg_fns=..., slicers=...',
             f'fusing builds {got}: operators of one side are dropped,'
             ' duplicated or reordered, so the fused stage computes something'
             ' else than the chained stages', node=cf.node)
  cn = repo.func(TR, 'TreeTransform.chain')
  loops = [l for l in walk_no_nested(cn.node) if isinstance(l, ast.For)]
  ok = False
  accv = None
  chp = cn.params()[1]
  flat = pat.search(cn.node, f'$ts = {chp}.flatten_transform()')
  for l in loops:
    if flat and unparse(l.iter) == flat[0][1]['ts'] or 'flatten_transform()' in unparse(l.iter):
      m_ = pat.search(l, f'$acc = {unparse(l.target)}.maybe_replace(input_transform=$acc)', nested=True)
      if m_:
        ok = True
        accv = m_[0][1]['acc']
  rets = [x for x in walk_no_nested(cn.node) if isinstance(x, ast.Return)]
  starts_self = accv is not None and pat.has(cn.node, f'{accv} = self')
  if ok and starts_self and any(unparse(r_.value) == accv for r_ in rets) and pat.has(cn.node, f'self._chain_and_fuse({chp})'):
    ctx.ok(rule, cn, 'chain links each child stage onto the previous one; same name fuses', cn.node)
  else:
    ctx.fail(rule, cn, 'chain: for child in child.flatten_transform(): input_transform = child.maybe_replace(input_transform=input_transform)',
             'chaining does not append every stage of the child in order', node=cn.node)
  ft = repo.func(TR, 'TreeTransform.flatten_transform')
  anc = pat.search(ft.node, '$a = self.input_transform.flatten_transform()')
  if anc and pat.has(ft.node, f'return {anc[0][1]["a"]} + [self.maybe_replace(input_transform=None)]'):
    ctx.ok(rule, ft, 'flatten: ancestors first, then self', ft.node)
  else:
    ctx.fail(rule, ft, 'flatten_transform: ancestors + [self]', 'stage order is not ancestors-first', node=ft.node)
  mk = repo.func(TR, 'TreeTransform.make')
  fl = pat.search(mk.node, '$ts = self.flatten_transform()')
  tsv = fl[0][1]['ts'] if fl else '_'
  loop_ok = False
  rsv = '_'
  for l in walk_no_nested(mk.node):
    tv_ = None
    if isinstance(l, ast.For) and unparse(l.iter) == tsv:
      tv_ = unparse(l.target)
    elif isinstance(l, ast.For) and unparse(l.iter) == f'enumerate({tsv})' and isinstance(
        l.target, ast.Tuple) and len(l.target.elts) == 2:
      tv_ = unparse(l.target.elts[1])
    if tv_ is not None:
      a_ = pat.search(l, f'$r = TransformRunner.from_transform({tv_}, ___)', nested=True)
      if a_:
        b2 = pat.search(l, f'$rs.append({a_[0][1]["r"]})', nested=True)
        if b2:
          loop_ok, rsv = True, b2[0][1]['rs']
  if loop_ok and fl and pat.has(mk.node, f'return ChainedRunner({rsv})'):
    ctx.ok(rule, mk, 'make: one runner per flattened stage, in order', mk.node)
  else:
    ctx.fail(rule, mk, 'make: runners = [TransformRunner.from_transform(t) for t in self.flatten_transform()]',
             'make() does not build one runner per stage in stage order', node=mk.node)
  it = repo.func(TR, 'ChainedRunner.iterate')
  loops = [l for l in walk_no_nested(it.node) if isinstance(l, ast.For) and unparse(l.iter) == 'self._runners']
  ok = False
  if len(loops) == 1:
    l = loops[0]
    rv = unparse(l.target)
    asg = [s for s in l.body if isinstance(s, ast.Assign) and isinstance(s.value, ast.Call)
           and unparse(s.value.func) == f'{rv}.iterate']
    if len(asg) == 1:
      acc = unparse(asg[0].targets[0])
      ok = (asg[0].value.args and unparse(asg[0].value.args[0]) == acc
            and any(isinstance(s, ast.Expr) and pat.match(f'$its.append({acc})', s.value) is not None for s in l.body))
  if ok:
    ctx.ok(rule, it, 'iterator = r.iterate(iterator, ...) for r in runners', loops[0])
  else:
    ctx.fail(rule, it, 'ChainedRunner.iterate: iterator = r.iterate(iterator, ...) for r in self._runners',
             'stages are not piped one into the next in order', node=it.node)
  ctx.floor(rule, 5)


def r4(ctx: Ctx):
  rule = 'R-C03-4'
  ctx.rule(rule, 'the chained iterator draws from the last stage and reports'
           ' the aggregate state/result of ALL aggregating stages; the'
           ' in-process stage runner feeds its input queue through the same'
           ' runner into its result queue')
  repo = ctx.repo
  nx = repo.func(TR, '_ChainedRunnerIterator.__next__')
  if pat.has(nx.node, 'next(self._iterators[-1])') and pat.has(nx.node, 'AggregateResult($r, agg_state=self.agg_state)'):
    ctx.ok(rule, nx, 'next(last stage); return value = AggregateResult(all stages)', nx.node)
  else:
    ctx.fail(rule, nx, '_ChainedRunnerIterator.__next__: next(self._iterators[-1]); StopIteration(AggregateResult(...))',
             'the chained iterator does not pull through the last stage or does'
             ' not return the combined aggregate', node=nx.node)
  for prop in ('agg_state', 'agg_result'):
    f = repo.func(TR, f'_ChainedRunnerIterator.{prop}')
    t = unparse(f.node)
    src = pat.search(f.node, '$its = self.named_iterators(agg_only=True)')
    ok = bool(src) and pat.has(f.node, f'($i.{prop}.items() for $i in {src[0][1]["its"]}.values())') and 'chain.from_iterable' in t
    if ok:
      ctx.ok(rule, f, f'{prop}: union over every aggregating stage', f.node)
    else:
      ctx.fail(rule, f, f'_ChainedRunnerIterator.{prop}: union of it.{prop} over all aggregating stages',
               f'{prop} of a chained run does not include every stage', node=f.node)
  st = repo.func(ORCH, '_async_run_single_stage')
  ip = None
  for s in ast.walk(st.node):
    if isinstance(s, ast.FunctionDef) and s.name == 'iterate_in_process':
      ip = FuncInfo(st.module, '_async_run_single_stage.iterate_in_process', s)
  if ip is None:
    raise AnalysisError(f'{rule}: iterate_in_process not found')
  a_ = pat.search(ip.node, '$i = iter(input_queue)', nested=True)
  b_ = pat.search(ip.node, '$it = transform.make().iterate($$src, ___)', nested=True)
  ok = bool(a_) and bool(b_) and unparse(b_[0][0].value.args[0]) == a_[0][1]['i'] and pat.has(
      ip.node, f'$q.enqueue_from_iterator({b_[0][1]["it"]})', nested=True)
  if ok:
    ctx.ok(rule, ip, 'in-process stage: make().iterate(iter(input_queue)) -> result_q', ip.node)
  else:
    ctx.fail(rule, ip, 'iterate_in_process: result_q.enqueue_from_iterator(transform.make().iterate(iter(input_queue)))',
             'the in-process stage runner does not run the same pipeline over'
             ' its input queue', node=ip.node)
  ctx.floor(rule, 4)


ONEPASS_SCOPE = ('chainables.transform', 'chainables.orchestrate', 'chainables.tree_fns',
                 'chainables.courier_worker', 'aggregates.base', 'utils.iter_utils', 'chainables.io')


def r6(ctx: Ctx, scope=ONEPASS_SCOPE, rule='R-C03-6', floor=20):
  ctx.rule(rule, 'single-pass discipline: a one-shot iterable (generator object,'
           ' map/zip/filter/iter object, elements of a list of generators, a'
           ' parameter typed Iterable/Iterator) is never consumed inside a'
           ' loop or comprehension it was created outside of, unless it was'
           ' materialised (list/tuple) or wrapped in the shared thread-safe'
           ' iterator first — a second stage/aggregate/shard would silently'
           ' see an empty stream (states streamed from shards, slices shared'
           ' between aggregates)')
  from mlmverif.onepass import OnePass
  op = OnePass(ctx.repo)
  n = 0
  for mod in scope:
    mi = ctx.repo.module(mod)
    fns = list(mi.functions.values()) + [m for c in mi.classes.values() for m in c.methods.values()]
    for fi in fns:
      todo = [fi]
      for s_ in ast.walk(fi.node):
        if s_ is not fi.node and isinstance(s_, (ast.FunctionDef, ast.AsyncFunctionDef)):
          todo.append(FuncInfo(fi.module, f'{fi.qualname}.{s_.name}', s_, fi.cls))
      for f in todo:
        before = op.analysed_sources
        res = op.analyse(f)
        if op.analysed_sources == before:
          continue
        n += 1
        if not res:
          ctx.ok(rule, f, f'{f.qualname}: one-shot iterables consumed once', f.node)
        for node, msg in res:
          ctx.fail(rule, f, f'{f.qualname}: one-shot iterable consumed once', msg, node=node)
  ctx.floor(rule, floor, n)


def r7(ctx: Ctx, rule='R-C03-7'):
  ctx.rule(rule, 'a chain hands every stage the COMBINED aggregation state:'
           ' each TransformRunner method that ChainedRunner calls with its own'
           ' state argument for every aggregating stage must tolerate entries'
           ' of other stages — inside its loop over the state\'s items a lookup'
           ' `self.agg_fns[<key>.metrics]` is guarded by a membership test (or'
           ' is a `.get` + test), as its siblings merge_states and the'
           ' iterator\'s state filter already are; otherwise a chain with two'
           ' aggregating stages raises KeyError instead of reporting a result')
  repo = ctx.repo
  ch = repo.cls(TR, 'ChainedRunner')
  tr = repo.cls(TR, 'TransformRunner')
  fanout: dict[str, ast.AST] = {}
  for m in ch.methods.values():
    ps = set(m.params()[1:])
    for comp in ast.walk(m.node):
      if not isinstance(comp, (ast.GeneratorExp, ast.ListComp, ast.DictComp, ast.SetComp, ast.For)):
        continue
      it = comp.generators[0].iter if not isinstance(comp, ast.For) else comp.iter
      tgt = comp.generators[0].target if not isinstance(comp, ast.For) else comp.target
      if 'named_aggs' not in unparse(it) and '_runners' not in unparse(it):
        continue
      if not isinstance(tgt, ast.Name):
        continue
      for c in ast.walk(comp):
        if isinstance(c, ast.Call) and isinstance(c.func, ast.Attribute) and isinstance(
            c.func.value, ast.Name) and c.func.value.id == tgt.id and c.args and isinstance(
                c.args[0], ast.Name) and c.args[0].id in ps and c.func.attr in tr.methods:
          fanout[c.func.attr] = c
  if not fanout:
    raise AnalysisError(f'{rule}: ChainedRunner does not fan a state out to its stages')
  n = 0
  for name, site in sorted(fanout.items()):
    fi = tr.methods[name]
    sp = fi.params()[1] if len(fi.params()) > 1 else None
    loops = [l for l in ast.walk(fi.node) if isinstance(l, ast.For) and isinstance(l.iter, ast.Call)
             and isinstance(l.iter.func, ast.Attribute) and l.iter.func.attr == 'items'
             and isinstance(l.target, ast.Tuple) and l.target.elts and isinstance(l.target.elts[0], ast.Name)]
    for l in loops:
      kv = l.target.elts[0].id
      for x in ast.walk(l):
        if isinstance(x, ast.Subscript) and unparse(x.value) == 'self.agg_fns' and unparse(x.slice) == f'{kv}.metrics':
          n += 1
          from mlmverif.core import parent_map
          pm = parent_map(l)
          guarded = False
          q = x
          while q is not l and q is not None:
            par = pm.get(q)
            if isinstance(par, ast.If) and f'{kv}.metrics' in unparse(par.test) and 'agg_fns' in unparse(par.test) and (
                not any(y is x for y in ast.walk(par.test))):
              guarded = True
            q = par
          # `if key.metrics not in self.agg_fns: continue` earlier in the body
          for st in l.body:
            if isinstance(st, ast.If) and f'{kv}.metrics not in self.agg_fns' in unparse(st.test) and any(
                isinstance(b, ast.Continue) for b in st.body) and st.lineno < x.lineno:
              guarded = True
          if guarded:
            ctx.ok(rule, fi, f'TransformRunner.{name}: lookup by {kv}.metrics guarded by membership', x)
          else:
            ctx.fail(rule, fi, f'TransformRunner.{name}: self.agg_fns[{kv}.metrics] only for the runner\'s own metrics',
                     f'ChainedRunner passes the combined state of all stages to'
                     f' TransformRunner.{name} (`{unparse(site)[:40]}`), which indexes'
                     f' `self.agg_fns[{kv}.metrics]` for every entry: an entry of another'
                     ' aggregating stage raises KeyError, so a chain of named stages'
                     ' with two aggregates has no result where the fused pipeline'
                     ' has one (and the distributed merge crashes)', node=x)
        if isinstance(x, ast.Call) and unparse(x.func) == 'self.agg_fns.get':
          n += 1
          ctx.ok(rule, fi, f'TransformRunner.{name}: tolerant lookup `{unparse(x)[:40]}`', x)
  ctx.floor(rule, 2, n)


def r8(ctx: Ctx):
  rule = 'R-C03-8'
  ctx.rule(rule, '"as a chain of named stages ... over any number of shards":'
           ' from_transform rejects a shard configuration for a stage without a'
           ' (recoverable) data source, so TreeTransform.make — which builds one'
           ' runner per flattened stage — must pass the shard configuration'
           ' only to stages that own a data source; passed unconditionally to'
           ' every stage a chained pipeline cannot be sharded at all')
  repo = ctx.repo
  ft = repo.func(TR, 'TransformRunner.from_transform')
  rejects = any(isinstance(x, ast.Raise) for x in ast.walk(ft.node)) and 'input_state' in ft.params()
  if not rejects:
    raise AnalysisError(f'{rule}: from_transform no longer takes/rejects input_state')
  mk = repo.func(TR, 'TreeTransform.make')
  sp = 'shard' if 'shard' in mk.params() else None
  if sp is None:
    raise AnalysisError(f'{rule}: TreeTransform.make has no shard parameter')
  calls = [c for c in ast.walk(mk.node) if isinstance(c, ast.Call) and unparse(c.func).endswith('from_transform')]
  if not calls:
    raise AnalysisError(f'{rule}: make() does not call from_transform')
  n = 0
  from mlmverif.core import parent_map
  pm = parent_map(mk.node)
  for c in calls:
    n += 1
    v = kwarg(c, 'input_state')
    in_loop = False
    q = c
    while q is not mk.node and q is not None:
      q = pm.get(q)
      if isinstance(q, (ast.For, ast.ListComp, ast.GeneratorExp)):
        in_loop = True
    cond = v is not None and (isinstance(v, ast.IfExp) or (isinstance(v, ast.Name) and v.id != sp))
    if v is None or not in_loop or cond:
      if isinstance(v, ast.Name) and v.id != sp:
        # a local: must be derived conditionally from the shard parameter
        defs = [x for x in ast.walk(mk.node) if isinstance(x, ast.Assign) and any(
            isinstance(t, ast.Name) and t.id == v.id for t in x.targets)]
        if not any(isinstance(d.value, ast.IfExp) or pm.get(d).__class__ is ast.If for d in defs):
          cond = False
      if v is None or not in_loop or cond:
        ctx.ok(rule, mk, f'shard configuration passed selectively: input_state={unparse(v) if v is not None else None}', c)
        continue
    ctx.fail(rule, mk, 'TreeTransform.make: input_state=<shard> only for the stage that owns the data source',
             f'make() passes `input_state={unparse(v)}` to from_transform for EVERY'
             ' flattened stage; the stages after the first have no data source'
             ' and from_transform raises TypeError for them: a chain of named'
             ' stages cannot be run over shards although the fused pipeline can',
             node=c)
  ctx.floor(rule, 1, n)


def r13(ctx: Ctx):
  rule = 'R-C03-13'
  ctx.rule(rule, '"as one fused stage or as a chain of named stages": the aggregation state a chain exports is the UNION of its'
           ' stage states, later stages overwriting earlier ones (dict(chain(items...))) — so the stage states must be'
           ' key-disjoint: every stage iterator keeps only the entries of its OWN aggregates (the state it is handed is'
           ' filtered by membership in its runner\'s agg_fns), or the union itself restricts each stage to its own keys.'
           ' A stage that also carries the (initial) entries of other stages overwrites their up-to-date states in the'
           ' exported state: the merged result of sharded runs loses the earlier stages\' aggregates')
  repo = ctx.repo
  ci = repo.cls(TR, '_RunnerIterator')
  init = ci.methods.get('__init__')
  if init is None:
    raise AnalysisError('_RunnerIterator.__init__ not found')
  stores = [x for x in walk_no_nested(init.node) if isinstance(x, ast.Assign) and any(is_self_attr(t, 'agg_state') for t in x.targets)]
  if not stores:
    raise AnalysisError('_RunnerIterator.__init__ does not set agg_state')

  def own_filter(e):
    for c in ast.walk(e):
      if isinstance(c, (ast.DictComp, ast.GeneratorExp, ast.ListComp)):
        for g_ in c.generators:
          for cond in g_.ifs:
            if any(isinstance(y, ast.Compare) and any(isinstance(o, ast.In) for o in y.ops)
                   and 'agg_fns' in unparse(y.comparators[0]) for y in ast.walk(cond)):
              return True
    return False

  union = repo.func(TR, '_ChainedRunnerIterator.agg_state')
  union_filters = own_filter(union.node)
  for st_ in stores:
    what = '_RunnerIterator: a stage keeps only the aggregation entries of its own aggregates'
    if own_filter(st_.value) or union_filters:
      ctx.ok(rule, init, what, st_)
    else:
      ctx.fail(rule, init, what,
               f'`{unparse(st_)[:80]}` keeps every entry of the state it is handed, and _ChainedRunnerIterator.agg_state unions'
               ' the stage states with later stages winning: a later stage\'s stale copy of an earlier stage\'s entry'
               ' overwrites the up-to-date one in the exported state (sharded runs merge that state)', node=st_)
  ctx.floor(rule, 1)


def r15(ctx: Ctx):
  rule = 'R-C03-15'
  ctx.rule(rule, '"as one fused stage or as a chain ... in process or with any number of worker threads": an INPUT STREAM handed'
           ' to the iterator helpers is tested for presence with `is None`, never by truth. A pipeline iterator defines'
           ' __len__ (0 when its total is unknown), so it is falsy: `iter_fn(inputs) if inputs else iter_fn()` starts the'
           ' stage\'s function chain WITHOUT its input — a num_threads=0 stage fed by another pipeline emits nothing and'
           ' aggregates nothing, while the threaded strategies (which wrap the input) give the full result')
  from mlmverif.props.c17 import _truth_positions
  repo = ctx.repo
  n = 0
  for mod in ('utils.iter_utils', 'chainables.transform'):
    mi = repo.module(mod)
    fns = list(mi.functions.values()) + [m_ for c in mi.classes.values() for m_ in c.methods.values()]
    for fi in fns:
      a = fi.node.args
      pos = a.posonlyargs + a.args
      defaults = dict(zip([x.arg for x in pos[len(pos) - len(a.defaults):]], a.defaults))
      defaults.update({x.arg: d for x, d in zip(a.kwonlyargs, a.kw_defaults) if d is not None})
      streams = {x.arg for x in pos + a.kwonlyargs if x.annotation is not None and any(
          k in unparse(x.annotation) for k in ('Iterable', 'Iterator')) and 'Callable' not in unparse(x.annotation) and (
              'None' in unparse(x.annotation) or (isinstance(defaults.get(x.arg), ast.Constant) and defaults[x.arg].value is None))}
      if not streams:
        continue
      n += 1
      bad = None
      for t in _truth_positions(fi.node):
        if isinstance(t, ast.Name) and t.id in streams:
          bad = bad or t
      what = f'{fi.qualname}: optional input streams {sorted(streams)} are tested with `is None`'
      if bad is None:
        ctx.ok(rule, fi, what, fi.node)
      else:
        ctx.fail(rule, fi, what,
                 f'`{bad.id}` (line {bad.lineno}) is used as a truth value in {fi.qualname}: an iterator that defines __len__'
                 ' (a pipeline iterator reports 0 when its total is unknown) or __bool__ is falsy although it yields'
                 ' elements — the stage then runs without its input and silently produces nothing', node=bad)
  ctx.floor(rule, 2, n)


def r17(ctx: Ctx):
  rule = 'R-C03-17'
  ctx.rule(rule, '"as a chain of named stages ... the same aggregate results": a result that is assembled over the stages of a chain'
           ' is CARRIED through the loop. In transform.py a name that is bound to a fresh container before a `for` loop'
           ' (`result = tree.TreeMapView()`) and re-bound inside it to an update of a container is re-bound to an update of'
           ' ITSELF (the right-hand side mentions the name, or it is an augmented assignment). `result ='
           ' <fresh container>.copy_and_update(<this stage>)` keeps the last stage only: the merged-shard path of a chain'
           ' with two aggregating stages reports one of them')
  mi = ctx.repo.module(TR)
  fns = list(mi.functions.values()) + [m_ for c in mi.classes.values() for m_ in c.methods.values()]
  n = 0
  def fresh(e):
    return isinstance(e, (ast.Dict, ast.List)) and not (e.keys if isinstance(e, ast.Dict) else e.elts) or (
        isinstance(e, ast.Call) and not e.args and not e.keywords and unparse(e.func).split('.')[-1] in (
            'TreeMapView', 'dict', 'list', 'OrderedDict', 'defaultdict'))
  for fi in fns:
    body_lists = [x.body for x in ast.walk(fi.node) if hasattr(x, 'body') and isinstance(getattr(x, 'body'), list)]
    for stmts in body_lists:
      for i, st in enumerate(stmts):
        if not (isinstance(st, ast.Assign) and len(st.targets) == 1 and isinstance(st.targets[0], ast.Name) and fresh(st.value)):
          continue
        v = st.targets[0].id
        for later in stmts[i + 1:]:
          if not isinstance(later, ast.For):
            continue
          for x in ast.walk(later):
            if isinstance(x, ast.Assign) and any(isinstance(t, ast.Name) and t.id == v for t in x.targets) and isinstance(x.value, ast.Call):
              callee = x.value.func
              if not (isinstance(callee, ast.Attribute) and ('update' in callee.attr or 'set' in callee.attr or 'merge' in callee.attr)):
                continue
              n += 1
              carried = any(isinstance(y, ast.Name) and y.id == v for y in ast.walk(x.value))
              what = f'{fi.qualname}: `{v}` assembled over the loop is carried from one iteration to the next'
              if carried:
                ctx.ok(rule, fi, what, x)
              else:
                ctx.fail(rule, fi, what,
                         f'`{unparse(x)[:80]}` inside the loop re-binds `{v}` to an update of a FRESH container: what the earlier'
                         ' iterations (stages) contributed is dropped, only the last one is reported', node=x)
  ctx.info(rule, fns[0], f'{n} loop-carried assembly site(s) examined')
  ctx.floor(rule, 0, n)


def r19(ctx: Ctx):
  rule = 'R-C03-19'
  ctx.rule(rule, '"over any number of shards whose states are merged": whether a metric already HAS a merged state is a question of'
           ' membership, not of the state\'s truth value. In the merge_states methods of transform.py a state fetched from the'
           ' running table with `.get(...)` is never used as a truth value (`if prev := table.get(key):`): a state that is'
           ' falsy without being neutral (a running max of 0, an empty-looking object) is OVERWRITTEN by the next shard\'s'
           ' state instead of being merged with it')
  from mlmverif.props.c17 import _truth_positions
  mi = ctx.repo.module(TR)
  n = 0
  for ci in mi.classes.values():
    fi = ci.methods.get('merge_states')
    if fi is None:
      continue
    n += 1
    bad = None
    got = {x.targets[0].id for x in ast.walk(fi.node) if isinstance(x, ast.Assign) and len(x.targets) == 1 and isinstance(x.targets[0], ast.Name)
           and isinstance(x.value, ast.Call) and isinstance(x.value.func, ast.Attribute) and x.value.func.attr == 'get'}
    for t in _truth_positions(fi.node):
      if isinstance(t, ast.NamedExpr) and isinstance(t.value, ast.Call) and isinstance(t.value.func, ast.Attribute) and t.value.func.attr == 'get' \
          and 'agg_fns' not in unparse(t.value.func.value):
        bad = t
      if isinstance(t, ast.Name) and t.id in got:
        bad = t
    what = f'{ci.name}.merge_states: "already merged?" is decided by membership, not by the truth of the state'
    if bad is not None:
      ctx.fail(rule, fi, what,
               f'`{unparse(bad)[:60]}` uses the fetched STATE as a truth value: a falsy, non-neutral state (max 0, 0.0, an object with'
               ' len 0) is replaced by the next shard\'s state — the merged result depends on which shard came first', node=bad)
    else:
      ctx.ok(rule, fi, what, fi.node)
  ctx.floor(rule, 2, n)


from mlmverif.selfcheck import B, OK  # noqa: E402

_T = 'chainables/transform.py'
VARIANTS = [
    OK('merged-state-stored-through-a-local', 'chainables/transform.py',
       "          states_by_fn[key] = fn_state\n", "          merged_so_far = fn_state\n          states_by_fn[key] = merged_so_far\n"),
    OK('outputs-view-through-a-local', 'chainables/tree_fns.py',
       "    result = tree.TreeMapView(inputs)\n", "    view = tree.TreeMapView(inputs)\n    result = view\n"),
    OK('put-through-a-local', 'utils/iter_utils.py',
       "          self._put_nowait(value)\n", "          item = value\n          self._put_nowait(item)\n"),
    OK('merged-state-fetched-then-none-tested', 'chainables/transform.py',
       "          if key in states_by_fn:\n            fn_state = agg_fn.merge_states([states_by_fn[key], fn_state])", "          prev_state = states_by_fn.get(key)\n          if prev_state is not None:\n            fn_state = agg_fn.merge_states([prev_state, fn_state])"),
    B('merged-state-tested-by-truth', 'chainables/transform.py',
      "          if key in states_by_fn:\n            fn_state = agg_fn.merge_states([states_by_fn[key], fn_state])", "          if prev_state := states_by_fn.get(key):\n            fn_state = agg_fn.merge_states([prev_state, fn_state])", 'R-C03-19'),
    B('assign-writes-into-the-callers-record', 'chainables/tree_fns.py',
      "      else:\n        result = result.copy_and_set(keys, output)\n    return result.data", "      else:\n        result[keys] = output\n    return result.data", 'R-C03-18'),
    B('chain-result-rebuilt-from-empty-per-stage', 'chainables/transform.py',
      "    it_result = itertools.chain.from_iterable(\n        agg_result.items()\n        for r in self.named_aggs.values()\n        if (agg_result := r.get_result(state))\n    )\n    return tree.TreeMapView().copy_and_update(it_result).data",
      "    result = tree.TreeMapView()\n    for r in self.named_aggs.values():\n      if agg_result := r.get_result(state):\n        result = tree.TreeMapView().copy_and_update(agg_result.items())\n    return result.data", 'R-C03-17'),
    OK('chain-result-assembled-in-a-loop', 'chainables/transform.py',
       "    it_result = itertools.chain.from_iterable(\n        agg_result.items()\n        for r in self.named_aggs.values()\n        if (agg_result := r.get_result(state))\n    )\n    return tree.TreeMapView().copy_and_update(it_result).data",
       "    result = tree.TreeMapView()\n    for r in self.named_aggs.values():\n      if agg_result := r.get_result(state):\n        result = result.copy_and_update(agg_result.items())\n    return result.data"),
    B('chain-forwards-with-result-to-stages', 'chainables/transform.py',
      "      iterator = r.iterate(\n          iterator,\n          with_agg_state=with_agg_state,", "      iterator = r.iterate(\n          iterator,\n          with_result=with_result,\n          with_agg_state=with_agg_state,", 'R-C03-16'),
    B('iterate-fn-input-tested-by-truth', 'utils/iter_utils.py',
      '  return iter_fn(inputs) if inputs is not None else iter_fn()', '  return iter_fn(inputs) if inputs else iter_fn()', 'R-C03-15'),
    B('stage-iterator-keeps-foreign-entries', 'chainables/transform.py',
      '    self.agg_state = {\n        k: v for k, v in state.items() if k.metrics in self._runner.agg_fns\n    }',
      '    self.agg_state = dict(state)', 'R-C03-13'),
    B('every-aggregating-stage-drops-its-batches', 'chainables/orchestrate.py',
      '        aggregate_only=aggregate_only and is_last_stage,', '        aggregate_only=aggregate_only and bool(transform.agg_fns),', 'R-C03-12'),
    OK('last-stage-test-inlined', 'chainables/orchestrate.py',
       '        aggregate_only=aggregate_only and is_last_stage,', '        aggregate_only=aggregate_only and i == len(named_transforms) - 1,'),
    B('revert-shard-only-source-stage', _T,
      'input_state=shard if has_source else None', 'input_state=shard', 'R-C03-8'),
    B('revert-get-result-foreign-keys', _T,
      '      if key.metrics not in self.agg_fns:\n        continue\n      outputs = self.agg_fns[key.metrics].get_result(fn_state)',
      '      outputs = self.agg_fns[key.metrics].get_result(fn_state)', 'R-C03-7'),
    B('merge-states-indexes-foreign-keys', _T,
      '        if agg_fn := self.agg_fns.get(key.metrics):',
      '        if agg_fn := self.agg_fns[key.metrics]:', 'R-C03-7'),
    B('chained-merge-streams-states-to-every-stage', _T,
      '    states = list(states)\n    if strict_states_cnt and len(states) != strict_states_cnt:',
      '    if strict_states_cnt and False:', 'R-C03-6'),
    B('slices-hoisted-as-generators', _T,
      '    for output_key, tree_agg_fn in self.agg_fns.items():\n      try:',
      '    batch_slices = [(slicer, slicer.iterate_and_slice(inputs)) for slicer in self.slicers]\n    for output_key, tree_agg_fn in self.agg_fns.items():\n      for slicer, slices in batch_slices:\n        for slice_key, masks in slices:\n          pass\n      try:',
      'R-C03-6'),
    OK('slices-hoisted-as-lists', _T,
       '    for output_key, tree_agg_fn in self.agg_fns.items():\n      try:',
       '    batch_slices = [(slicer, list(slicer.iterate_and_slice(inputs))) for slicer in self.slicers]\n    for output_key, tree_agg_fn in self.agg_fns.items():\n      for slicer, slices in batch_slices:\n        for slice_key, masks in slices:\n          pass\n      try:'),
    B('thread-shards-skip-last', _T,
      '          for i in range(self.num_threads)\n      ]',
      '          for i in range(self.num_threads - 1)\n      ]', 'R-C03-1'),
    B('shard-count-mismatch', _T, '          data_source.shard(i, self.num_threads)\n',
      '          data_source.shard(i, self.num_threads + 1)\n', 'R-C03-1'),
    B('chain-skips-first-op', _T, '      for fn in self._runner.fns:\n',
      '      for fn in self._runner.fns[1:]:\n', 'R-C03-2'),
    B('agg-updated-with-none', _T,
      '              self.agg_state, batch_output\n',
      '              self.agg_state, None\n', 'R-C03-2'),
    B('fuse-drops-child-slicers', _T, '        slicers=self.slicers + child.slicers,',
      '        slicers=self.slicers,', 'R-C03-3'),
    B('fuse-reorders', _T, '        fns=self.fns + child.fns,', '        fns=child.fns + self.fns,',
      'R-C03-3'),
    B('chained-draws-first-stage', _T, '      batch_output = next(self._iterators[-1])',
      '      batch_output = next(self._iterators[0])', 'R-C03-4'),
]
