"""C05 — failures and stop requests propagate through queues without hanging.

Structural part: every transition into failed/stopped wakes both sides, the
failure is recorded before the stop is announced, producer waits re-check the
stop flag, starved timed waits raise TimeoutError, and the consumer-side
iterators stop the queue and the pool before re-raising.
"""
from __future__ import annotations

import ast

from mlmverif import cfg as cfgm
from mlmverif.core import (AnalysisError, Ctx, FuncInfo, is_self_attr, unparse,
                           walk_no_nested)
from mlmverif.props._queue import DEQ, ENQ, QCLS, QMOD, STATES, model
from mlmverif.props.c04 import done_test
from mlmverif.sync import calls_method, mentions_attr, node_of

EXPLANATION = (
    'Static CFG/lockset analysis of IteratorQueue, AsyncIteratorQueue,'
    ' MultiplexIterator and DequeueIterator. Decides: every store of a'
    ' failure into _exception is followed on all paths by notify_all on BOTH'
    ' conditions (blocked sibling producers included); the failure is stored'
    ' before the stop is announced and re-raised after; enqueue_done is true'
    ' whenever a failure is recorded; producer waits are bracketed by re-checks'
    ' of the stop flag; a false timed wait reaches only raise TimeoutError;'
    ' maybe_stop wakes both sides unconditionally; consumer iterators call'
    ' maybe_stop (queue + pool shutdown) on every exceptional path. NOT'
    ' decided: which exception object each consumer observes, non-duplication'
    ' of queued elements under interleavings.'
)
ASSUMPTIONS = [
    'A producer blocked in put() waits on the enqueue condition; only'
    ' notify/notify_all on that condition or a timeout wakes it.',
]


def run(ctx: Ctx):
  m = model(ctx)
  for r in (r16, r1, r2, r3, r4, r5, r7, r8, r9, r10, r11, r13, r15):
    ctx.guard(r, m)
  from mlmverif.props import c04
  from mlmverif.props import c13
  ctx.include('R-C05-17', '"all other producers stop and return" for STACKED streams: the queue a stage reads from is linked to the'
              ' stage\'s result queue whatever created it — piter links and, on a failed set-up, stops the very iterable it'
              ' hands to piter_fn (R-C13-16), also when that is a caller-supplied upstream queue', c13.r16, min_instances=1)
  ctx.include('R-C05-18', '"every consumer observes that exception (never a clean end-of-stream)": the multiplexing queue knows how many'
              ' producers to expect BEFORE any of them runs (max_enqueuer=len(inputs), R-C13-2) — counting them as they'
              ' start lets the stream end cleanly before a late-started producer has failed', c13.r2, min_instances=1)
  ctx.include('R-C05-14', '"all other producers stop and return": the producers FEEDING the failed queue\'s own producers (the input'
              ' queue of a stacked stream) are stopped through the link — every recorded failure runs the loop over the linked'
              ' queues, and the link method registers its argument before it tests whether the queue is already over'
              ' (R-C13-12); with test-then-register a failure between the two leaves the feeders blocked in put()', c13.r12,
              min_instances=4)
  ctx.include('R-C05-6', '"never an indefinite wait": the queue\'s monitor'
              ' discipline on the stop/failure paths — CV discipline (R-C04-1),'
              ' lock balance (R-C04-3), lock-order acyclicity and no wait under'
              ' a second lock (R-C04-4), re-test after a temporary release'
              ' (R-C04-9), atomic test-then-wait (R-C04-14); end-of-stream raises'
              ' the recorded failure and marks the queue exhausted (R-C04-6)',
              _c04_shared, m, min_instances=15)
  ctx.include('R-C05-12', '"with a timeout configured a starved get or put raises a timeout error instead of blocking" for BOTH'
              ' buffer kinds: every handler that turns the buffer\'s "no room / nothing there" signal into a wait names the'
              ' queue.* and the asyncio.* exception of THAT operation (R-C04-16; module-level tuple aliases are expanded) —'
              ' a put() that does not recognise asyncio.QueueFull raises it at once instead of waiting, and the producer'
              ' records it as a failure of the stream', c04.r16, m, min_instances=4)


def _c04_shared(sub, m):
  from mlmverif.props import c04
  for r in (c04.r1, c04.r3, c04.r4, c04.r6, c04.r9, c04.r14):
    sub.guard(r, m)


def _explicit_only(n, mm, lab):
  """Normal edges plus exception edges that leave explicit raise statements."""
  if lab == 'close':
    return False
  if lab == 'exc':
    return isinstance(n.ast, ast.Raise)
  return True


def _exc_stores(fi: FuncInfo):
  g = cfgm.cfg_of(fi.node)
  out = []
  for n in g.nodes:
    if n.kind != 'stmt' or not isinstance(n.ast, (ast.Assign, ast.AnnAssign)):
      continue
    tg = n.ast.targets if isinstance(n.ast, ast.Assign) else [n.ast.target]
    for t in tg:
      if is_self_attr(t, '_exception'):
        v = n.ast.value
        if isinstance(v, ast.Constant) and v.value is None:
          continue
        out.append(n)
  return g, out


def r1(ctx: Ctx, m):
  rule = 'R-C05-1'
  ctx.rule(rule, 'every store of a failure into _exception is followed, on'
           ' every path to an exit, by notify_all on the dequeue AND on the'
           ' enqueue condition (other producers may be blocked in put on a'
           ' full buffer); enqueue_done is true whenever _exception is set')
  # sub-rule: enqueue_done returns True first when _exception is set
  ed = m.method('enqueue_done')
  g = cfgm.cfg_of(ed.node)
  first_true = False
  for n in g.nodes:
    if n.kind == 'cond' and any(is_self_attr(x, '_exception') or is_self_attr(x, 'exception')
                                for x in cfgm.node_exprs(n)):
      t = [s for s, lab in n.succ if lab == 'true']
      if t and isinstance(t[0].ast, ast.Return) and isinstance(
          t[0].ast.value, ast.Constant) and t[0].ast.value.value is True:
        # dominates every other return
        others = [r for r in g.nodes if isinstance(r.ast, ast.Return) and r is not t[0]]
        if all(g.dominates(lambda x: x is n, r) is None for r in others):
          first_true = True
  if first_true:
    ctx.ok(rule, ed, 'enqueue_done: _exception set => True', ed.node)
  else:
    ctx.fail(rule, ed, 'enqueue_done: if self._exception: return True',
             'enqueue_done no longer reports done as soon as a failure is'
             ' recorded: producers keep enqueueing and consumers see a clean'
             ' end-of-stream race', node=ed.node)
  n_sites = 0
  for fi in m.methods():
    if fi.name == '__init__':
      continue
    g, stores = _exc_stores(fi)
    for st in stores:
      n_sites += 1
      for lock, side in ((DEQ, 'dequeue'), (ENQ, 'enqueue')):
        through = lambda n, fi=fi, lock=lock: m.sync.node_notifies(
            n, fi, lock, need_all=True, assume_true=('enqueue_done',))
        w = g.must_pass(st, [g.exit_ret, g.exit_exc], through, _explicit_only)
        if w is not None:
          extra = ''
          if side == 'enqueue':
            extra = (' — sibling producers blocked in put() on a full buffer'
                     ' are never woken and hang')
          ctx.fail(rule, fi, f'{unparse(st.ast)} => notify_all {side}',
                   f'failure recorded in _exception but a path reaches the'
                   f' exit without notify_all on the {side} condition' + extra,
                   node=st.ast, witness=w)
        else:
          ctx.ok(rule, fi, f'{unparse(st.ast)} => notify_all {side}', st.ast)
  if n_sites < 2:
    raise AnalysisError(f'{rule}: found {n_sites} stores to _exception (floor 2)')
  ctx.floor(rule, 4)


def r2(ctx: Ctx, m):
  rule = 'R-C05-2'
  ctx.rule(rule, 'error path order in both enqueue loops: the failure is'
           ' stored before _stop_enqueue is called and the exception is'
           ' re-raised (or returned under ignore_error) only afterwards')
  n = 0
  for name in ('enqueue_from_iterator', 'async_enqueue_from_iterator'):
    fi = None
    for c in m.classes:
      if name in c.methods:
        fi = c.methods[name]
    if fi is None:
      continue
    g = cfgm.cfg_of(fi.node)
    handlers = [h for h in g.nodes if h.kind == 'handler' and h.exc_types
                and 'Exception' in h.exc_types]
    # a try/except INSIDE a failure handler (guarding the decoration of the caught exception) is not a producer handler
    inner = {id(x) for h in handlers for b in h.ast.body for x in ast.walk(b) if isinstance(x, ast.ExceptHandler)}
    handlers = [h for h in handlers if id(h.ast) not in inner]
    if not handlers:
      ctx.fail(rule, fi, f'{name}: except Exception handler',
               'the enqueue loop no longer catches producer failures: the'
               ' exception would kill the thread without being delivered',
               node=fi.node)
      continue
    for h in handlers:
      n += 1
      hname = h.ast.name
      body_nodes = g.reachable([h], edge_ok=lambda a, b, l: l not in ('exc', 'close', 'cont', 'brk', 'ret'),
                               include_src=True)
      stores = [x for x in body_nodes if x.kind == 'stmt' and isinstance(x.ast, ast.Assign)
                and any(is_self_attr(t, '_exception') for t in x.ast.targets)]
      stops = [x for x in body_nodes if calls_method(x, '_stop_enqueue')]
      leaves = [x for x in body_nodes if isinstance(x.ast, (ast.Raise, ast.Return))]
      problem = None
      if not stores:
        problem = 'the handler does not record the failure in _exception'
      elif hname and not any(isinstance(s.ast.value, ast.Name) and s.ast.value.id == hname
                             for s in stores):
        problem = 'the handler stores something other than the caught exception'
      elif not stops:
        problem = 'the handler does not call _stop_enqueue()'
      else:
        st = stores[0]
        for sp in stops:
          if g.must_pass(h, [sp], lambda x: x is st, cfgm.only_normal) is not None:
            problem = ('_stop_enqueue() can run before the failure is stored:'
                       ' consumers may observe a clean end-of-stream')
        for lv in leaves:
          if g.must_pass(st, [lv], lambda x: x in stops, cfgm.only_normal) is not None \
             and lv in g.reachable([st], edge_ok=cfgm.only_normal):
            problem = problem or ('the handler leaves (raise/return) after'
                                  ' storing the failure without announcing'
                                  ' the stop')
        if not any(isinstance(lv.ast, ast.Raise) for lv in leaves):
          problem = problem or 'the handler never re-raises the failure'
      if problem:
        ctx.fail(rule, fi, f'{name}: error handler order', problem, node=h.ast)
      else:
        ctx.ok(rule, fi, f'{name}: store -> _stop_enqueue -> raise', h.ast)
  ctx.floor(rule, 2)


def r3(ctx: Ctx, m):
  rule = 'R-C05-3'
  ctx.rule(rule, 'stop flag around producer waits: every cycle through a wait'
           ' on the enqueue condition and every cycle of the enqueue loop'
           ' through put() passes a test of enqueue_done')
  fi = m.method('put')
  g = cfgm.cfg_of(fi.node)
  waits = [n for n in g.nodes if any(
      isinstance(x, ast.Call) and isinstance(x.func, ast.Attribute)
      and x.func.attr == 'wait' and m.eng.lock_id(x.func.value, fi, {}) == ENQ
      for x in cfgm.node_exprs(n))]
  if not waits:
    raise AnalysisError(f'{rule}: no wait on the enqueue condition in put()')
  for wn in waits:
    reach = g.reachable([wn], avoid=lambda n: done_test(fi, n), edge_ok=cfgm.no_close)
    if wn in reach:
      ctx.fail(rule, fi, wn.ast,
               'a producer can go from one wait on the enqueue condition to'
               ' the next without re-checking enqueue_done: after a stop it'
               ' blocks again forever', witness=g.path_to(reach, wn))
    else:
      ctx.ok(rule, fi, f'{wn.text()} re-checks enqueue_done', wn.ast)
    # the flag is also checked between the failed attempt and the wait
    pn = [n for n in g.nodes if calls_method(n, 'put_nowait')]
    for p in pn:
      r2_ = g.reachable([p], avoid=lambda n: done_test(fi, n), edge_ok=cfgm.no_close)
      if wn in r2_:
        ctx.fail(rule, fi, f'{wn.text()} after failed put_nowait',
                 'between the failed put_nowait and the wait the stop flag is'
                 ' not re-checked: a stop that arrived meanwhile is missed',
                 node=wn.ast, witness=g.path_to(r2_, wn))
      else:
        ctx.ok(rule, fi, 'enqueue_done re-checked between Full and wait', wn.ast)
  # the sync entry and its async sibling owe the same stop test
  for name, putn in (('enqueue_from_iterator', 'put'), ('async_enqueue_from_iterator', 'async_put')):
    fi = next((f_ for f_ in m.methods() if f_.name == name), None)
    if fi is None:
      raise AnalysisError(f'{rule}: producer entry {name} not found in the queue family')
    g = cfgm.cfg_of(fi.node)
    puts = [n for n in g.nodes if calls_method(n, putn)]
    if not puts:
      raise AnalysisError(f'{rule}: {name} no longer calls self.{putn}')
    for p in puts:
      reach = g.reachable([p], avoid=lambda n: done_test(fi, n), edge_ok=cfgm.no_close)
      if p in reach:
        ctx.fail(rule, fi, p.ast,
                 'the enqueue loop can iterate without testing enqueue_done:'
                 ' after a failure/stop the producer keeps pulling elements',
                 witness=g.path_to(reach, p))
      else:
        ctx.ok(rule, fi, f'{name}: loop tests enqueue_done', p.ast)
  ctx.floor(rule, 4)


def r4(ctx: Ctx, m):
  rule = 'R-C05-4'
  ctx.rule(rule, 'timed waits: every Condition.wait passes the configured'
           ' timeout and its false (timed-out) outcome reaches only'
           ' `raise TimeoutError` — except over `if <batch>:` taken true, where'
           ' a non-empty batch already dequeued is handed over (not starved)')
  cnt = 0
  for fi in m.methods():
    g = cfgm.cfg_of(fi.node)
    for n in g.nodes:
      wc = [x for x in cfgm.node_exprs(n) if isinstance(x, ast.Call)
            and isinstance(x.func, ast.Attribute) and x.func.attr == 'wait'
            and m.eng.lock_id(x.func.value, fi, {}) in (DEQ, ENQ)]
      if not wc:
        continue
      cnt += 1
      c = wc[0]
      targ = [unparse(a) for a in c.args] + [unparse(k.value) for k in c.keywords
                                            if k.arg in ('timeout', None)]
      if not (c.args or any(k.arg == 'timeout' for k in c.keywords)):
        ctx.fail(rule, fi, c, 'wait() is called without the configured timeout:'
                 ' a starved get/put blocks forever instead of raising'
                 ' TimeoutError')
        continue
      # ... and it IS the configured timeout: self.timeout itself, or a local every
      # definition of which is self.timeout (no branch substitutes None / another value)
      tv = (c.args[0] if c.args else next(k.value for k in c.keywords if k.arg == 'timeout'))

      def configured(e, depth=0):
        if is_self_attr(e, 'timeout'):
          return True
        if isinstance(e, ast.Name) and depth < 3:
          defs = [x.value for x in walk_no_nested(fi.node) if isinstance(x, ast.Assign) and any(
              isinstance(t_, ast.Name) and t_.id == e.id for t_ in x.targets)]
          return bool(defs) and all(configured(d, depth + 1) for d in defs)
        return False

      if not configured(tv):
        ctx.fail(rule, fi, f'{fi.qualname}: wait(timeout=<the configured timeout>)',
                 f'`{unparse(c)}` does not wait with the configured `self.timeout` on every path'
                 f' (`{unparse(tv)}` can be another value, e.g. None): the starved side then blocks'
                 ' for ever instead of raising TimeoutError', node=c)
        continue
      if n.kind != 'cond' and isinstance(n.ast, ast.Assign) and len(n.ast.targets) == 1 and isinstance(n.ast.targets[0], ast.Name):
        # `woken = <condition>.wait(timeout=...)` followed by a test of `woken`: the test node stands for the wait
        flag = n.ast.targets[0].id
        cur, hops = n, 0
        while cur is not None and hops < 4:
          nxt = [s_ for s_, lab_ in cur.succ if lab_ in ('next', 'true', 'false')]
          cur = nxt[0] if len(nxt) >= 1 else None
          hops += 1
          if cur is not None and cur.kind == 'cond':
            t_ = cur.ast.operand if isinstance(cur.ast, ast.UnaryOp) and isinstance(cur.ast.op, ast.Not) else cur.ast
            if isinstance(t_, ast.Name) and t_.id == flag:
              n = cur
            break
      if n.kind != 'cond':
        ctx.fail(rule, fi, c, 'the result of wait(timeout=...) is ignored: a'
                 ' timeout is indistinguishable from a wake-up and never raises')
        continue
      neg = isinstance(n.ast, ast.UnaryOp) and isinstance(n.ast.op, ast.Not)
      false_lab = 'true' if neg else 'false'
      starts = [s for s, lab in n.succ if lab == false_lab]

      def is_timeout_raise(x):
        return (isinstance(x.ast, ast.Raise) and x.ast.exc is not None
                and isinstance(x.ast.exc, ast.Call)
                and unparse(x.ast.exc.func) == 'TimeoutError')

      bad = None
      for s in starts:
        if is_timeout_raise(s):
          continue
        # not starved: a batch list that already holds dequeued elements may
        # be handed over instead (`if <batch>: break/return`)
        batches = {x.func.value.id for x in ast.walk(fi.node) if isinstance(x, ast.Call)
                   and isinstance(x.func, ast.Attribute) and x.func.attr == 'append'
                   and isinstance(x.func.value, ast.Name)}

        def edge_ok(p_, q_, lab_, batches=batches):
          if lab_ == 'close':
            return False
          if p_.kind == 'cond' and isinstance(p_.ast, ast.Name) and p_.ast.id in batches and lab_ == 'true':
            return False
          return True

        w = g.must_pass(s, [g.exit_ret, g.exit_exc, n], is_timeout_raise, edge_ok)
        if w is not None:
          bad = w
      if bad is not None or not starts:
        ctx.fail(rule, fi, c, 'the timed-out outcome of wait() does not lead to'
                 ' `raise TimeoutError` on every path', witness=bad)
      else:
        ctx.ok(rule, fi, f'{unparse(c)} false => raise TimeoutError', c)
  ctx.floor(rule, 2)


def r5(ctx: Ctx, m):
  rule = 'R-C05-5'
  ctx.rule(rule, 'consumer-side stop: maybe_stop wakes both sides on every'
           ' path and terminates consumers for a real failure;'
           ' MultiplexIterator.__next__ calls maybe_stop on every exceptional'
           ' path; MultiplexIterator.maybe_stop stops the iterator and shuts'
           ' the pool down; DequeueIterator stops the queue at its step budget')
  repo = ctx.repo
  # IteratorQueue.maybe_stop
  fi = m.method('maybe_stop')
  g = cfgm.cfg_of(fi.node)
  for lock, side in ((ENQ, 'enqueue'), (DEQ, 'dequeue')):
    through = lambda n, lock=lock: m.sync.node_notifies(n, fi, lock, need_all=True)
    w = g.must_pass(g.entry, [g.exit_ret], through, cfgm.only_normal)
    if w is not None:
      ctx.fail(rule, fi, f'maybe_stop => notify_all {side}',
               f'a stop request can return without notify_all on the {side}'
               ' condition: threads blocked there are not released',
               node=fi.node, witness=w)
    else:
      ctx.ok(rule, fi, f'maybe_stop => notify_all {side}', fi.node)
  # stop flags set so that enqueue_done becomes true
  flags = set()
  for x in walk_no_nested(fi.node):
    if isinstance(x, ast.Attribute) and isinstance(x.ctx, ast.Store) and is_self_attr(x):
      flags.add(x.attr)
  if {'_enqueue_stop', '_enqueue_start'} <= flags or '_exception' in flags and False:
    ctx.ok(rule, fi, 'maybe_stop sets _enqueue_stop/_enqueue_start to _max_enqueuer', fi.node)
  else:
    ctx.fail(rule, fi, 'maybe_stop: self._enqueue_stop = self._enqueue_start = self._max_enqueuer',
             'maybe_stop no longer forces the enqueue bookkeeping to "done":'
             ' producers keep enqueueing after a stop request', node=fi.node)
  # for a non-StopIteration exception: record it and mark exhausted
  def prune_stop(n, mm, lab):
    if lab in ('exc', 'close'):
      return False
    if n.kind == 'cond' and any(isinstance(x, ast.Call) and unparse(x.func).endswith(
        'is_stop_iteration') for x in cfgm.node_exprs(n)):
      t = n.ast
      neg = isinstance(t, ast.UnaryOp) and isinstance(t.op, ast.Not)
      # keep only the branch where the exception is NOT a StopIteration
      return (lab == 'true') == neg
    return True
  w1 = g.must_pass(g.entry, [g.exit_ret],
                   lambda n: n.kind == 'stmt' and isinstance(n.ast, ast.Assign) and any(
                       is_self_attr(t, '_exception') for t in n.ast.targets),
                   prune_stop)
  w2 = g.must_pass(g.entry, [g.exit_ret],
                   lambda n: bool(calls_method(n, '_set_exhausted')), prune_stop)
  if w1 is None and w2 is None:
    ctx.ok(rule, fi, 'maybe_stop(non-stop exc): record + _set_exhausted', fi.node)
  else:
    ctx.fail(rule, fi, 'maybe_stop(non-stop exc): self._exception = exc; self._set_exhausted()',
             'for a real failure maybe_stop does not record the exception'
             ' and terminate the consumer side on every path',
             node=fi.node, witness=w1 or w2)
  # MultiplexIterator.__next__
  nx = repo.func(QMOD, 'MultiplexIterator.__next__')
  g = cfgm.cfg_of(nx.node)
  src = [n for n in g.nodes if any(isinstance(x, ast.Call) and unparse(x.func) == 'next'
                                   for x in cfgm.node_exprs(n))]
  if not src:
    raise AnalysisError(f'{rule}: MultiplexIterator.__next__ no longer calls next()')
  through = lambda n: bool(calls_method(n, 'maybe_stop'))
  handlers = [h for h in g.nodes if h.kind == 'handler']
  for s in src:
    w = g.must_pass(s, [g.exit_exc], through, cfgm.no_close)
    if w is not None:
      ctx.fail(rule, nx, f'{s.text()} => maybe_stop on every exceptional exit',
               'an exception (or exhaustion) from the underlying iterator can'
               ' leave __next__ without maybe_stop(): helper threads and the'
               ' pool are not released', node=s.ast, witness=w)
    else:
      ctx.ok(rule, nx, f'{s.text()} => maybe_stop on every exceptional exit', s.ast)
  for h in handlers:
    w = g.must_pass(h, [g.exit_exc, g.exit_ret], through, cfgm.no_close)
    if w is not None:
      ctx.fail(rule, nx, f'{h.label}: maybe_stop before leaving',
               f'handler `{h.label}` can leave without calling maybe_stop()',
               node=h.ast, witness=w)
    else:
      ctx.ok(rule, nx, f'{h.label}: maybe_stop before leaving', h.ast)
  types = {t for h in handlers for t in (h.exc_types or ())}
  if not {'StopIteration', 'Exception'} <= types:
    ctx.fail(rule, nx, '__next__: handlers for StopIteration and Exception',
             'exhaustion or failure of the stream is no longer intercepted to'
             ' stop the queue and the pool', node=nx.node)
  # MultiplexIterator.maybe_stop
  ms = repo.func(QMOD, 'MultiplexIterator.maybe_stop')
  g = cfgm.cfg_of(ms.node)

  def prune(test_words):
    def ok(n, mm, lab):
      if lab in ('exc', 'close'):
        return False
      if n.kind == 'cond' and lab == 'false' and any(w in unparse(n.ast) for w in test_words):
        return False
      return True
    return ok

  w = g.must_pass(g.entry, [g.exit_ret],
                  lambda n: any(isinstance(x, ast.Call) and isinstance(x.func, ast.Attribute)
                                and x.func.attr == 'maybe_stop'
                                and unparse(x.func.value) == 'self._iterator'
                                for x in cfgm.node_exprs(n)),
                  prune(('Stoppable', 'maybe_stop')))
  w2 = g.must_pass(g.entry, [g.exit_ret],
                   lambda n: any(isinstance(x, ast.Call) and isinstance(x.func, ast.Attribute)
                                 and x.func.attr == 'shutdown'
                                 and '_thread_pool' in unparse(x.func.value)
                                 for x in cfgm.node_exprs(n)),
                   prune(('_thread_pool',)))
  if w is None and w2 is None:
    ctx.ok(rule, ms, 'MultiplexIterator.maybe_stop: stop iterator + shutdown pool', ms.node)
  else:
    ctx.fail(rule, ms, 'MultiplexIterator.maybe_stop: self._iterator.maybe_stop(); self._thread_pool.shutdown()',
             'maybe_stop does not both stop a stoppable iterator and shut the'
             ' thread pool down when one exists', node=ms.node, witness=w or w2)
  # DequeueIterator
  dq = repo.func(QMOD, 'DequeueIterator.maybe_stop')
  if any(isinstance(x, ast.Call) and isinstance(x.func, ast.Attribute)
         and x.func.attr == 'maybe_stop' and '_iterator_queue' in unparse(x.func.value)
         for x in walk_no_nested(dq.node)):
    ctx.ok(rule, dq, 'DequeueIterator.maybe_stop forwards to the queue', dq.node)
  else:
    ctx.fail(rule, dq, 'DequeueIterator.maybe_stop: self._iterator_queue.maybe_stop()',
             'DequeueIterator.maybe_stop no longer stops its queue', node=dq.node)
  dn = repo.func(QMOD, 'DequeueIterator.__next__')
  g = cfgm.cfg_of(dn.node)
  stop_raises = [n for n in g.nodes if isinstance(n.ast, ast.Raise) and n.ast.exc is not None
                 and 'StopIteration' in unparse(n.ast.exc)]
  bad = [n for n in stop_raises
         if g.dominates(lambda x: bool(calls_method(x, 'maybe_stop')), n, cfgm.only_normal) is not None]
  if stop_raises and not bad:
    ctx.ok(rule, dn, 'DequeueIterator.__next__: maybe_stop before StopIteration at budget', dn.node)
  else:
    ctx.fail(rule, dn, 'DequeueIterator.__next__: self.maybe_stop(); raise StopIteration()',
             'the step budget ends iteration without stopping the queue:'
             ' producer threads stay blocked', node=dn.node)
  ctx.floor(rule, 8)


def _may_be_none(e: ast.AST, fi: FuncInfo, depth: int = 0) -> bool:
  if depth > 4:
    return True
  if isinstance(e, ast.Constant):
    return e.value is None
  if isinstance(e, ast.IfExp):
    return _may_be_none(e.body, fi, depth + 1) or _may_be_none(e.orelse, fi, depth + 1)
  if isinstance(e, ast.BoolOp):
    if isinstance(e.op, ast.Or):
      return _may_be_none(e.values[-1], fi, depth + 1)
    return any(_may_be_none(v, fi, depth + 1) for v in e.values)
  if isinstance(e, ast.NamedExpr):
    return _may_be_none(e.value, fi, depth + 1)
  if isinstance(e, ast.Name):
    vals = []
    for x in ast.walk(fi.node):
      if isinstance(x, ast.ExceptHandler) and x.name == e.id:
        vals.append(None)  # a caught exception object
      elif isinstance(x, ast.Assign) and any(isinstance(t, ast.Name) and t.id == e.id for t in x.targets):
        vals.append(x.value)
      elif isinstance(x, ast.NamedExpr) and x.target.id == e.id:
        vals.append(x.value)
    if vals:
      return any(v is not None and _may_be_none(v, fi, depth + 1) for v in vals)
    a = fi.node.args
    params = a.posonlyargs + a.args
    defaults = [None] * (len(params) - len(a.defaults)) + list(a.defaults)
    for p_, d in list(zip(params, defaults)) + list(zip(a.kwonlyargs, a.kw_defaults)):
      if p_.arg == e.id:
        return d is not None and _may_be_none(d, fi, depth + 1)
    return False
  return False


def r7(ctx: Ctx, m):
  rule = 'R-C05-7'
  ctx.rule(rule, 'configuration reaches the queue: every parameter of a'
           ' queue-family constructor is read in its body (stored, or'
           ' forwarded to super().__init__) — a configured timeout that is'
           ' dropped on the way makes a starved get/put block for ever')
  n = 0
  for ci in m.classes:
    init = ci.methods.get('__init__')
    if init is None:
      continue
    read = {x.id for x in ast.walk(init.node) if isinstance(x, ast.Name)
            and isinstance(x.ctx, ast.Load)}
    for pn in init.params()[1:]:
      n += 1
      if pn in read:
        ctx.ok(rule, init, f'{ci.name}.__init__ uses `{pn}`', init.node)
      else:
        ctx.fail(rule, init, f'{ci.name}.__init__({pn}=...)',
                 f'the constructor parameter `{pn}` of {ci.name} is never read:'
                 ' the configured value is silently ignored (for `timeout`:'
                 ' every inherited get/put waits without a deadline)', node=init.node)
    # a parameter whose "unset" marker is None (Optional annotation) is never defaulted by
    # truthiness: `timeout or None` turns the do-not-wait value 0 into wait-for-ever
    optional = {a.arg for a in init.node.args.args + init.node.args.kwonlyargs
                if a.annotation is not None and 'None' in unparse(a.annotation)}
    for bo in ast.walk(init.node):
      if isinstance(bo, ast.BoolOp) and isinstance(bo.op, ast.Or) and isinstance(bo.values[0], ast.Name) and (
          bo.values[0].id in optional):
        n += 1
        ctx.fail(rule, init, f'{ci.name}.__init__: `{bo.values[0].id}` is taken as configured',
                 f'`{unparse(bo)}` replaces a falsy `{bo.values[0].id}` — also the legitimate value 0 — although'
                 ' None is its "not configured" marker: a timeout of 0 (do not wait) becomes no timeout at'
                 ' all and a starved get/put blocks for ever instead of raising TimeoutError', node=bo)
    # parameters shared with the base constructor are forwarded under their name
    sup = [c for c in ast.walk(init.node) if isinstance(c, ast.Call)
           and unparse(c.func) == 'super().__init__']
    bases = [b for b in m.repo.mro(ci)[1:] if '__init__' in b.methods]
    if sup and bases:
      bps = bases[0].methods['__init__'].params()[1:]
      c = sup[0]
      if not any(k.arg is None for k in c.keywords) and not any(isinstance(a, ast.Starred) for a in c.args):
        passed = {bp: unparse(a) for bp, a in zip(bps, c.args)}
        passed.update({k.arg: unparse(k.value) for k in c.keywords})
        for pn in init.params()[1:]:
          if pn in bps:
            n += 1
            if passed.get(pn) == pn:
              ctx.ok(rule, init, f'{ci.name}.__init__ forwards `{pn}` to {bases[0].name}', c)
            else:
              ctx.fail(rule, init, f'{ci.name}.__init__: super().__init__({pn}={pn})',
                       f'`{pn}` is accepted by {ci.name} and by {bases[0].name} but is'
                       f' forwarded as `{passed.get(pn)}`: the base class runs with'
                       ' its default instead of the configured value', node=c)
  ctx.floor(rule, 10, n)


def r8(ctx: Ctx, m):
  rule = 'R-C05-8'
  ctx.rule(rule, 'a recorded failure is sticky: outside the constructor no'
           ' store to the queue\'s failure slot can write None (a later plain'
           ' stop request must not turn a failed stream into a clean'
           ' end-of-stream for the consumers that have not seen it yet)')
  n = 0
  for fi in m.methods():
    if fi.name in ('__init__',):
      continue
    for x in walk_no_nested(fi.node):
      if isinstance(x, (ast.Assign, ast.AnnAssign)):
        tg = x.targets if isinstance(x, ast.Assign) else [x.target]
        if any(is_self_attr(t, '_exception') for t in tg) and x.value is not None:
          n += 1
          if _may_be_none(x.value, fi):
            ctx.fail(rule, fi, x,
                     f'{fi.qualname} stores `{unparse(x.value)[:60]}` into the failure'
                     ' slot, which can be None: a stop request erases the recorded'
                     ' producer failure and consumers that read afterwards see a'
                     ' clean end-of-stream')
          else:
            ctx.ok(rule, fi, f'{fi.qualname}: stores a definite exception', x)
  ctx.floor(rule, 3, n)


def r9(ctx: Ctx, m):
  rule = 'R-C05-9'
  ctx.rule(rule, 'a stop request is sticky: maybe_stop stores, on every path, a'
           ' flag that nothing outside the constructor ever resets and under'
           ' which enqueue_done answers True — encoding the stop only in the'
           ' producer counters is undone by a producer that starts afterwards'
           ' (_start_enqueue increments them), so queued pool tasks resume'
           ' producing after the stop and the pool never shuts down')
  ms = m.method('maybe_stop')
  g = cfgm.cfg_of(ms.node)
  done = m.repo.find_method(m.qcls, 'enqueue_done')
  if done is None:
    raise AnalysisError(f'{rule}: enqueue_done not found')
  cands = {}
  for n in g.nodes:
    if n.kind == 'stmt' and isinstance(n.ast, ast.Assign) and isinstance(n.ast.value, ast.Constant) and (
        n.ast.value.value is True):
      for t in n.ast.targets:
        if is_self_attr(t):
          cands.setdefault(t.attr, []).append(n)
  sticky = None
  why = []
  for f, nodes in cands.items():
    w = g.must_pass(g.entry, [g.exit_ret], lambda n, nodes=nodes: n in nodes, cfgm.only_normal)
    if w is not None:
      why.append(f'`{f}` is not stored on every path of maybe_stop')
      continue
    resets = [fi.qualname for fi in m.methods() if fi.name not in ('__init__', 'maybe_stop')
              for x in walk_no_nested(fi.node) if isinstance(x, (ast.Assign, ast.AugAssign))
              for t in (x.targets if isinstance(x, ast.Assign) else [x.target]) if is_self_attr(t, f)]
    if resets:
      why.append(f'`{f}` is also stored by {sorted(set(resets))}')
      continue
    forces = False
    for x in ast.walk(done.node):
      if isinstance(x, ast.If) and any(is_self_attr(y, f) for y in ast.walk(x.test)) and not any(
          isinstance(y, ast.Not) for y in ast.walk(x.test)) and x.body and isinstance(
              x.body[0], ast.Return) and isinstance(x.body[0].value, ast.Constant) and x.body[0].value.value is True:
        forces = True
      if isinstance(x, ast.Return) and isinstance(x.value, ast.BoolOp) and isinstance(x.value.op, ast.Or) and any(
          is_self_attr(v, f) for v in x.value.values):
        forces = True
    if not forces:
      why.append(f'enqueue_done does not answer True under `{f}`')
      continue
    sticky = f
  if sticky:
    ctx.ok(rule, ms, f'maybe_stop sets the sticky flag `{sticky}`; enqueue_done honours it', ms.node)
  else:
    ctx.fail(rule, ms, 'IteratorQueue.maybe_stop: sticky stop flag honoured by enqueue_done',
             'a plain stop request is recorded only by forcing the producer'
             ' counters (_enqueue_start/_enqueue_stop = _max_enqueuer); a'
             ' producer that starts afterwards increments them again and'
             ' enqueue_done turns False: with more sources than pool threads the'
             ' queued producers start after the stop, fill the queue nobody'
             ' drains and ThreadPoolExecutor.shutdown() never returns'
             + (' (' + '; '.join(why) + ')' if why else ''), node=ms.node)
  ctx.floor(rule, 1, 1)


_PRODUCER_ENTRIES = ('enqueue_from_iterator', 'async_enqueue_from_iterator')


def _launch_sites(repo):
  """(function, call/attr node, entry name, handle kept?) for every place a producer is launched."""
  out = []
  for fi in repo.all_functions():
    if fi.module.name.endswith('_test'):
      continue
    inspects = any(isinstance(c, ast.Call) and isinstance(c.func, ast.Attribute) and c.func.attr in (
        'exception', 'result') for c in ast.walk(fi.node))
    pm = None
    for x in ast.walk(fi.node):
      if not (isinstance(x, ast.Attribute) and x.attr in _PRODUCER_ENTRIES):
        continue
      if fi.name in _PRODUCER_ENTRIES:
        continue
      if pm is None:
        from mlmverif.core import parent_map
        pm = parent_map(fi.node)
      # climb to the enclosing statement
      q, stmt, launcher = x, None, None
      while q is not None:
        par = pm.get(q)
        if isinstance(par, ast.Call) and launcher is None and par.func is not q:
          launcher = par          # the producer is an ARGUMENT of this call (submit / Thread / run_coroutine...)
        if isinstance(par, ast.stmt):
          stmt = par
          break
        q = par
      direct = launcher is None   # plain call in the current thread: the failure propagates to the caller
      lazy = False
      if launcher is not None and isinstance(launcher.func, ast.Attribute) and launcher.func.attr in _PRODUCER_ENTRIES:
        launcher = None
      kept = direct
      if launcher is not None:
        ltxt = unparse(launcher.func)
        if 'Thread' in ltxt:
          kept = False
        elif isinstance(stmt, ast.Assign) and inspects and 'call' not in ltxt.split('.')[-1]:
          kept = True
        else:
          kept = False
      out.append((fi, x, x.attr, kept))
  return out


def r10(ctx: Ctx, m):
  rule = 'R-C05-10'
  ctx.rule(rule, '"if any producer\'s iterator raises, every consumer observes that'
           ' exception (never an indefinite wait)": a producer entry that is launched'
           ' where nobody reads its outcome (thread target, pool.submit / remote call'
           ' whose future is dropped) must itself record EVERY failure of the'
           ' iterable: each call into the iterable parameter (iter/aiter/next/anext/'
           ' await) has all its exceptional continuations pass a store of'
           ' self._exception (or an ignore-and-continue) — a call outside the'
           ' recording try, e.g. iter(x) before the loop, dies in the discarded'
           ' future, nothing is recorded, enqueue_done never becomes true and the'
           ' consumers wait for ever')
  repo = ctx.repo
  sites = _launch_sites(repo)
  if len(sites) < 4:
    raise AnalysisError(f'{rule}: only {len(sites)} producer launch sites found (5 confirmed)')
  dropped = {}
  for fi, node, entry, kept in sites:
    if not kept:
      dropped.setdefault(entry, []).append((fi, node))
  n = 0
  for entry in _PRODUCER_ENTRIES:
    fe = next((f for f in repo.all_functions() if f.name == entry and f.cls is not None
               and any(f.cls.name == c.name for c in m.classes)), None)
    if fe is None:
      raise AnalysisError(f'{rule}: producer entry {entry} not found')
    if entry not in dropped:
      # The in-repo launch sites read the future — the CONSUMERS of the queue still only learn of a failure
      # through the queue ("every consumer observes that exception"), so the sibling entry obeys the same rule.
      ctx.info(rule, fe, f'{entry}: every in-repo launch site keeps and inspects the future; checked as the sibling entry')
    p = fe.params()[1]
    g = cfgm.cfg_of(fe.node)

    def user_call(nd, p=p):
      for top in cfgm.node_exprs(nd):
        for x in ast.walk(top):
          if isinstance(x, ast.Call) and unparse(x.func) in ('iter', 'aiter', 'next', 'anext') and x.args and (
              isinstance(x.args[0], ast.Name) and x.args[0].id == p):
            return x
          if isinstance(x, ast.Await) and isinstance(x.value, ast.Name) and x.value.id == p:
            return x
      return None

    def records(nd):
      return isinstance(nd.ast, ast.Assign) and any(is_self_attr(t, '_exception') for t in nd.ast.targets)

    calls = [nd for nd in g.nodes if nd.kind in ('stmt', 'cond') and user_call(nd) is not None]
    if not calls:
      raise AnalysisError(f'{rule}: {entry} no longer calls into its iterable parameter `{p}`')
    for nd in calls:
      n += 1
      excs = [s_ for s_, lab in nd.succ if lab == 'exc']
      uncovered = None
      if any(s_ is g.exit_exc for s_ in excs):
        uncovered = 'it is outside every try block'
      else:
        for h in excs:
          w = g.must_pass(h, [g.exit_exc, g.exit_ret], records,
                          lambda a, b, lab: lab not in ('close', 'cont') and (lab != 'exc' or isinstance(a.ast, ast.Raise)))
          if w is not None and not (h.exc_types and set(h.exc_types) <= {'StopIteration', 'StopAsyncIteration'}):
            uncovered = f'the handler `{h.text()}` can leave without recording the failure'
      launch_fi = dropped[entry][0][0] if entry in dropped else next(f for f, _, e, _k in sites if e == entry)
      if uncovered:
        ctx.fail(rule, fe, f'{fe.qualname}: every call into `{p}` is covered by the failure-recording handler',
                 f'`{unparse(user_call(nd))}` can raise user code of the iterable but {uncovered}:'
                 f' {entry} is launched from another thread / task (e.g. in {launch_fi.qualname}), so the'
                 ' failure does not reach the consumers — self._exception stays None, enqueue_done never becomes'
                 ' true and every consumer of the queue waits for ever', node=nd.ast)
      else:
        ctx.ok(rule, fe, f'{entry}: `{unparse(user_call(nd))}` failures are recorded', nd.ast)
  ctx.floor(rule, 5, n)


def r11(ctx: Ctx, m):
  rule = 'R-C05-11'
  ctx.rule(rule, '"if any producer\'s iterator raises, every consumer observes that exception (never ... an indefinite wait)" —'
           ' whatever its TYPE: the non-blocking attempt re-raises the recorded failure, and the blocking consumers wrap'
           ' that attempt in a handler for the buffer\'s own "nothing there" signal (queue.Empty / asyncio.QueueEmpty) in'
           ' which they wait or retry. A producer failure that happens to be of that type (a source reading another queue)'
           ' would be caught there: so every such handler around a call that can re-raise the recorded failure first tests'
           ' the identity (`e is self._exception`) and re-raises')
  n = 0
  # attempts that can re-raise the recorded failure
  reraisers = set()
  for fi in m.methods():
    for r_ in ast.walk(fi.node):
      if isinstance(r_, ast.Raise) and r_.exc is not None and any(
          is_self_attr(y) and y.attr in ('exception', '_exception') for y in ast.walk(r_.exc)):
        reraisers.add(fi.name)
  if not reraisers:
    raise AnalysisError(f'{rule}: no method re-raises the recorded failure any more')
  for fi in m.methods():
    for t in ast.walk(fi.node):
      if not isinstance(t, ast.Try):
        continue
      calls = [c for b in t.body for c in ast.walk(b) if isinstance(c, ast.Call) and isinstance(c.func, ast.Attribute)
               and is_self_attr(c.func) and c.func.attr in reraisers]
      if not calls:
        continue
      for h in t.handlers:
        types = cfgm.handler_type_names(h)      # module-level tuple aliases expanded
        if not any(ty.endswith(('Empty', 'QueueEmpty')) for ty in types):
          continue
        n += 1
        ok = False
        if h.name and h.body:
          first = h.body[0]
          if isinstance(first, ast.If) and isinstance(first.test, ast.Compare) and len(first.test.ops) == 1 and isinstance(
              first.test.ops[0], ast.Is):
            sides = {unparse(first.test.left), unparse(first.test.comparators[0])}
            if h.name in sides and sides & {'self._exception', 'self.exception'} and any(
                isinstance(r_, ast.Raise) and (r_.exc is None or unparse(r_.exc) == h.name) for r_ in first.body):
              ok = True
        what = f'{fi.qualname}: the handler of the empty-buffer signal lets the recorded failure through'
        if ok:
          ctx.ok(rule, fi, what, h)
        else:
          ctx.fail(rule, fi, what,
                   f'`except {unparse(h.type)[:50]}` around `{unparse(calls[0])}` in {fi.qualname} also catches the recorded producer'
                   f' failure when that failure is itself a queue.Empty (`{unparse(calls[0].func)}` re-raises it): the consumer then'
                   ' waits for its timeout or retries for ever instead of observing the exception. Test `e is self._exception`'
                   ' first and re-raise', node=h)
  ctx.floor(rule, 2, n)


def r13(ctx: Ctx, m):
  rule = 'R-C05-13'
  ctx.rule(rule, '"every consumer observes that exception" also on a queue configured to SKIP errors: skipping is about a failing'
           ' element, not about the recorded failure of the stream. Where a consumer method swallows an exception of the'
           ' non-blocking attempt under `ignore_error` (break / continue / return instead of raising), the condition also'
           ' tests that the exception is not the recorded one (`e is not self._exception`) — the attempt re-raises the recorded'
           ' failure once the queue is exhausted; swallowed, get_batch() returns [] for ever and the iterator built on it'
           ' pops from its empty cache (IndexError)')
  n = 0
  reraisers = set()
  for fi in m.methods():
    for r_ in ast.walk(fi.node):
      if isinstance(r_, ast.Raise) and r_.exc is not None and any(
          is_self_attr(y) and y.attr in ('exception', '_exception') for y in ast.walk(r_.exc)):
        reraisers.add(fi.name)
  for fi in m.methods():
    if fi.name.endswith('enqueue_from_iterator'):
      continue      # the producers skip failures of THEIR iterator (R-C12-20 decides what they may skip)
    for t in ast.walk(fi.node):
      if not isinstance(t, ast.Try):
        continue
      if not any(isinstance(c, ast.Call) and isinstance(c.func, ast.Attribute) and is_self_attr(c.func) and c.func.attr in reraisers
                 for b in t.body for c in ast.walk(b)):
        continue
      for h in t.handlers:
        if not h.name:
          continue
        for cond in ast.walk(h):
          if not (isinstance(cond, ast.If) and any(is_self_attr(y, 'ignore_error') for y in ast.walk(cond.test))):
            continue
          swallows = any(isinstance(y, (ast.Break, ast.Continue, ast.Return)) for b in cond.body for y in ast.walk(b))
          if not swallows:
            continue
          n += 1
          lets_through = any(isinstance(c, ast.Compare) and len(c.ops) == 1 and isinstance(c.ops[0], (ast.Is, ast.IsNot)) and (
              {unparse(c.left), unparse(c.comparators[0])} & {'self._exception', 'self.exception'}) and h.name in (
                  unparse(c.left), unparse(c.comparators[0])) for c in ast.walk(cond.test))
          what = f'{fi.qualname}: error skipping never swallows the recorded failure of the stream'
          if lets_through:
            ctx.ok(rule, fi, what, cond.test)
          else:
            ctx.fail(rule, fi, what,
                     f'`{unparse(cond.test)[:80]}` in {fi.qualname} swallows ANY exception of the attempt when ignore_error is set —'
                     ' also the recorded producer / stop failure the attempt re-raises once the queue is exhausted: the batch'
                     ' consumer gets [] for ever, the iterator raises IndexError from its empty cache, nobody sees the failure',
                     node=cond.test)
  ctx.floor(rule, 1, n)


def r15(ctx: Ctx, m):
  rule = 'R-C05-15'
  ctx.rule(rule, '"if any producer\'s iterator raises, every consumer observes that exception (never an indefinite wait)": a'
           ' failure handler of a producer records the failure and runs the stop routine BEFORE it calls anything on the'
           ' caught object. `e.add_note(...)` (and any other method of `e`) runs code/attribute rules of a USER exception'
           ' class — a frozen dataclass, __slots__, a restrictive __setattr__ raise from it — and the handler is then left'
           ' by that second exception: with the decoration first nothing is recorded, the enqueuer is never counted as'
           ' done and every consumer blocks. In each handler that stores `self._exception = <caught>` the store and the'
           ' stop call precede every `<caught>.<method>(...)` call')
  n = 0
  for entry in _PRODUCER_ENTRIES:
    fe = next((f for f in ctx.repo.all_functions() if f.name == entry and f.cls is not None
               and any(f.cls.name == c.name for c in m.classes)), None)
    if fe is None:
      raise AnalysisError(f'{rule}: producer entry {entry} not found')
    for h in ast.walk(fe.node):
      if not (isinstance(h, ast.ExceptHandler) and h.name):
        continue
      def pos(pred):
        for i, st in enumerate(h.body):
          if any(pred(x) for x in ast.walk(st)):
            return i
        return None
      i_store = pos(lambda x: isinstance(x, ast.Assign) and any(is_self_attr(t) and t.attr == '_exception' for t in x.targets)
                    and isinstance(x.value, ast.Name) and x.value.id == h.name)
      if i_store is None:
        continue
      n += 1
      i_stop = pos(lambda x: isinstance(x, ast.Call) and isinstance(x.func, ast.Attribute) and is_self_attr(x.func)
                   and x.func.attr in ('_stop_enqueue', 'maybe_stop'))
      i_user = pos(lambda x: isinstance(x, ast.Call) and isinstance(x.func, ast.Attribute) and isinstance(x.func.value, ast.Name)
                   and x.func.value.id == h.name)
      what = f'{fe.qualname}: handler at line {h.lineno} records and stops before it touches the caught object'
      if i_stop is None:
        ctx.fail(rule, fe, what, f'the handler at line {h.lineno} stores the failure but never runs the stop routine', node=h)
      elif i_user is not None and i_user < max(i_store, i_stop):
        ctx.fail(rule, fe, what,
                 f'`{unparse(h.body[i_user])[:60]}` runs before the failure is recorded and the queue stopped: when the exception'
                 ' class refuses it (frozen dataclass, __slots__), the handler ends there — nothing is recorded and the'
                 ' consumers of a queue without timeout wait for ever', node=h.body[i_user])
      else:
        ctx.ok(rule, fe, what, h)
  ctx.floor(rule, 4, n)


def r16(ctx: Ctx, m):
  rule = 'R-C05-16'
  ctx.rule(rule, '"a stop request unblocks every blocked producer and consumer": the queue\'s blocking methods wait with a plain'
           ' `<condition>.wait(timeout=...)` inside a loop that re-tests the stop flag. A predicate wait'
           ' (`<condition>.wait_for(pred, ...)`) goes back to sleep inside the primitive whenever its predicate is false, so'
           ' it is only accepted when the predicate itself is true after a stop (it mentions enqueue_done / _exhausted /'
           ' _exception / _stop_requested) — `wait_for(lambda: not full)` swallows the wake-up of maybe_stop() and of a failing'
           ' sibling: the blocked producers never return')
  n = 0
  stopish = ('enqueue_done', '_exhausted', 'exhausted', '_exception', 'exception', '_stop_requested')
  for ci in m.classes:
    for name, fi in ci.methods.items():
      for c in ast.walk(fi.node):
        if not (isinstance(c, ast.Call) and isinstance(c.func, ast.Attribute) and c.func.attr in ('wait', 'wait_for')
                and is_self_attr(c.func.value)):
          continue
        n += 1
        what = f'{ci.name}.{name}: `{unparse(c.func)}` returns to the stop-flag test on every wake-up'
        if c.func.attr == 'wait_for':
          pred = c.args[0] if c.args else kwarg(c, 'predicate')
          ok = pred is not None and any((isinstance(y, ast.Attribute) and y.attr in stopish) for y in ast.walk(pred))
          if not ok:
            ctx.fail(rule, fi, what,
                     f'`{unparse(c)[:80]}` waits for a predicate that says nothing about a stop: the notify_all of maybe_stop() /'
                     ' of a failing sibling wakes the thread inside wait_for, the predicate is still false and it sleeps again'
                     ' — the stop never reaches the loop that tests enqueue_done', node=c)
            continue
        ctx.ok(rule, fi, what, c)
  ctx.floor(rule, 3, n)


from mlmverif.selfcheck import B, OK  # noqa: E402

_F = 'utils/iter_utils.py'
VARIANTS = [
    OK('dequeued-value-through-a-local', 'utils/iter_utils.py',
       "          value = self.get_nowait()\n", "          item = self.get_nowait()\n          value = item\n"),
    OK('returned-values-through-a-local', 'utils/iter_utils.py',
       "      self._returned.extend(values)\n", "      ended_with = values\n      self._returned.extend(ended_with)\n"),
    OK('put-through-a-local', 'utils/iter_utils.py',
       "          self._put_nowait(value)\n", "          item = value\n          self._put_nowait(item)\n"),
    OK('stop-link-through-a-local', 'utils/iter_utils.py',
       "    result.stop_with(input_iterable)\n", "    upstream = input_iterable\n    result.stop_with(upstream)\n"),
    B('multiplex-queue-counts-its-producers-as-they-start', 'utils/iter_utils.py',
      "      max_enqueuer=len(input_iterators),\n", "", 'R-C05-18'),
    OK('put-waits-with-a-named-timeout', 'utils/iter_utils.py',
       "          if self._enqueue_lock.wait(timeout=self.timeout):\n            continue\n          raise TimeoutError(f'Enqueue timeout",
       "          woken = self._enqueue_lock.wait(timeout=self.timeout)\n          if woken:\n            continue\n          raise TimeoutError(f'Enqueue timeout"),
    B('put-waits-for-a-free-slot-only', 'utils/iter_utils.py',
      "          if self._enqueue_lock.wait(timeout=self.timeout):\n            continue\n          raise TimeoutError(f'Enqueue timeout",
      "          if self._enqueue_lock.wait_for(lambda: not self._queue.full(), timeout=self.timeout):\n            continue\n          raise TimeoutError(f'Enqueue timeout", 'R-C05-16'),
    B('revert-note-before-the-failure-is-recorded', 'utils/iter_utils.py',
      "        self._exception = e\n        self._stop_enqueue()\n        e.add_note(f'Exception during enqueueing \"{self.name}\".')\n        logging.exception('chainable: %s', f'\"{self.name}\" enqueue failed.')\n        raise e",
      "        e.add_note(f'Exception during enqueueing \"{self.name}\".')\n        logging.exception('chainable: %s', f'\"{self.name}\" enqueue failed.')\n        self._exception = e\n        self._stop_enqueue()\n        raise e", 'R-C05-15'),
    B('async-note-between-record-and-stop', 'utils/iter_utils.py',
      "        self._exception = e\n        self._stop_enqueue()\n        e.add_note(f'Exception during async enqueueing {self.name}')\n",
      "        self._exception = e\n        e.add_note(f'Exception during async enqueueing {self.name}')\n        self._stop_enqueue()\n", 'R-C05-15'),
    OK('note-guarded-after-the-record', 'utils/iter_utils.py',
       "        self._exception = e\n        self._stop_enqueue()\n        e.add_note(f'Exception during enqueueing \"{self.name}\".')\n",
       "        self._exception = e\n        self._stop_enqueue()\n        try:\n          e.add_note(f'Exception during enqueueing \"{self.name}\".')\n        except Exception:  # pylint: disable=broad-exception-caught\n          pass\n"),
    B('link-tests-before-it-registers', 'utils/iter_utils.py',
      "    self._stopped_with.append(other)\n    if self.enqueue_done:\n      # Already over, e.g., failed on the very first element.\n      other.maybe_stop()\n",
      "    if self.enqueue_done:\n      # Already over, e.g., failed on the very first element.\n      other.maybe_stop()\n      return\n    self._stopped_with.append(other)\n", 'R-C05-14'),
    B('revert-batch-consumer-swallows-the-recorded-failure', _F,
      "              not exhausted\n              and self.ignore_error\n              and (result or e is not self._exception)\n          ):",
      "              not exhausted\n              and self.ignore_error\n          ):", 'R-C05-13'),
    B('revert-get-takes-an-empty-typed-failure-for-an-empty-buffer', _F,
      "          if e is self._exception:\n            # The enqueuer failed with this very error: not an empty buffer.\n            raise\n          logging.debug(\n              'chainable: %s', f'\"{self.name}\" dequeue empty, waiting'",
      "          logging.debug(\n              'chainable: %s', f'\"{self.name}\" dequeue empty, waiting'", 'R-C05-11'),
    B('revert-async-open-outside-the-handler', _F,
      "    self._start_enqueue()\n    try:\n      if isinstance(iterator, Awaitable):\n        iterator = await iterator\n      if not isinstance(iterator, AsyncIterator):\n        iterator = aiter(iterator)\n    except Exception as e:  # pylint: disable=broad-exception-caught\n      # Same as enqueue_from_iterator: the iterable can fail before yielding\n      # anything, the consumers have to see this as any other enqueue failure.\n      self._exception = e\n      self._stop_enqueue()\n      e.add_note(f'Exception during async enqueueing {self.name}')\n      logging.exception('chainable: %s', f'{self.name} enqueue failed.')\n      raise e\n",
      "    if isinstance(iterator, Awaitable):\n      iterator = await iterator\n    if not isinstance(iterator, AsyncIterator):\n      iterator = aiter(iterator)\n    self._start_enqueue()\n", 'R-C05-10'),
    B('revert-sticky-stop-flag', _F,
      '      self._stop_requested = True\n      self._enqueue_stop = self._enqueue_start = self._max_enqueuer',
      '      self._enqueue_stop = self._enqueue_start = self._max_enqueuer', 'R-C05-9'),
    B('sticky-flag-not-honoured', _F, '    if self._exception or self._stop_requested:\n      return True',
      '    if self._exception:\n      return True', 'R-C05-9'),
    B('sticky-flag-reset-on-start', _F, '      self._enqueue_start += 1\n',
      '      self._enqueue_start += 1\n      self._stop_requested = False\n', 'R-C05-9'),
    OK('sticky-flag-as-disjunct', _F, '    if self._exception or self._stop_requested:\n      return True',
       '    if self._exception:\n      return True\n    if self._stop_requested:\n      return True'),
    B('async-queue-drops-timeout', _F,
      '        name=name,\n        timeout=timeout,\n        ignore_error=ignore_error,\n        max_batch_size=max_batch_size,\n    )\n    self._thread_pool = thread_pool',
      '        name=name,\n        ignore_error=ignore_error,\n        max_batch_size=max_batch_size,\n    )\n    self._thread_pool = thread_pool',
      'R-C05-7'),
    B('async-queue-forwards-wrong-value', _F,
      '        name=name,\n        timeout=timeout,\n        ignore_error=ignore_error,\n        max_batch_size=max_batch_size,\n    )\n    self._thread_pool = thread_pool',
      '        name=name,\n        timeout=None if thread_pool else timeout,\n        ignore_error=ignore_error,\n        max_batch_size=max_batch_size,\n    )\n    self._thread_pool = thread_pool',
      'R-C05-7'),
    B('plain-stop-erases-failure', _F,
      '      if not is_stop_iteration(exc):\n        self._exception = exc\n      assert self.enqueue_done',
      '      self._exception = None if is_stop_iteration(exc) else exc\n      assert self.enqueue_done',
      'R-C05-8'),
    OK('stop-stores-in-else-branch', _F,
       '      if not is_stop_iteration(exc):\n        self._exception = exc\n      assert self.enqueue_done',
       '      if is_stop_iteration(exc):\n        pass\n      else:\n        self._exception = exc\n      assert self.enqueue_done'),
    B('maybe-stop-no-enqueue-notify', _F,
      '    with self._enqueue_lock:\n      self._enqueue_lock.notify_all()\n    with self._dequeue_lock:\n      if not is_stop_iteration(exc):',
      '    with self._dequeue_lock:\n      if not is_stop_iteration(exc):', 'R-C05-5'),
    B('store-after-stop', _F,
      '        self._exception = e\n        self._stop_enqueue()\n        e.add_note(f\'Exception during enqueueing "{self.name}".\')',
      '        self._stop_enqueue()\n        self._exception = e\n        e.add_note(f\'Exception during enqueueing "{self.name}".\')',
      'R-C05-2'),
    B('exception-not-recorded', _F,
      '        self._exception = e\n        self._stop_enqueue()\n        e.add_note(f\'Exception during enqueueing "{self.name}".\')',
      '        self._stop_enqueue()\n        e.add_note(f\'Exception during enqueueing "{self.name}".\')',
      'R-C05-2'),
    B('put-no-recheck-before-wait', _F,
      '          if self.enqueue_done:\n            break\n          if self._enqueue_lock.wait(timeout=self.timeout):',
      '          if self._enqueue_lock.wait(timeout=self.timeout):', 'R-C05-3'),
    B('enqueue-loop-ignores-stop', _F,
      '      raise e\n    while not self.enqueue_done:\n      fetched = False',
      '      raise e\n    while True:\n      fetched = False',
      'R-C05-3'),
    B('timeout-zero-normalised-to-none', _F,
      '    self.timeout = timeout\n', '    self.timeout = timeout or None\n', 'R-C05-7'),
    B('blocking-batch-waits-without-timeout', _F,
      '          if self._dequeue_lock.wait(timeout=self.timeout):\n            continue\n          if result:',
      '          timeout = None if block and result else self.timeout\n          if self._dequeue_lock.wait(timeout=timeout):\n            continue\n          if result:', 'R-C05-4'),
    OK('wait-timeout-through-local', _F,
       '          if self._dequeue_lock.wait(timeout=self.timeout):\n            continue\n          if result:',
       '          patience = self.timeout\n          if self._dequeue_lock.wait(timeout=patience):\n            continue\n          if result:'),
    B('revert-async-loop-tests-stop', _F,
      '    while not self.enqueue_done:\n      try:\n        value = await asyncio.wait_for(anext(iterator), self.timeout)',
      '    while True:\n      try:\n        value = await asyncio.wait_for(anext(iterator), self.timeout)', 'R-C05-3'),
    B('revert-iter-failure-recorded', _F,
      '    self._start_enqueue()\n    try:\n      iterator = iter(iterator)\n    except Exception as e:  # pylint: disable=broad-exception-caught\n      # The iterable can fail before yielding anything, e.g., when opening its\n      # source: the consumers have to see this as any other enqueue failure.\n      # Records the failure first: decorating it can fail for an exception\n      # class that refuses new attributes.\n      self._exception = e\n      self._stop_enqueue()\n      e.add_note(f\'Exception during enqueueing "{self.name}".\')\n      logging.exception(\'chainable: %s\', f\'"{self.name}" enqueue failed.\')\n      raise e\n',
      '    iterator = iter(iterator)\n    self._start_enqueue()\n', 'R-C05-10'),
    B('iter-failure-handler-forgets-to-record', _F,
      '      self._exception = e\n      self._stop_enqueue()\n      e.add_note(f\'Exception during enqueueing "{self.name}".\')',
      '      self._stop_enqueue()\n      e.add_note(f\'Exception during enqueueing "{self.name}".\')', 'R-C05-10'),
    B('wait-without-timeout', _F,
      '          if self._enqueue_lock.wait(timeout=self.timeout):\n            continue',
      '          if self._enqueue_lock.wait():\n            continue', 'R-C05-4'),
    B('timeout-swallowed', _F,
      '            continue\n          raise TimeoutError(f\'Dequeue timeout={self.timeout}secs.\') from e',
      '            continue\n          continue', 'R-C05-4'),
    B('next-handler-no-stop', _F,
      '    except KeyboardInterrupt:\n      self.maybe_stop()\n      raise',
      '    except KeyboardInterrupt:\n      raise', 'R-C05-5'),
    B('multiplex-stop-no-shutdown', _F,
      '    if self._thread_pool is not None:\n      self._thread_pool.shutdown()\n',
      '', 'R-C05-5'),
    B('maybe-stop-no-exhaust', _F,
      '        # Immeidately terminate the consumer side for enqueue error.\n        self._set_exhausted()\n      else:\n        self._dequeue_lock.notify_all()',
      '        self._dequeue_lock.notify_all()\n      else:\n        self._dequeue_lock.notify_all()',
      'R-C05-5'),
    B('enqueue-done-ignores-exception', _F,
      '    if self._exception or self._stop_requested:\n      return True\n',
      '    if self._stop_requested:\n      return True\n', 'R-C05-1'),
    B('dequeue-iter-budget-no-stop', _F,
      '      self.maybe_stop()\n      raise StopIteration()\n    if not self._cache:',
      '      raise StopIteration()\n    if not self._cache:', 'R-C05-5'),
    OK('stop-helper-renamed-local', _F,
       '        self._exception = e\n        self._stop_enqueue()\n        e.add_note(f\'Exception during enqueueing "{self.name}".\')',
       '        self._exception = e\n        logging.info(\'stopping\')\n        self._stop_enqueue()\n        e.add_note(f\'Exception during enqueueing "{self.name}".\')'),
    OK('timeout-message-changed', _F,
       "raise TimeoutError(f'Dequeue timeout={self.timeout}secs.') from e",
       "raise TimeoutError(f'dequeue timed out after {self.timeout}s') from e"),
]
