"""C06 — distributed runs survive worker timeouts and deaths (structural part).

The schedulers never drop a task (exactly one disposition per task per round),
retried tasks feed the work list before new ones, the generator return value
is forwarded only on the end marker, and the state stream is always
terminated.  Worker release on every exit is decided under C20 (R-C20-6).
"""
from __future__ import annotations

import ast

from mlmverif import cfg as cfgm
from mlmverif.core import (kwarg, parent_map, AnalysisError, Ctx, FuncInfo, is_self_attr, unparse,
                           walk_no_nested)
from mlmverif.props import c20

EXPLANATION = (
    'CFG path enumeration over the task-inspection loops of WorkerPool.iterate'
    ' and orchestrate.as_completed: every path through one iteration performs'
    ' exactly one disposition of the task (keep running, retry with the error'
    ' cleared, record as failed, count/yield as finished, raise, or the'
    ' documented ignore_failures branch). Retry lists are fed back into the'
    ' work list and the scheduler takes from the work list before pulling a'
    ' new task; async_iterate forwards the generator return value only for a'
    ' StopIteration element, marks exhaustion there and raises every other'
    ' exception element; WorkerPool.iterate puts the STOP marker on the state'
    ' queue on every exit; a timed-out/orphaned task is retried with its'
    ' recorded exception cleared. Worker release: R-C20-6 re-run here. NOT'
    ' decided: exactly-once merging / at-least-once delivery under arbitrary'
    ' fault sequences (runtime histories).'
)
ASSUMPTIONS = ['A task whose future is done without exception has delivered all'
               ' of its batches through the output queue.']

CW = 'chainables.courier_worker'
ORCH = 'chainables.orchestrate'
CS = 'chainables.courier_server'
CU = 'utils.courier_utils'


def run(ctx: Ctx):
  for r in (r1, r2, r3, r4, r5, r6, r7, r8, r11, r12, r13, r14, r18, r19, r22, r23, r24, r25, r26, r28):
    ctx.guard(r)
  from mlmverif.props import c15
  from mlmverif.props import c05
  from mlmverif.props._queue import model as qmodel
  from mlmverif.props import c14
  ctx.include('R-C06-21', '"a worker that is being terminated ... its tasks are retried elsewhere": a task that crashes BECAUSE its'
              ' server is shutting down is answered with the retriable TimeoutError on both ways out of the server\'s'
              ' evaluation — raised and returned (R-C14-4). Rewriting it on the returned way only lets the raised one reach'
              ' as_completed as an application error, which aborts the run instead of re-queueing the shard', c14.r4, min_instances=3)
  from mlmverif.props import c16 as _c16
  ctx.include('R-C06-27', '"every output batch is delivered at least once": WorkerPool.iterate drains its internal output queue once more'
              ' AFTER the scheduling loop (in the finally) — the last answers of the last running shard can land between the'
              ' in-loop drain and the test that sees the shard done (R-C16-6)', _c16.r6, min_instances=1)
  ctx.include('R-C06-10', '"non-retriable task errors surface to the caller as'
              ' errors, never as silently missing results": on the worker the'
              ' failure of the shard\'s generator is stored BEFORE the end of'
              ' enqueueing is announced (R-C05-2) and wakes every waiter'
              ' (R-C05-1)', _c05_shared, qmodel(ctx), min_instances=5)
  ctx.include('R-C06-9', 'a worker that lost its generator (restarted mid-shard)'
              ' answers with a RETRIABLE error, so the shard is re-queued'
              ' instead of failing the run (R-C15-4 terminal/uninitialised'
              ' answers)', c15.r4, min_instances=3)
  from mlmverif.props import c16
  ctx.include('R-C06-15', '"as long as one worker stays usable": a healthy worker must'
              ' not be declared dead by its own slow call — refresh stores'
              ' max(previous, new) atomically, so the send time of a call that ran'
              ' longer than the threshold cannot overwrite the heartbeats the worker'
              ' pushed meanwhile (R-C20-2)', c20.r2, min_instances=3)
  ctx.include('R-C06-20', '"as long as one worker stays usable ... no lost work": only an ANSWERED call is proof of life — the client'
              ' refreshes the recorded heartbeat with the send time of calls that completed WITHOUT an exception (R-C20-4). A'
              ' call that merely finished (deadline exceeded, connection refused) must not renew it: a worker that is down'
              ' from the start would be marked alive by its own failing probe, be handed shards, and every bounce would cost'
              ' a unit of the retry budget until the run aborts', c20.r4, min_instances=3)
  ctx.include('R-C06-17', '"every output batch is delivered at least once" under retries: a retried'
              ' shard is defined afresh — the traced pipeline definition sent to the workers carries no'
              ' result caching, so a retry on the same worker does not resume a half-read one-shot data'
              ' source of the abandoned attempt (R-C16-10)', c16.r10, min_instances=1)
  ctx.include('R-C06-16', '"every shard\'s aggregation state is merged exactly once so the'
              ' final aggregate equals the fault-free result": the merge of the shard'
              ' states materialises the one-shot stream of states before handing it to'
              ' every aggregating stage and counts each state once (R-C16-1)', c16.r1,
              min_instances=2)


def _c05_shared(sub, m):
  from mlmverif.props import c05
  sub.guard(c05.r1, m)
  sub.guard(c05.r2, m)


def _nested(fi: FuncInfo, name: str) -> FuncInfo:
  for s in ast.walk(fi.node):
    if isinstance(s, (ast.FunctionDef, ast.AsyncFunctionDef)) and s.name == name and s is not fi.node:
      return FuncInfo(fi.module, f'{fi.qualname}.{name}', s, fi.cls)
  raise AnalysisError(f'{fi.qualname}: nested function {name} not found')


def _task_loops(fi: FuncInfo, g):
  """for_iter nodes `for task in <running list>`."""
  return [n for n in g.nodes if n.kind == 'for_iter' and isinstance(n.ast.target, ast.Name)
          and 'running' in unparse(n.ast.iter)]


def _disposition(n, tv: str) -> str | None:
  a = n.ast
  if n.kind not in ('stmt',):
    return None
  names = lambda e: {x.id for x in ast.walk(e) if isinstance(x, ast.Name)}
  if isinstance(a, ast.Expr) and isinstance(a.value, ast.Call):
    c = a.value
    if isinstance(c.func, ast.Attribute) and c.func.attr == 'append' and c.args and (
        tv in names(c.args[0])):
      kind = 'retry' if '_exc=None' in unparse(c.args[0]) else 'keep'
      return f'{kind}:{unparse(c.func.value)}'
    if unparse(c.func) == 'logging.exception' and tv in names(c):
      return 'log'
  if isinstance(a, ast.Expr) and isinstance(a.value, (ast.Yield,)) and a.value.value is not None and (
      tv in names(a.value.value)):
    return 'yield'
  if isinstance(a, ast.AugAssign) and isinstance(a.op, ast.Add) and 'finished' in unparse(a.target):
    return 'count'
  if isinstance(a, ast.Raise):
    return 'raise'
  return None


def _paths(g, start, stop_nodes, limit=4000):
  """All simple normal paths from start to any node in stop_nodes."""
  out = []
  stack = [(start, [start])]
  while stack:
    n, path = stack.pop()
    if n in stop_nodes and len(path) > 1:
      out.append(path)
      continue
    for m, lab in n.succ:
      if lab in ('exc', 'close'):
        if isinstance(n.ast, ast.Raise):
          out.append(path)  # explicit raise ends the iteration
        continue
      if m in path and m not in stop_nodes:
        continue
      stack.append((m, path + [m]))
      if len(out) > limit:
        raise AnalysisError('path explosion in task loop')
  return out


def r1(ctx: Ctx):
  rule = 'R-C06-1'
  ctx.rule(rule, 'task conservation: in the loop over running tasks of'
           ' WorkerPool.iterate and orchestrate.as_completed every path through'
           ' one iteration disposes of the task exactly once (keep / retry with'
           ' error cleared / failed / finished / raise / documented'
           ' ignore_failures log)')
  repo = ctx.repo
  it = _nested(repo.func(CW, 'WorkerPool.iterate'), 'iterate')
  ac = repo.func(ORCH, 'as_completed')
  total = 0
  for fi in (it, ac):
    g = cfgm.cfg_of(fi.node)
    loops = _task_loops(fi, g)
    if not loops:
      raise AnalysisError(f'{rule}: no `for task in running_tasks` loop in {fi.qualname}')
    for lp in loops:
      tv = lp.ast.target.id
      body_entries = [s for s, lab in lp.succ if lab == 'true']
      bad = None
      n_paths = 0
      for be in body_entries:
        for path in _paths(g, be, {lp}):
          n_paths += 1
          ds = [d for d in (_disposition(n, tv) for n in path) if d]
          # a `log` followed by a failed/keep append is one disposition
          core = [d for d in ds if d != 'log'] or ds[:1]
          if len(core) != 1:
            bad = (path, ds)
      total += n_paths
      if bad:
        path, ds = bad
        what = 'no disposition' if not ds else f'{len(ds)} dispositions {ds}'
        ctx.fail(rule, fi, f'{fi.qualname}: for {tv} in {unparse(lp.ast.iter)}',
                 f'a path through the task-inspection loop has {what}: the task'
                 ' is silently dropped (missing result) or handled twice'
                 ' (doubled work)', node=lp.ast,
                 witness=[f'L{n.lineno}: {n.text()}' for n in path])
      else:
        ctx.ok(rule, fi, f'{fi.qualname}: {n_paths} paths, one disposition each', lp.ast)
  # a retried task has its recorded exception cleared
  for fi in (it, ac):
    lists = {_work_list(fi)} | _retry_lists(fi)
    g_ = cfgm.cfg_of(fi.node)
    tvs = {lp.ast.target.id for lp in _task_loops(fi, g_)}
    for x in walk_no_nested(fi.node):
      if isinstance(x, ast.Call) and isinstance(x.func, ast.Attribute) and x.func.attr == 'append':
        txt = unparse(x.args[0]) if x.args else ''
        recv = unparse(x.func.value)
        uses_task = x.args and any(isinstance(y, ast.Name) and y.id in tvs for y in ast.walk(x.args[0]))
        if recv in lists and uses_task:
          setc = [c for c in ast.walk(x.args[0]) if isinstance(c, ast.Call)
                  and isinstance(c.func, ast.Attribute) and c.func.attr == 'set']
          extra = [k.arg for c in setc for k in c.keywords if k.arg != '_exc']
          if '_exc=None' in txt and extra:
            ctx.fail(rule, fi, x, f'the retried task also overrides {extra}:'
                     ' its future/worker is forgotten before the stale call can'
                     ' be cancelled, so an orphaned call that completes later'
                     ' delivers its result a second time')
          elif '_exc=None' in txt:
            ctx.ok(rule, fi, f'{recv}.append({txt})', x)
          elif 'next(' not in txt and 'pop' not in txt:
            ctx.fail(rule, fi, x, 'a task is queued for retry with its recorded'
                     ' exception still set: it is treated as failed again'
                     ' immediately')
  ctx.floor(rule, 4)


def _work_list(fi: FuncInfo) -> str | None:
  """The list that receives tasks pulled from the task iterator."""
  for x in walk_no_nested(fi.node):
    if isinstance(x, ast.Call) and isinstance(x.func, ast.Attribute) and x.func.attr == 'append' and (
        isinstance(x.func.value, ast.Name)) and x.args and any(
            isinstance(y, ast.Call) and unparse(y.func) == 'next' and y.args
            and 'task_iterator' in unparse(y.args[0]) for y in ast.walk(x.args[0])):
      return x.func.value.id
  return None


def _retry_lists(fi: FuncInfo) -> set[str]:
  out = set()
  for x in walk_no_nested(fi.node):
    if isinstance(x, ast.Call) and isinstance(x.func, ast.Attribute) and x.func.attr == 'append' and (
        isinstance(x.func.value, ast.Name)) and x.args and '_exc=None' in unparse(x.args[0]):
      out.add(x.func.value.id)
  return out


def r2(ctx: Ctx):
  rule = 'R-C06-2'
  ctx.rule(rule, 'retry feeds the work list: lists of timed-out tasks are'
           ' extended into the work list before the next scheduling round, and'
           ' a new task is pulled from the iterator only when the work list is'
           ' empty')
  repo = ctx.repo
  it = _nested(repo.func(CW, 'WorkerPool.iterate'), 'iterate')
  for fi in (it, repo.func(ORCH, 'as_completed')):
    g = cfgm.cfg_of(fi.node)
    tasks = _work_list(fi)
    if tasks is None:
      raise AnalysisError(f'{rule}: {fi.qualname} never pulls from task_iterator into a work list')
    retry = _retry_lists(fi) - {tasks}
    loops = _task_loops(fi, g)
    heads = [c for c in g.nodes if c.kind == 'cond' and getattr(c, 'is_loop', False)]
    for rl in sorted(retry):
      ext = [n for n in g.nodes if any(
          isinstance(x, ast.Call) and isinstance(x.func, ast.Attribute) and x.func.attr == 'extend'
          and unparse(x.func.value) == tasks and x.args and unparse(x.args[0]) == rl
          for x in cfgm.node_exprs(n))]
      ok = False
      if ext and loops and heads:
        after = [s for s, lab in loops[0].succ if lab == 'false']

        def edge_ok(a, b, lab, rl=rl):
          if lab in ('exc', 'close', 'brk'):
            return False
          if a.kind == 'cond' and lab == 'false' and unparse(a.ast) == rl:
            return False
          return True

        ok = all(g.must_pass(s, heads, lambda n: n in ext, edge_ok) is None for s in after)
      if ok:
        ctx.ok(rule, fi, f'{tasks}.extend({rl}) before the next round', ext[0].ast)
      else:
        ctx.fail(rule, fi, f'{fi.qualname}: retried tasks re-enter the work list',
                 'timed-out / orphaned tasks are collected for retry but not put'
                 ' back on the work list before the next scheduling round: their'
                 ' shards are never re-run', node=fi.node)
    pulls = [n for n in g.nodes if any(
        isinstance(x, ast.Call) and unparse(x.func) == 'next'
        and 'task_iterator' in unparse(x) for x in cfgm.node_exprs(n))]
    guard = lambda c: c.kind == 'cond' and isinstance(c.ast, ast.BoolOp) and isinstance(
        c.ast.op, ast.And) and any(unparse(v) == f'not {tasks}' for v in c.ast.values)
    for p in pulls:
      reach = g.reachable([g.entry], edge_ok=lambda a, b, lab: not (guard(a) and lab == 'true'))
      if p in reach:
        ctx.fail(rule, fi, f'{fi.qualname}: new task only when the work list is empty',
                 'a new task can be pulled from the iterator while retried tasks'
                 ' are still waiting: retries can starve', node=p.ast)
      else:
        ctx.ok(rule, fi, f'{fi.qualname}: new task only when `{tasks}` is empty', p.ast)
    pops = [n for n in g.nodes if n.ast is not None and any(
        isinstance(x, ast.Call) and isinstance(x.func, ast.Attribute) and x.func.attr == 'pop'
        and unparse(x.func.value) == tasks for x in cfgm.node_exprs(n))]
    if not pops:
      ctx.fail(rule, fi, f'{fi.qualname}: work list is consumed', 'queued tasks are never'
               ' taken from the work list', node=fi.node)
  ctx.floor(rule, 3)


def r3(ctx: Ctx):
  rule = 'R-C06-3'
  ctx.rule(rule, 'generator protocol (client side): in async_iterate the'
           ' return value is put on the result queue only for an element that'
           ' is a StopIteration, exhaustion is set there, non-exception'
           ' elements are yielded, and every other exception element is raised'
           ' (documented exemption: "generator already executing")')
  repo = ctx.repo
  fi = repo.func(CU, 'CourierClient.async_iterate')
  g = cfgm.cfg_of(fi.node)
  puts = [n for n in g.nodes if any(
      isinstance(x, ast.Call) and unparse(x.func) == 'generator_result_queue.put'
      for x in cfgm.node_exprs(n))]
  stop = lambda c: c.kind == 'cond' and 'is_stop_iteration' in unparse(c.ast)
  if not puts:
    ctx.fail(rule, fi, 'async_iterate: generator_result_queue.put(elem.value)',
             'the generator return value (the shard\'s aggregation state) is'
             ' never forwarded', node=fi.node)
  for p in puts:
    reach = g.reachable([g.entry], edge_ok=lambda a, b, lab: not (stop(a) and lab == 'true'))
    val_ok = '.value' in unparse(p.ast)
    if p in reach:
      ctx.fail(rule, fi, p.ast, 'a return value is forwarded for an element'
               ' that is not the StopIteration end marker: a crashed shard'
               ' contributes a bogus state or a state twice')
    elif not val_ok:
      ctx.fail(rule, fi, p.ast, 'the forwarded value is not the end marker\'s'
               ' `.value`')
    else:
      ctx.ok(rule, fi, f'{p.text()} only under is_stop_iteration(elem)', p.ast)
  # exhausted = True on the same branch
  # the loop-exit flag: `while not <flag>` around the batch loop
  flag = None
  for w_ in walk_no_nested(fi.node):
    if isinstance(w_, ast.While) and isinstance(w_.test, ast.UnaryOp) and isinstance(
        w_.test.operand, ast.Name):
      flag = w_.test.operand.id
  elemv = None
  for l_ in walk_no_nested(fi.node):
    if isinstance(l_, ast.For) and isinstance(l_.target, ast.Name) and any(
        isinstance(c_, ast.Call) and 'is_stop_iteration' in unparse(c_.func)
        and c_.args and unparse(c_.args[0]) == l_.target.id for c_ in ast.walk(l_)):
      elemv = l_.target.id
  if flag is None or elemv is None:
    raise AnalysisError(f'{rule}: async_iterate: batch loop / exit flag not recognised')
  ex = [n for n in g.nodes if isinstance(n.ast, ast.Assign) and unparse(n.ast) == f'{flag} = True']
  reach = g.reachable([g.entry], edge_ok=lambda a, b, lab: not (stop(a) and lab == 'true'))
  if ex and all(n not in reach for n in ex):
    ctx.ok(rule, fi, 'exhausted = True only on the end marker', ex[0].ast)
  else:
    ctx.fail(rule, fi, 'async_iterate: exit flag set only under is_stop_iteration(element)',
             'exhaustion is not tied to the end marker: the client stops early'
             ' (lost batches) or never stops', node=fi.node)
  # other exceptions are raised
  conds = [c for c in g.nodes if stop(c)]
  ok = False
  for c in conds:
    for s, lab in c.succ:
      if lab == 'false':
        r = g.reachable([s], edge_ok=cfgm.only_normal, include_src=True)
        if any(isinstance(n.ast, ast.Raise) and unparse(n.ast.exc) == elemv for n in r):
          ok = True
  if ok:
    ctx.ok(rule, fi, 'non-stop exception elements are raised', fi.node)
  else:
    ctx.fail(rule, fi, 'async_iterate: other exception elements are raised',
             'a generator failure delivered by the worker is swallowed instead'
             ' of raised: the task looks finished and its results are missing',
             node=fi.node)
  # non-exception elements yielded
  ys = [n for n in g.nodes if isinstance(n.ast, ast.Expr) and isinstance(n.ast.value, ast.Yield)
        and unparse(n.ast.value.value) == elemv]
  if ys:
    ctx.ok(rule, fi, 'elements are yielded', ys[0].ast)
  else:
    ctx.fail(rule, fi, 'async_iterate: elements are yielded', 'batches are not yielded', node=fi.node)
  ctx.floor(rule, 4)


def r4(ctx: Ctx):
  rule = 'R-C06-4'
  ctx.rule(rule, 'terminal marker: WorkerPool.iterate puts STOP_ITERATION on'
           ' the state queue on every exit (normal, error, generator close), so'
           ' the merging thread always terminates; failures and exhausted'
           ' retry budgets are raised after it')
  repo = ctx.repo
  fi = repo.func(CW, 'WorkerPool.iterate')
  g = cfgm.cfg_of(fi.node)
  src = [n for n in g.nodes if isinstance(n.ast, ast.Expr) and isinstance(
      n.ast.value, ast.YieldFrom)]
  if not src:
    raise AnalysisError(f'{rule}: `yield from iterate()` not found')
  put = lambda n: any(isinstance(x, ast.Call) and unparse(x.func) == 'generator_result_queue.put'
                      and 'STOP_ITERATION' in unparse(x) for x in cfgm.node_exprs(n))

  def edge_ok(a, b, lab):
    if a.kind == 'cond' and lab == 'false' and unparse(a.ast) == 'generator_result_queue':
      return False
    return True

  # cleanup statements inside the finally block itself are assumed not to
  # raise (edges leaving finally copies exceptionally are ignored)
  def edge_ok2(a, b, lab):
    if lab in ('exc', 'close') and a.via and not isinstance(a.ast, ast.Raise):
      return False
    return edge_ok(a, b, lab)

  w = g.must_pass(src[0], g.exits, put, edge_ok2)
  if w is None:
    ctx.ok(rule, fi, 'STOP_ITERATION marker on every exit', src[0].ast)
  else:
    ctx.fail(rule, fi, 'WorkerPool.iterate: finally: generator_result_queue.put(STOP_ITERATION)',
             'an exit path of the distributed iteration does not terminate the'
             ' state stream: the thread merging shard states waits forever and'
             ' no aggregate result is ever produced', node=fi.node, witness=w[-10:])
  raises = [n for n in g.nodes if isinstance(n.ast, ast.Raise) and n.ast.exc is not None
            and any(k in unparse(n.ast.exc) for k in ('RuntimeError', 'TimeoutError'))]
  if len({id(n.ast) for n in raises}) >= 2:
    ctx.ok(rule, fi, 'failed tasks / exhausted retries are raised', raises[0].ast)
  else:
    ctx.fail(rule, fi, 'WorkerPool.iterate: raise RuntimeError / TimeoutError',
             'non-retriable task errors or an exhausted retry budget no longer'
             ' surface as errors', node=fi.node)
  ctx.floor(rule, 2)


def r5(ctx: Ctx):
  rule = 'R-C06-5'
  ctx.rule(rule, 'all workers are released afterwards: R-C20-6 (acquire/release'
           ' pairing on every exit) and R-C20-5 (guarded releases over ALL'
           ' workers of the pool) evaluated for the pool-level operations')
  sub = Ctx(ctx.pid, ctx.repo, ctx.tier)
  c20.r6(sub)
  c20.r5(sub)
  for f in sub.findings:
    fi = _find(ctx.repo, f.module, f.qualname)
    ctx.fail(rule, fi, f.construct, f.message, node=fi.node, witness=f.witness)
  for i in sub.instances:
    if i.verdict == 'holds':
      ctx.instances.append(type(i)(rule, i.where, i.what, 'holds', True, i.detail))
  ctx.floor(rule, 4)


def _find(repo, module, qualname):
  parts = qualname.split('.')
  for k in range(len(parts), 0, -1):
    fi = repo.try_func(module, '.'.join(parts[:k]))
    if fi is not None:
      cur = fi
      for nm in parts[k:]:
        cur = _nested(cur, nm)
      return cur
  raise AnalysisError(f'cannot locate {module}.{qualname}')


_IMPLIES = {ast.Gt: (ast.Gt, ast.GtE, ast.NotEq), ast.GtE: (ast.GtE,), ast.Lt: (ast.Lt, ast.LtE, ast.NotEq),
            ast.LtE: (ast.LtE,), ast.Eq: (ast.Eq, ast.GtE, ast.LtE), ast.NotEq: (ast.NotEq,)}


def _conjuncts(t: ast.AST) -> list[ast.AST]:
  if isinstance(t, ast.BoolOp) and isinstance(t.op, ast.And):
    return [c for v in t.values for c in _conjuncts(v)]
  return [t]


def _implied(fact: ast.AST, goal: ast.AST) -> bool:
  if ast.dump(fact) == ast.dump(goal):
    return True
  if isinstance(fact, ast.Compare) and isinstance(goal, ast.Compare) and len(fact.ops) == 1 and len(
      goal.ops) == 1 and ast.dump(fact.left) == ast.dump(goal.left) and ast.dump(
          fact.comparators[0]) == ast.dump(goal.comparators[0]):
    return type(goal.ops[0]) in _IMPLIES.get(type(fact.ops[0]), ())
  return False


def r6(ctx: Ctx):
  rule = 'R-C06-6'
  ctx.rule(rule, 'giving up is never silent: every `break` that abandons the'
           ' scheduling loop of WorkerPool.iterate while work remains is'
           ' matched by a raise in the clean-up whose guard is implied by the'
           ' facts that hold at the break (same comparison or a weaker one;'
           ' lists known non-empty there) — an exhausted retry budget or a'
           ' failed task must surface as an error, not as missing shards')
  outer = ctx.repo.func(CW, 'WorkerPool.iterate')
  it = _nested(outer, 'iterate')
  pm = parent_map(it.node)
  loops = [x for x in walk_no_nested(it.node) if isinstance(x, ast.While)]
  if not loops:
    raise AnalysisError(f'{rule}: scheduling loop not found')
  main = loops[0]
  # guarded raises of the clean-up (outside the nested function)
  raises = []
  opm = parent_map(outer.node)
  for x in walk_no_nested(outer.node):
    if isinstance(x, ast.Raise) and x.exc is not None:
      p_ = opm.get(x)
      if isinstance(p_, ast.If) and x in p_.body:
        raises.append((x, _conjuncts(p_.test)))
  n = 0
  for b in walk_no_nested(it.node):
    if not isinstance(b, ast.Break):
      continue
    # only breaks of the main loop
    anc = []
    q = b
    inner_loop = None
    while q is not main and q is not None:
      par = pm.get(q)
      if isinstance(par, (ast.For, ast.While)) and par is not main and inner_loop is None and (
          q in par.body):
        inner_loop = par
      if isinstance(par, ast.If):
        if q in par.body:
          anc.extend(_conjuncts(par.test))
          # lists extended with a non-empty list inside this branch are non-empty
          for st in par.body:
            if isinstance(st, ast.Expr) and isinstance(st.value, ast.Call) and isinstance(
                st.value.func, ast.Attribute) and st.value.func.attr in ('extend', 'append') and (
                    st.value.args):
              if st.value.func.attr == 'append' or any(
                  ast.dump(st.value.args[0]) == ast.dump(f) for f in anc):
                anc.append(st.value.func.value)
      q = par
    if q is None or inner_loop is not None:
      continue
    n += 1
    match = None
    for r_, goals in raises:
      if all(any(_implied(f, g_) for f in anc) for g_ in goals):
        match = r_
    facts = ' and '.join(unparse(f) for f in anc) or 'True'
    if match is not None:
      ctx.ok(rule, it, f'break under [{facts}] is raised as {unparse(match.exc)[:40]}', b)
    else:
      ctx.fail(rule, it, f'WorkerPool.iterate: break under [{facts}] => raise in the clean-up',
               f'the scheduling loop is abandoned when [{facts}] but no raise in'
               ' the clean-up is guaranteed to fire then (guards: '
               + '; '.join(' and '.join(unparse(g_) for g_ in goals) for _, goals in raises)
               + '): the remaining tasks/shards are silently missing from the result',
               node=b)
  ctx.floor(rule, 2, n)


def registry_store_kinds(repo) -> dict[str, str]:
  """WorkerRegistry method -> 'set' | 'guarded' | 'kill' (how it stores the table)."""
  ci = repo.cls('utils.courier_utils', 'WorkerRegistry')
  out = {}
  for name, fi in ci.methods.items():
    if name.startswith('__'):
      continue
    pm = parent_map(fi.node)
    for x in walk_no_nested(fi.node):
      if isinstance(x, ast.Assign) and any(
          isinstance(t, ast.Subscript) and is_self_attr(t.value, 'data') for t in x.targets):
        if isinstance(x.value, ast.Constant) and x.value.value is None:
          kind = 'kill'
        else:
          kind = 'set'
          q = x
          while q is not fi.node:
            par = pm.get(q)
            if isinstance(par, ast.If) and q in par.body and any(
                isinstance(c, ast.Compare) and isinstance(c.ops[0], ast.IsNot) and isinstance(
                    c.comparators[0], ast.Constant) and c.comparators[0].value is None
                for c in ast.walk(par.test)):
              kind = 'guarded'
            q = par
        prev = out.get(name)
        out[name] = kind if prev in (None, kind) else 'mixed'
  return out


def r7(ctx: Ctx):
  rule = 'R-C06-7'
  ctx.rule(rule, 'a worker can rejoin: the server\'s heartbeat handler answers an'
           ' "alive" announcement with a registry method that stores the'
           ' heartbeat unconditionally (clearing a dead mark) and a "dead"'
           ' announcement with the method that stores the dead mark — the'
           ' guarded refresh (dead stays dead, C20) is for client-side stale'
           ' heartbeats only')
  repo = ctx.repo
  kinds = registry_store_kinds(repo)
  if sorted(kinds.values()) != ['guarded', 'kill', 'set']:
    raise AnalysisError(f'{rule}: registry store methods are {kinds}')
  fi = repo.func(CS, 'CourierServer._heartbeat')
  ps = fi.params()
  if len(ps) < 3:
    raise AnalysisError(f'{rule}: _heartbeat signature {ps}')
  alive_p = ps[2]
  pm = parent_map(fi.node)
  got = {True: set(), False: set()}
  for c in walk_no_nested(fi.node):
    if isinstance(c, ast.Call) and isinstance(c.func, ast.Attribute) and c.func.attr in kinds and (
        'registry' in unparse(c.func.value)):
      q = c
      pol = None
      while q is not fi.node:
        par = pm.get(q)
        if isinstance(par, ast.If):
          t = par.test
          neg = isinstance(t, ast.UnaryOp) and isinstance(t.op, ast.Not)
          if neg:
            t = t.operand
          if isinstance(t, ast.Name) and t.id == alive_p:
            in_body = any(q is b_ or q in ast.walk(b_) for b_ in par.body)
            pol = in_body != neg
        q = par
      if pol is None:
        raise AnalysisError(f'{rule}: registry call outside the `{alive_p}` branches')
      got[pol].add((kinds[c.func.attr], c.func.attr, c))
  for pol, want, text in ((True, 'set', 'alive announcement re-registers'),
                          (False, 'kill', 'dead announcement marks dead')):
    ks = {k for k, _, _ in got[pol]}
    if ks == {want}:
      ctx.ok(rule, fi, f'{text} ({sorted(n_ for _, n_, _ in got[pol])})', fi.node)
    else:
      node = next((c for _, _, c in got[pol]), fi.node)
      ctx.fail(rule, fi, f'CourierServer._heartbeat({alive_p}={pol}) => registry {want}',
               f'for {alive_p}={pol} the handler calls {sorted((n_, k) for k, n_, _ in got[pol])}'
               f' instead of an unconditional `{want}` store: a worker that'
               ' announced its death (or timed out) and comes back can never be'
               ' used again / a dead worker is not marked dead', node=node)
  ctx.floor(rule, 2)


def r8(ctx: Ctx):
  rule = 'R-C06-8'
  ctx.rule(rule, 'the capacity placeholder is always taken back: the artificial'
           ' pending future that CourierClient.async_iterate appends to'
           ' `_pendings` (so the worker counts as busy) is cancelled on EVERY'
           ' exit — return, raise and generator close — otherwise a worker'
           ' whose shard attempt failed once never has capacity again and is'
           ' lost to the pool although it is alive')
  fi = _find(ctx.repo, 'utils.courier_utils', 'CourierClient.async_iterate')
  g = cfgm.cfg_of(fi.node)
  from mlmverif import pat
  mk = pat.search(fi.node, '$f = futures.Future()', nested=False)
  if not mk:
    raise AnalysisError(f'{rule}: placeholder future not found in async_iterate')
  fv = mk[0][1]['f']
  apps = [n for n in g.nodes if any(isinstance(c, ast.Call) and unparse(c.func) == 'self._pendings.append'
                                    and fv in {y.id for y in ast.walk(c) if isinstance(y, ast.Name)}
                                    for x in cfgm.node_exprs(n) for c in ast.walk(x))]
  if not apps:
    raise AnalysisError(f'{rule}: the placeholder is not appended to self._pendings')
  done = lambda n: any(isinstance(c, ast.Call) and isinstance(c.func, ast.Attribute) and c.func.attr in (
      'cancel', 'set_result', 'set_exception') and unparse(c.func.value) == fv
                       for x in cfgm.node_exprs(n) for c in ast.walk(x))

  def edge_ok(p_, q_, lab):
    # statements of the clean-up block itself are assumed not to raise
    if lab in ('exc', 'close') and p_.via and not isinstance(p_.ast, ast.Raise):
      return False
    return True

  exits = [g.exit_ret, g.exit_exc] + ([g.exit_close] if g.is_generator else [])
  bad = None
  for a in apps:
    for s_, lab in a.succ:
      if lab in ('exc', 'close'):
        continue
      w = g.must_pass(s_, exits, done, edge_ok)
      if w is not None:
        bad = w
  if bad is None:
    ctx.ok(rule, fi, f'{fv}.cancel() on every exit of async_iterate', apps[0].ast)
  else:
    kind = bad[-1].split(':')[1] if bad else ''
    ctx.fail(rule, fi, f'CourierClient.async_iterate: {fv}.cancel() on every exit',
             'async_iterate can leave through '
             + ('a raise' if 'exc' in kind else 'generator close' if 'close' in kind else 'a return')
             + ' with its capacity placeholder still pending: has_capacity stays'
             ' False for that worker, idle_workers()/next_idle_worker() never hand'
             ' it out again and retried shards are never resubmitted',
             node=apps[0].ast, witness=bad[-10:])
  ctx.floor(rule, 1)


def r11(ctx: Ctx):
  rule = 'R-C06-11'
  ctx.rule(rule, '"every shard\'s aggregation state is merged exactly once": a'
           ' task that has completed is never retried — in the loops that'
           ' inspect the running tasks, every retry disposition'
           ' (<list>.append(task.set(_exc=None))) is dominated by the test'
           ' `task.done()`: a worker that left AFTER its shard finished must'
           ' not cause the finished shard to be re-run and merged twice')
  repo = ctx.repo
  n = 0
  for fi in (_nested(repo.func(CW, 'WorkerPool.iterate'), 'iterate'), repo.func(ORCH, 'as_completed')):
    g = cfgm.cfg_of(fi.node)
    for lp in _task_loops(fi, g):
      tv = lp.ast.target.id
      def is_done_call(e, tv=tv):
        return isinstance(e, ast.Call) and isinstance(e.func, ast.Attribute) and e.func.attr == 'done' and (
            unparse(e.func.value) == tv)

      def knowledge_edge(nd, lab):
        """Edges on which the completion status of the task is known."""
        if nd.kind != 'cond':
          return False
        t = nd.ast
        if is_done_call(t):
          return lab in ('true', 'false')
        if isinstance(t, ast.UnaryOp) and isinstance(t.op, ast.Not) and is_done_call(t.operand):
          return lab in ('true', 'false')
        if isinstance(t, ast.BoolOp) and isinstance(t.op, ast.And) and lab == 'true':
          return any(is_done_call(v) or (isinstance(v, ast.UnaryOp) and isinstance(v.op, ast.Not)
                                         and is_done_call(v.operand)) for v in t.values)
        if isinstance(t, ast.BoolOp) and isinstance(t.op, ast.Or) and lab == 'false':
          return any(is_done_call(v) or (isinstance(v, ast.UnaryOp) and isinstance(v.op, ast.Not)
                                         and is_done_call(v.operand)) for v in t.values)
        return False

      retries = [nd for nd in g.reachable([lp], edge_ok=cfgm.only_normal)
                 if (_disposition(nd, tv) or '').startswith('retry')]
      for r_ in retries:
        n += 1
        reach = g.reachable([lp], edge_ok=lambda a, b, lab: lab not in ('exc', 'close')
                            and not knowledge_edge(a, lab))
        if r_ in reach:
          ctx.fail(rule, fi, f'{fi.qualname}: retry of {tv} only after {tv}.done() was consulted',
                   f'`{r_.text()[:60]}` can be reached without testing `{tv}.done()`:'
                   ' a task that already delivered its batches and its aggregation'
                   ' state is queued again when its worker has gone away since, so'
                   ' the shard is processed and merged a second time', node=r_.ast)
        else:
          ctx.ok(rule, fi, f'{fi.qualname}: `{r_.text()[:40]}` only after {tv}.done()', r_.ast)
  ctx.floor(rule, 2, n)


def _resolve_local(e: ast.AST, fn: ast.AST, depth: int = 0) -> ast.AST:
  """Follows a local name that has exactly one plain assignment in the function."""
  while isinstance(e, ast.Name) and depth < 4:
    defs = [x.value for x in ast.walk(fn) if isinstance(x, ast.Assign) and len(x.targets) == 1
            and isinstance(x.targets[0], ast.Name) and x.targets[0].id == e.id]
    aug = any(isinstance(x, ast.AugAssign) and isinstance(x.target, ast.Name) and x.target.id == e.id
              for x in ast.walk(fn))
    if len(defs) != 1 or aug:
      return e
    e, depth = defs[0], depth + 1
  return e


def r12(ctx: Ctx):
  rule = 'R-C06-12'
  ctx.rule(rule, 'sampling without replacement is total: every'
           ' random.sample(population, k) / np.random.choice(n, size, replace=False)'
           ' draws at most as many as there are — k is `len(population)` or a'
           ' min(...) that has len(population) among its arguments. as_completed'
           ' reserves back-up workers this way while results are still outstanding:'
           ' a k larger than the candidates raises ValueError and aborts a run in'
           ' which nothing failed (results never delivered)')
  repo = ctx.repo
  n = 0
  for fi in repo.all_functions():
    if fi.module.name.endswith(('_test', 'test_utils')):
      continue
    for c in walk_no_nested(fi.node):
      if not isinstance(c, ast.Call):
        continue
      f = unparse(c.func)
      pop = k = None
      if f == 'random.sample' and c.args:
        pop = f'len({unparse(c.args[0])})'
        k = kwarg(c, 'k') or (c.args[1] if len(c.args) > 1 else None)
      elif f in ('np.random.choice', 'numpy.random.choice') and c.args:
        rep = kwarg(c, 'replace')
        if not (isinstance(rep, ast.Constant) and rep.value is False):
          continue
        a0 = c.args[0]
        pop = unparse(a0) if isinstance(a0, ast.Call) and unparse(a0.func) == 'len' else f'len({unparse(a0)})'
        k = kwarg(c, 'size') or (c.args[1] if len(c.args) > 1 else None)
      if pop is None:
        continue
      n += 1
      if k is None:
        ctx.ok(rule, fi, f'{f}: single draw', c)
        continue
      kv = _resolve_local(k, fi.node)
      clamped = unparse(kv) == pop or (isinstance(kv, ast.Call) and unparse(kv.func) == 'min' and any(
          unparse(a) == pop for a in kv.args))
      if clamped:
        ctx.ok(rule, fi, f'{f}: k = {unparse(kv)[:50]} is bounded by {pop}', c)
      else:
        ctx.fail(rule, fi, f'{fi.qualname}: {f} draws at most the population size',
                 f'`{unparse(c)[:70]}` draws k = `{unparse(kv)[:50]}` elements without replacement;'
                 f' nothing bounds k by {pop}: when fewer candidates than k exist the call'
                 ' raises ValueError("Sample larger than population") — in as_completed that'
                 ' aborts a fault-free run with results still outstanding', node=c)
  ctx.floor(rule, 2, n)


def r13(ctx: Ctx):
  rule = 'R-C06-13'
  ctx.rule(rule, '"calls may time out ... every task\'s result is delivered exactly once":'
           ' a failed task is classified as transient (TimeoutError / is_timeout) BEFORE'
           ' any other treatment: in the loops that inspect the running tasks, no'
           ' log-and-drop, mark-as-failed or raise of a task with an exception is'
           ' reachable from `exc := task.exception()` until the timeout test has'
           ' answered — otherwise an option such as ignore_failures turns a retriable'
           ' deadline-exceeded into a silently missing result')
  repo = ctx.repo
  n = 0
  for fi in (_nested(repo.func(CW, 'WorkerPool.iterate'), 'iterate'), repo.func(ORCH, 'as_completed')):
    g = cfgm.cfg_of(fi.node)
    for lp in _task_loops(fi, g):
      tv = lp.ast.target.id
      body = g.reachable([lp], edge_ok=cfgm.only_normal)
      starts = [nd for nd in body if nd.kind == 'cond' and any(
          isinstance(x, ast.Call) and isinstance(x.func, ast.Attribute) and x.func.attr == 'exception'
          and unparse(x.func.value) == tv for x in cfgm.node_exprs(nd))]
      def classifies(e):
        return any(isinstance(x, ast.Call) and (unparse(x.func).split('.')[-1] == 'is_timeout' or (
            unparse(x.func) == 'isinstance' and len(x.args) == 2 and 'TimeoutError' in unparse(x.args[1])))
                   for x in ast.walk(e))
      flags = {t.id for x in ast.walk(fi.node) if isinstance(x, ast.Assign) and classifies(x.value)
               for t in x.targets if isinstance(t, ast.Name)}

      def is_timeout_test(nd, flags=flags):
        return nd.kind == 'cond' and any(classifies(x) or (isinstance(x, ast.Name) and x.id in flags)
                                         for x in cfgm.node_exprs(nd))
      tests = [nd for nd in body if is_timeout_test(nd)]
      if not starts or not tests:
        raise AnalysisError(f'{rule}: {fi.qualname}: no `{tv}.exception()` test or no timeout classifier in the task loop')
      for st in starts:
        n += 1
        first = [s_ for s_, lab in st.succ if lab == 'true' and not is_timeout_test(s_)]
        early = g.reachable(first, avoid=lambda nd: is_timeout_test(nd) or nd is lp, edge_ok=cfgm.only_normal, include_src=True)
        bad = [nd for nd in early if (d := _disposition(nd, tv)) and not d.startswith('retry')
               and d != 'count' and d != 'yield']
        if bad:
          b = sorted(bad, key=lambda x_: x_.lineno)[0]
          ctx.fail(rule, fi, f'{fi.qualname}: timeout classification precedes any other treatment of a failed {tv}',
                   f'`{b.text()[:60]}` ({_disposition(b, tv)}) is reachable from `{st.text()[:40]}` before'
                   ' the failure has been tested for TimeoutError / is_timeout: a call that merely'
                   ' hit its deadline is dropped, marked failed or raised instead of being retried,'
                   ' so its result is never delivered', node=b.ast)
        else:
          ctx.ok(rule, fi, f'{fi.qualname}: failed {tv} is classified as timeout-or-not first', st.ast)
  ctx.floor(rule, 2, n)


def r14(ctx: Ctx):
  rule = 'R-C06-14'
  ctx.rule(rule, '"as long as one worker stays usable": next_idle_worker hands out only'
           ' workers that are alive AND have capacity — at every `return <worker>` both'
           ' `<worker>.is_alive` and `<worker>.has_capacity` are known true on every path'
           ' (must-facts from the tests passed since the worker was bound), for already'
           ' owned workers as for freshly acquired ones (the sibling return sites agree).'
           ' as_completed tries proven workers first without filtering them by liveness:'
           ' a dead proven worker handed out again blocks submit() until the heartbeat'
           ' threshold and then aborts the run although another worker is usable')
  fi = ctx.repo.func(CW, 'WorkerPool.next_idle_worker')
  g = cfgm.cfg_of(fi.node)

  def gen(nd, lab):
    if nd.kind != 'cond':
      return ()
    out = []
    for c in cfgm.truthy_conjuncts(nd.ast, lab):
      if isinstance(c, ast.Attribute) and isinstance(c.value, ast.Name):
        out.append((c.value.id, c.attr))
      elif isinstance(c, ast.Call) and isinstance(c.func, ast.Attribute) and isinstance(c.func.value, ast.Name):
        out.append((c.func.value.id, c.func.attr))
    return out

  def kill(nd, fact):
    var = fact[0]
    if nd.kind == 'for_iter':
      return any(isinstance(t, ast.Name) and t.id == var for t in ast.walk(nd.ast.target))
    if isinstance(nd.ast, ast.Assign):
      return any(isinstance(t, ast.Name) and t.id == var for tg in nd.ast.targets for t in ast.walk(tg))
    # releasing the worker ends what is known about it
    return any(isinstance(x, ast.Call) and isinstance(x.func, ast.Attribute) and x.func.attr == 'release'
               and unparse(x.func.value) == var for x in cfgm.node_exprs(nd))

  facts = cfgm.must_facts(g, gen, kill)
  rets = [nd for nd in g.nodes if isinstance(nd.ast, ast.Return) and isinstance(nd.ast.value, ast.Name)
          and nd.kind == 'stmt']
  if not rets:
    raise AnalysisError(f'{rule}: next_idle_worker returns no worker variable')
  need = ('is_alive', 'has_capacity')
  for r_ in rets:
    var = r_.ast.value.id
    have = {a for v, a in facts.get(r_, ()) if v == var}
    missing = [a for a in need if a not in have]
    if missing:
      ctx.fail(rule, fi, f'next_idle_worker: `return {var}` only for a worker known alive and with capacity',
               f'`return {var}` (line {r_.lineno}) is reachable without `{var}.{missing[0]}` having been'
               f' tested true (known there: {sorted(have) or "nothing"}): a dead or saturated worker the'
               ' pool already owns is handed out again — submit() to it waits for the heartbeat'
               ' threshold and then raises, aborting the run although another worker is usable',
               node=r_.ast)
    else:
      ctx.ok(rule, fi, f'return {var} (line {r_.lineno}): alive and has capacity', r_.ast)
  ctx.floor(rule, 2)


def _handlers_returning_errors(repo) -> dict[str, tuple]:
  """courier method name -> (handler FuncInfo, return node) for server handlers that RETURN an exception object."""
  out = {}
  mi = repo.module(CS)
  for ci in mi.classes.values():
    for fi in ci.methods.values():
      for c in ast.walk(fi.node):
        if not (isinstance(c, ast.Call) and isinstance(c.func, ast.Attribute) and c.func.attr == 'Bind' and len(c.args) == 2
                and isinstance(c.args[0], ast.Constant) and isinstance(c.args[1], ast.Attribute)):
          continue
        h = repo.find_method(ci, c.args[1].attr) if is_self_attr(c.args[1]) else None
        if h is None:
          continue
        handler_names = {x.name for x in ast.walk(h.node) if isinstance(x, ast.ExceptHandler) and x.name}
        for r in ast.walk(h.node):
          if not (isinstance(r, ast.Return) and r.value is not None):
            continue
          v = r.value
          is_exc = (isinstance(v, ast.Call) and isinstance(v.func, ast.Name) and v.func.id.endswith(('Error', 'Exception'))) or (
              isinstance(v, ast.Name) and v.id in handler_names)
          if is_exc:
            out[c.args[0].value] = (h, r)
  return out


def r18(ctx: Ctx):
  rule = 'R-C06-18'
  ctx.rule(rule, '"no lost work": some server handlers REFUSE a request by returning an exception object instead of raising'
           ' it (init_generator answers TimeoutError while the worker is shutting down). Every client call of such a'
           ' courier method binds the awaited answer and raises it when it is not None. A client that only awaits the'
           ' call takes the refusal for success: the next batch request is answered from the worker\'s PREVIOUS,'
           ' exhausted generator — the new shard is reported done without having run, its batches are never delivered'
           ' and the old shard\'s state is merged twice, without any error')
  repo = ctx.repo
  table = _handlers_returning_errors(repo)
  if 'init_generator' not in table:
    raise AnalysisError(f'{rule}: init_generator no longer refuses by returning an exception (handlers found: {sorted(table)})')
  n = 0
  mi = repo.module(CU)
  for ci in mi.classes.values():
    for fi in ci.methods.values():
      pm = None
      for c in ast.walk(fi.node):
        if not (isinstance(c, ast.Call) and (kw := kwarg(c, 'courier_method')) is not None and isinstance(kw, ast.Constant)
                and kw.value in table and unparse(c.func) == 'self.call'):
          continue
        n += 1
        pm = pm or parent_map(fi.node)
        # the future: bound to a name, or awaited / .result()ed in place
        fut_names = set()
        par = pm.get(c)
        if isinstance(par, ast.Assign):
          fut_names = {t.id for t in par.targets if isinstance(t, ast.Name)}

        def from_future(e):
          for y in ast.walk(e):
            if y is c or (isinstance(y, ast.Name) and y.id in fut_names):
              return True
          return False

        answers = set()
        for x in ast.walk(fi.node):
          tgt, val = None, None
          if isinstance(x, ast.NamedExpr):
            tgt, val = x.target, x.value
          elif isinstance(x, ast.Assign) and len(x.targets) == 1:
            tgt, val = x.targets[0], x.value
          if isinstance(tgt, ast.Name) and val is not None and from_future(val) and (
              isinstance(val, ast.Await) or (isinstance(val, ast.Call) and isinstance(val.func, ast.Attribute)
                                             and val.func.attr == 'result')):
            answers.add(tgt.id)
        raised = any(isinstance(r, ast.Raise) and isinstance(r.exc, ast.Name) and r.exc.id in answers
                     for r in ast.walk(fi.node))
        returned = any(isinstance(r, ast.Return) and r.value is not None and from_future(r.value) for r in ast.walk(fi.node))
        h, ret = table[kw.value]
        what = f'{fi.qualname}: the answer of {kw.value} is raised when it is an error'
        if raised:
          ctx.ok(rule, fi, what, c)
        elif returned:
          ctx.info(rule, fi, f'{fi.qualname}: hands the future of {kw.value} to its caller')
        else:
          ctx.fail(rule, fi, what,
                   f'{fi.qualname} calls courier method {kw.value!r} and never raises its answer, but the handler'
                   f' {h.qualname} refuses by RETURNING an error (`{unparse(ret)[:70]}`, line {ret.lineno}): the refusal is'
                   ' taken for success, the following batch requests are answered from the worker\'s previous generator and'
                   ' the shard is reported done without having run', node=c)
  ctx.floor(rule, 1, n)


def r19(ctx: Ctx):
  rule = 'R-C06-19'
  ctx.rule(rule, '"every task result is delivered ... no lost work": a scheduling loop keeps running while ANY of its work'
           ' lists is non-empty. A work list is a local list from which the loop body takes (`pop`) and to which it puts'
           ' back (`append`/`extend`: new work, retries of timed-out tasks). Each of them appears as a disjunct of the'
           ' loop condition — a retry queued after the input is exhausted and nothing else is running would otherwise'
           ' never be submitted: the shard\'s remaining batches and its state are lost without an error')
  repo = ctx.repo
  n = 0
  seen_any = False
  for mod in (CW, 'chainables.orchestrate'):
    mi = repo.module(mod)
    fns = list(mi.functions.values()) + [m_ for c in mi.classes.values() for m_ in c.methods.values()]
    for fi in fns:
      scopes = [fi.node] + [x for x in ast.walk(fi.node) if isinstance(x, (ast.FunctionDef, ast.AsyncFunctionDef)) and x is not fi.node]
      for sc in scopes:
        for lp in walk_no_nested(sc):
          if not isinstance(lp, ast.While):
            continue
          takes, puts = set(), set()
          for x in ast.walk(lp):
            if isinstance(x, ast.Call) and isinstance(x.func, ast.Attribute) and isinstance(x.func.value, ast.Name):
              if x.func.attr in ('pop', 'popleft'):
                takes.add(x.func.value.id)
              elif x.func.attr in ('append', 'extend', 'appendleft', 'insert'):
                puts.add(x.func.value.id)
          work = takes & puts
          # an inner submission loop is bounded by something else (an idle worker); the scheduling loop is the
          # OUTERMOST loop that works on the list
          for outer in walk_no_nested(sc):
            if isinstance(outer, ast.While) and outer is not lp and any(y is lp for y in ast.walk(outer)):
              o_t = {x.func.value.id for x in ast.walk(outer) if isinstance(x, ast.Call) and isinstance(x.func, ast.Attribute)
                     and isinstance(x.func.value, ast.Name) and x.func.attr in ('pop', 'popleft')}
              o_p = {x.func.value.id for x in ast.walk(outer) if isinstance(x, ast.Call) and isinstance(x.func, ast.Attribute)
                     and isinstance(x.func.value, ast.Name) and x.func.attr in ('append', 'extend', 'appendleft', 'insert')}
              work -= (o_t & o_p)
          if not work:
            continue
          seen_any = True
          disj = lp.test.values if isinstance(lp.test, ast.BoolOp) and isinstance(lp.test.op, ast.Or) else [lp.test]
          # a disjunct that mentions the list positively: `tasks`, `len(tasks)`, `len(tasks) > 0`, `tasks != []`
          positive = set()
          for d in disj:
            if isinstance(d, ast.UnaryOp) and isinstance(d.op, ast.Not):
              continue
            if isinstance(d, ast.Compare) and any(isinstance(o, (ast.Eq, ast.LtE, ast.Lt)) for o in d.ops) and not (
                isinstance(d.ops[0], ast.Lt) and isinstance(d.left, ast.Constant)):
              continue      # `len(tasks) == 0`, `len(tasks) <= 0`: not a "non-empty" test
            positive |= {y.id for y in ast.walk(d) if isinstance(y, ast.Name)}
          always = isinstance(lp.test, ast.Constant) and bool(lp.test.value)
          for w in sorted(work):
            n += 1
            what = f'{fi.qualname}: the loop runs while work list `{w}` is non-empty'
            if always or w in positive:
              ctx.ok(rule, fi, what, lp.test)
            else:
              ctx.fail(rule, fi, what,
                       f'`while {unparse(lp.test)}` (line {lp.lineno}) does not keep the loop alive for `{w}`, a list the'
                       ' body takes work from and puts work back into (new tasks, retries): a retry that is queued when'
                       ' the input is exhausted and nothing else is running is never submitted — its results are lost'
                       ' and no error is raised', node=lp.test)
  if not seen_any:
    raise AnalysisError(f'{rule}: no scheduling loop with a work list found (WorkerPool.iterate has one)')
  ctx.floor(rule, 1, n)


def r22(ctx: Ctx):
  rule = 'R-C06-22'
  ctx.rule(rule, '"as long as one worker stays usable ... retried": the retry budget counts TIMEOUTS. The counter that is compared'
           ' with the retry threshold grows, per scheduling round, by the number of tasks that timed out in that round — the'
           ' very collection that is put back on the work list (`<work>.extend(X)` ... `<counter> += len(X)`), or by one per'
           ' such task. Charging the length of the work list (which also holds shards that merely wait for a free worker)'
           ' counts the waiting shards again at every timeout: the budget is spent long before the real number of timeouts'
           ' reaches it and a run that would finish on the remaining workers is aborted')
  repo = ctx.repo
  n = 0
  for mod in (CW, 'chainables.orchestrate'):
    mi = repo.module(mod)
    fns = list(mi.functions.values()) + [m_ for c in mi.classes.values() for m_ in c.methods.values()]
    for fi in fns:
      counters = set()
      for c in ast.walk(fi.node):
        if isinstance(c, ast.Compare) and len(c.comparators) == 1:
          sides = [c.left, c.comparators[0]]      # comparisons are stored in canonical (`<`) orientation
          if any('retry_threshold' in unparse(x) or 'max_retries' in unparse(x) for x in sides):
            counters |= {x.id for x in sides if isinstance(x, ast.Name) and 'retr' not in x.id}
      if not counters:
        continue
      pm = parent_map(fi.node)
      for a in ast.walk(fi.node):
        if not (isinstance(a, ast.AugAssign) and isinstance(a.op, ast.Add) and isinstance(a.target, ast.Name)
                and a.target.id in counters):
          continue
        n += 1
        what = f'{fi.qualname}: `{a.target.id}` grows by the number of tasks that timed out'
        ok = False
        why = ''
        if isinstance(a.value, ast.Constant) and a.value.value == 1:
          ok = True
        elif isinstance(a.value, ast.Call) and unparse(a.value.func) == 'len' and len(a.value.args) == 1:
          x = unparse(a.value.args[0])
          block = pm.get(a)
          sibs = []
          for fld in ('body', 'orelse', 'finalbody'):
            b = getattr(block, fld, None)
            if isinstance(b, list) and a in b:
              sibs = b
          requeued = {unparse(c.args[0]) for st in sibs for c in ast.walk(st) if isinstance(c, ast.Call)
                      and isinstance(c.func, ast.Attribute) and c.func.attr == 'extend' and len(c.args) == 1}
          worklists = {unparse(c.func.value) for st in sibs for c in ast.walk(st) if isinstance(c, ast.Call)
                       and isinstance(c.func, ast.Attribute) and c.func.attr == 'extend' and len(c.args) == 1}
          ok = x in requeued and x not in worklists
          why = f'`{unparse(a)}` charges len({x}), which is not the collection put back for a retry ({sorted(requeued)})'
        else:
          why = f'`{unparse(a)}` is neither `+= 1` nor `+= len(<timed-out tasks>)`'
        if ok:
          ctx.ok(rule, fi, what, a)
        else:
          ctx.fail(rule, fi, what, why + ': shards that only wait for a worker are counted as timeouts at every round in which'
                   ' another shard times out — the run gives up with "Too many Timeouts" although the number of real'
                   ' timeouts is within the budget', node=a)
  ctx.floor(rule, 1, n)


def r23(ctx: Ctx):
  rule = 'R-C06-23'
  ctx.rule(rule, '"every output batch is delivered at least once": a request for the next remote batch is NOT idempotent — the'
           ' server keeps serving a request its client has given up on and hands the batch to nobody. In the polling loop of'
           ' CourierClient.async_iterate (the `while` that calls next_batch_from_generator) the await of the answer is'
           ' therefore never wrapped in a handler that polls again (`continue`) after an error: a timed-out request ends'
           ' the shard attempt (the shard is re-run from its start), it is not followed by a fresh request to the same,'
           ' moved-on generator — that batch would be lost without an error while the aggregate still counts it')
  ci = ctx.repo.cls('utils.courier_utils', 'CourierClient')
  n = 0
  for name in ('async_iterate',):
    fi = ci.methods.get(name)
    if fi is None:
      raise AnalysisError(f'{rule}: CourierClient.{name} not found')
    loops = [x for x in ast.walk(fi.node) if isinstance(x, ast.While) and any(
        isinstance(c, ast.Call) and unparse(c.func).endswith('next_batch_from_generator') for c in ast.walk(x))]
    for lp in loops:
      n += 1
      bad = None
      for t in ast.walk(lp):
        if isinstance(t, ast.Try) and any(isinstance(y, ast.Await) for b in t.body for y in ast.walk(b)):
          for h in t.handlers:
            if any(isinstance(y, ast.Continue) for b in h.body for y in ast.walk(b)):
              bad = h
      what = f'CourierClient.{name}: a failed next-batch request is not repeated against the same generator'
      if bad is not None:
        ctx.fail(rule, fi, what,
                 f'the handler `except {unparse(bad.type) if bad.type is not None else ""}` around the awaited answer continues the polling'
                 ' loop: after a deadline-exceeded request the server still takes the next element for the abandoned call, the'
                 ' repeated request carries on behind it — that output batch reaches nobody', node=bad)
      else:
        ctx.ok(rule, fi, what, lp)
  ctx.floor(rule, 1, n)


def r24(ctx: Ctx):
  rule = 'R-C06-24'
  ctx.rule(rule, '"as long as one worker stays usable ... every task result is delivered": the candidates `as_completed` offers to'
           ' `next_idle_worker` are ALL alive workers of the pool, proven ones first. The list handed over is built from'
           ' both the proven set and the rest (`backup`) unconditionally — not as an `or` / conditional fallback that drops'
           ' the unproven workers as soon as one worker is proven: when the only proven worker then dies by good-bye /'
           ' heartbeat (which does not remove it from the proven set), the loop sees no usable candidate and spins for ever'
           ' although an alive, idle worker exists')
  mi = ctx.repo.module('chainables.orchestrate')
  fi = mi.functions.get('as_completed')
  if fi is None:
    raise AnalysisError(f'{rule}: orchestrate.as_completed not found')
  n = 0
  for c in ast.walk(fi.node):
    if not (isinstance(c, ast.Call) and isinstance(c.func, ast.Attribute) and c.func.attr == 'next_idle_worker' and c.args
            and isinstance(c.args[0], ast.Name)):
      continue
    cand = c.args[0].id
    defs = [x.value for x in ast.walk(fi.node) if isinstance(x, ast.Assign) and any(isinstance(t, ast.Name) and t.id == cand for t in x.targets)]
    for d in defs:
      n += 1
      # names that are guaranteed to contribute: operands of `or` after the first, and IfExp arms, are not
      def guaranteed(e):
        if isinstance(e, ast.BoolOp) and isinstance(e.op, ast.Or):
          return guaranteed(e.values[0])
        if isinstance(e, ast.IfExp):
          return guaranteed(e.body) & guaranteed(e.orelse)
        out = set()
        for ch in ast.iter_child_nodes(e):
          out |= guaranteed(ch)
        if isinstance(e, ast.Name):
          out.add(e.id)
        return out
      g_ = guaranteed(d)
      rest = {t.id for x in ast.walk(fi.node) if isinstance(x, ast.Assign) and any(
          isinstance(y, ast.Attribute) and y.attr == 'workers' for y in ast.walk(x.value)) for t in x.targets if isinstance(t, ast.Name)}
      what = f'as_completed: the candidates `{cand}` always include the workers that are not proven yet'
      if rest and not (rest & g_) and not any(isinstance(y, ast.Attribute) and y.attr == 'workers' for y in ast.walk(d)):
        ctx.fail(rule, fi, what,
                 f'`{cand} = {unparse(d)[:70]}` offers {sorted(rest)} only as a fallback: once a worker is proven the others are never'
                 ' candidates again — if that worker dies without a failed call the remaining tasks are never submitted', node=d)
      else:
        ctx.ok(rule, fi, what, d)
  ctx.floor(rule, 1, n)


def r25(ctx: Ctx):
  rule = 'R-C06-25'
  ctx.rule(rule, '"a task whose worker died is retried elsewhere": a submitted task is bound to the client that SENT it. In'
           ' CourierClient.submit the task handed back carries `worker=self` — not the worker a re-queued task still names'
           ' (`task.worker or self`): the retried call would be judged by the liveness of the dead worker, failed with a'
           ' timeout on the next tick and re-queued again, for ever')
  ci = ctx.repo.cls('utils.courier_utils', 'CourierClient')
  fi = ci.methods.get('submit')
  if fi is None:
    raise AnalysisError(f'{rule}: CourierClient.submit not found')
  n = 0
  for r_ in walk_no_nested(fi.node):
    if not (isinstance(r_, ast.Return) and isinstance(r_.value, ast.Call)):
      continue
    kw = kwarg(r_.value, 'worker')
    if kw is None:
      continue
    n += 1
    what = 'CourierClient.submit: the returned task names the submitting client as its worker'
    if isinstance(kw, ast.Name) and kw.id == 'self':
      ctx.ok(rule, fi, what, r_)
    else:
      ctx.fail(rule, fi, what,
               f'`worker={unparse(kw)}`: a task that was re-queued after its worker died keeps naming that worker, so the pool'
               ' tests the dead worker\'s liveness for the call it has just sent to a healthy one', node=r_)
  ctx.floor(rule, 1, n)


def r26(ctx: Ctx):
  rule = 'R-C06-26'
  ctx.rule(rule, '"as long as one worker stays usable ... restarted workers rejoin": the answer to a remote next-batch request is'
           ' AWAITED (`await asyncio.wrap_future(<state>)`), which passes a cancellation of the abandoned shard attempt on to'
           ' the in-flight call. The polling loop of async_iterate contains no busy-wait on `<state>.done()`: a call that'
           ' is only polled stays pending for ever when its worker is killed mid-call (no deadline by default), the worker'
           ' is charged with it after its restart (`has_capacity` false) and is never offered work again')
  ci = ctx.repo.cls('utils.courier_utils', 'CourierClient')
  fi = ci.methods.get('async_iterate')
  if fi is None:
    raise AnalysisError(f'{rule}: CourierClient.async_iterate not found')
  n = 0
  for lp in ast.walk(fi.node):
    if not (isinstance(lp, ast.While) and any(isinstance(c, ast.Call) and unparse(c.func).endswith('next_batch_from_generator')
                                             for c in ast.walk(lp))):
      continue
    n += 1
    busy = [x for x in ast.walk(lp) if isinstance(x, ast.While) and x is not lp and any(
        isinstance(c, ast.Call) and isinstance(c.func, ast.Attribute) and c.func.attr == 'done' for c in ast.walk(x.test))]
    awaited = any(isinstance(a, ast.Await) and isinstance(a.value, ast.Call) and unparse(a.value.func).endswith('wrap_future')
                  for a in ast.walk(lp))
    what = 'CourierClient.async_iterate: the next-batch answer is awaited through wrap_future, not polled'
    if busy or not awaited:
      ctx.fail(rule, fi, what,
               (f'`while {unparse(busy[0].test)}:` polls the future' if busy else 'the answer is not awaited through asyncio.wrap_future')
               + ': cancelling the shard attempt no longer cancels the in-flight call — it stays among the pending calls of a'
               ' worker that was killed mid-call, and the restarted worker never has capacity again', node=(busy[0] if busy else lp))
    else:
      ctx.ok(rule, fi, what, lp)
  ctx.floor(rule, 1, n)


def r28(ctx: Ctx):
  rule = 'R-C06-28'
  ctx.rule(rule, '"every shard\'s aggregation state is merged exactly once": a shard attempt the pool has given up on (timed out, its'
           ' worker pronounced dead) is CANCELLED in the same sweep in which it is re-queued — the loop of WorkerPool.iterate'
           ' that calls `state.cancel()` on the timed-out tasks runs unconditionally, it is not nested under a test of the'
           ' retry counter. An abandoned attempt that is not cancelled keeps running: when its worker answers after all, it'
           ' delivers the shard\'s batches and state a second time next to the retry')
  fi = ctx.repo.func(CW, 'WorkerPool.iterate')
  n = 0
  pm = parent_map(fi.node)
  for lp in ast.walk(fi.node):
    if not (isinstance(lp, ast.For) and any(isinstance(c, ast.Call) and isinstance(c.func, ast.Attribute) and c.func.attr == 'cancel'
                                           for c in ast.walk(lp))):
      continue
    if not ('timeout' in unparse(lp.iter)):
      continue
    n += 1
    guard = None
    q = lp
    while q in pm and not isinstance(pm[q], (ast.While, ast.FunctionDef, ast.AsyncFunctionDef)):
      q = pm[q]
      if isinstance(q, ast.If) and any(isinstance(y, ast.Name) and ('threshold' in y.id or 'cnt' in y.id or 'retr' in y.id) for y in ast.walk(q.test)):
        guard = q
    what = 'WorkerPool.iterate: timed-out attempts are cancelled in every sweep'
    if guard is not None:
      ctx.fail(rule, fi, what,
               f'the cancelling loop runs only under `{unparse(guard.test)}`: while the budget lasts, an abandoned attempt keeps its'
               ' coroutine — if the stalled worker answers later, the shard\'s state reaches the result queue twice', node=lp)
    else:
      ctx.ok(rule, fi, what, lp)
  ctx.floor(rule, 1, n)


from mlmverif.selfcheck import B, OK  # noqa: E402

_W = 'chainables/courier_worker.py'
_O = 'chainables/orchestrate.py'
_U = 'utils/courier_utils.py'
VARIANTS = [
    OK('release-owner-test-through-a-local', 'chainables/courier_worker.py',
       "      if worker_pool is not None and self._worker_pool is not worker_pool:\n        # Free, or acquired by another pool since the caller looked.\n        return", "      owner = self._worker_pool\n      if worker_pool is not None and owner is not worker_pool:\n        return"),
    OK('unused-workers-through-a-local', 'chainables/orchestrate.py',
       "        worker_pool.release_all(unused_workers)", "        spare = unused_workers\n        worker_pool.release_all(spare)"),
    OK('stage-merge-through-a-local', 'chainables/orchestrate.py',
       "      agg_state = agg_fn.merge_states(agg_states)\n", "      merged_state = agg_fn.merge_states(agg_states)\n      agg_state = merged_state\n"),
    OK('next-batch-queue-through-a-local', 'chainables/courier_server.py',
       "      result = self._generator.get_batch(batch_size, block=True)", "      prefetched = self._generator\n      result = prefetched.get_batch(batch_size, block=True)"),
    OK('timed-out-attempts-cancelled-through-a-local', 'chainables/courier_worker.py',
       "        for task in timeout_tasks:\n          if (state := task.state) is not None:\n            state.cancel()\n", "        for task in timeout_tasks:\n          state = task.state\n          if state is not None:\n            state.cancel()\n"),
    B('timed-out-attempts-cancelled-only-when-giving-up', 'chainables/courier_worker.py',
      "        # Preemptively cancel task from the timeout workers.\n        for task in timeout_tasks:\n          if (state := task.state) is not None:\n            state.cancel()\n", "", 'R-C06-28',
      extra=(('chainables/courier_worker.py', "          if timeout_cnt > retry_threshold:\n            break", "          if timeout_cnt > retry_threshold:\n            for task in timeout_tasks:\n              if (state := task.state) is not None:\n                state.cancel()\n            break"),)),
    B('final-drain-of-the-output-queue-removed', 'chainables/courier_worker.py',
      "      while not output_queue.empty():\n        batch_cnt += 1\n        yield output_queue.get()\n      loop_thread.join()", "      loop_thread.join()", 'R-C06-27'),
    B('submit-keeps-the-worker-of-a-requeued-task', 'utils/courier_utils.py',
      "    return task.set(state=state, worker=self)", "    return task.set(state=state, worker=task.worker or self)", 'R-C06-25'),
    B('next-batch-answer-polled', 'utils/courier_utils.py',
      "        output_batch = lazy_fns.maybe_make(\n            await asyncio.wrap_future(output_state)\n        )\n",
      "        while not output_state.done():\n          if not self.is_alive:\n            raise TimeoutError(f'Async worker disconnected: {self}')\n          await asyncio.sleep(0)\n        output_batch = lazy_fns.maybe_make(output_state.result())\n", 'R-C06-26'),
    OK('next-batch-answer-awaited-through-a-local', 'utils/courier_utils.py',
       "        output_batch = lazy_fns.maybe_make(\n            await asyncio.wrap_future(output_state)\n        )\n",
       "        raw_batch = await asyncio.wrap_future(output_state)\n        output_batch = lazy_fns.maybe_make(raw_batch)\n"),
    B('repoll-after-a-timed-out-next-batch', 'utils/courier_utils.py',
      "        output_batch = lazy_fns.maybe_make(\n            await asyncio.wrap_future(output_state)\n        )\n",
      "        try:\n          output_batch = lazy_fns.maybe_make(\n              await asyncio.wrap_future(output_state)\n          )\n        except Exception as e:  # pylint: disable=broad-exception-caught\n          if is_timeout(e) and self.is_alive:\n            continue\n          raise\n", 'R-C06-23'),
    B('unproven-workers-only-as-a-fallback', 'chainables/orchestrate.py',
      "      workers = list(itertools.chain(preferred, backup_workers))", "      workers = list(preferred) or backup_workers", 'R-C06-24'),
    OK('candidates-by-list-concatenation', 'chainables/orchestrate.py',
       "      workers = list(itertools.chain(preferred, backup_workers))", "      workers = list(preferred) + backup_workers"),
    B('retry-budget-charged-with-the-work-list', 'chainables/courier_worker.py',
      "          timeout_cnt += len(timeout_tasks)", "          timeout_cnt += len(tasks)", 'R-C06-22'),
    OK('retry-budget-charged-before-requeue', 'chainables/courier_worker.py',
       "          tasks.extend(timeout_tasks)\n          timeout_cnt += len(timeout_tasks)", "          timeout_cnt += len(timeout_tasks)\n          tasks.extend(timeout_tasks)"),
    B('shutdown-rewrite-on-the-returned-way-only', 'chainables/courier_server.py',
      "      if self._shutdown_requested:\n        e = TimeoutError('Shutdown requested, the worker is shutting down.')\n      if not return_exception:\n        raise e\n",
      "      if not return_exception:\n        raise e\n      if self._shutdown_requested:\n        e = TimeoutError('Shutdown requested, the worker is shutting down.')\n", 'R-C06-21'),
    B('iterate-loop-forgets-queued-retries', _W,
      '      while not exhausted or tasks or running_tasks:', '      while not exhausted or running_tasks:', 'R-C06-19'),
    B('as-completed-loop-forgets-queued-retries', _O,
      '    while not exhausted or tasks or running_tasks:', '    while not exhausted or running_tasks:', 'R-C06-19'),
    OK('iterate-loop-condition-with-len', _W,
       '      while not exhausted or tasks or running_tasks:', '      while not exhausted or len(tasks) > 0 or running_tasks:'),
    OK('iterate-loop-condition-reordered', _W,
       '      while not exhausted or tasks or running_tasks:', '      while tasks or running_tasks or not exhausted:'),
    B('init-answer-not-raised', _U,
      "      init_state = self.call(\n          *task.args, courier_method='init_generator', **task.kwargs\n      )\n      if (init_state := await asyncio.wrap_future(init_state)) is not None:\n        raise init_state\n",
      "      await asyncio.wrap_future(\n          self.call(*task.args, courier_method='init_generator', **task.kwargs)\n      )\n", 'R-C06-18'),
    OK('init-answer-raised-through-two-names', _U,
       "      if (init_state := await asyncio.wrap_future(init_state)) is not None:\n        raise init_state\n",
       "      answer = await asyncio.wrap_future(init_state)\n      if answer is not None:\n        raise answer\n"),
    B('owned-worker-not-checked-alive', _W,
      '      if worker.is_locked(self):\n        if worker.has_capacity and worker.is_alive:\n          return worker',
      '      if worker.is_locked(self):\n        if worker.has_capacity:\n          return worker', 'R-C06-14'),
    OK('owned-worker-guard-clauses', _W,
       '      if worker.is_locked(self):\n        if worker.has_capacity and worker.is_alive:\n          return worker',
       '      if worker.is_locked(self):\n        if not worker.is_alive:\n          continue\n        if worker.has_capacity:\n          return worker'),
    B('tolerate-before-timeout-test', _O,
      '            if isinstance(exc, TimeoutError) or courier_worker.is_timeout(exc):\n              logging.warning(\n                  \'chainable: %s\',\n                  f\'deadline exceeded at {task.server_name}, retrying task.\',\n              )\n              tasks.append(task.set(_exc=None))\n            elif ignore_failures:',
      '            if ignore_failures:\n              logging.exception(\'chainable: %s\', f\'task failed with exception: {exc}, task: {task}\')\n            elif isinstance(exc, TimeoutError) or courier_worker.is_timeout(exc):\n              logging.warning(\n                  \'chainable: %s\',\n                  f\'deadline exceeded at {task.server_name}, retrying task.\',\n              )\n              tasks.append(task.set(_exc=None))\n            elif ignore_failures:',
      'R-C06-13'),
    OK('timeout-test-negated-first', _O,
       '            if isinstance(exc, TimeoutError) or courier_worker.is_timeout(exc):\n              logging.warning(\n                  \'chainable: %s\',\n                  f\'deadline exceeded at {task.server_name}, retrying task.\',\n              )\n              tasks.append(task.set(_exc=None))\n            elif ignore_failures:\n              logging.exception(\n                  \'chainable: %s\',\n                  f\'task failed with exception: {exc}, task: {task}\',\n              )\n            else:\n              raise exc',
       '            transient = isinstance(exc, TimeoutError) or courier_worker.is_timeout(exc)\n            if transient:\n              tasks.append(task.set(_exc=None))\n            elif ignore_failures:\n              logging.exception(\n                  \'chainable: %s\',\n                  f\'task failed with exception: {exc}, task: {task}\',\n              )\n            else:\n              raise exc'),
    B('revert-reserve-at-most-candidates', _O,
      '          num_reserved_workers = min(len(running - preferred), len(candidates))',
      '          num_reserved_workers = len(running - preferred)', 'R-C06-12'),
    OK('reserve-clamp-inline', _O,
       '          num_reserved_workers = min(len(running - preferred), len(candidates))\n          reserved.update(random.sample(candidates, k=num_reserved_workers))',
       '          reserved.update(random.sample(candidates, k=min(len(candidates), len(running - preferred))))'),
    B('liveness-before-completion', _W,
      '          if task.done():\n            if exc := task.exception():',
      '          if not task.is_alive and not task.done():\n            timeout_tasks.append(task.set(_exc=None))\n          elif not task.is_alive:\n            timeout_tasks.append(task.set(_exc=None))\n          elif task.done():\n            if exc := task.exception():',
      'R-C06-11'),
    B('failure-stored-after-stop', 'utils/iter_utils.py',
      '        self._exception = e\n        self._stop_enqueue()\n        e.add_note(f\'Exception during enqueueing "{self.name}".\')',
      '        self._stop_enqueue()\n        self._exception = e\n        e.add_note(f\'Exception during enqueueing "{self.name}".\')',
      'R-C06-10'),
    B('placeholder-cancel-outside-finally', _U,
      '      raise e\n    finally:\n      generator_state.cancel()',
      '      raise e\n    generator_state.cancel()', 'R-C06-8'),
    B('restarted-worker-answers-fatal', 'chainables/courier_server.py',
      "    if self._generator is None:\n      e = TimeoutError(", "    if self._generator is None:\n      e = RuntimeError(",
      'R-C06-9'),
    B('alive-heartbeat-only-refreshes', 'chainables/courier_server.py',
      '      courier_utils.worker_registry().register(\n          sender_addr, self._last_heartbeat\n      )',
      '      courier_utils.worker_registry().refresh(\n          sender_addr, self._last_heartbeat\n      )',
      'R-C06-7'),
    OK('heartbeat-branches-swapped-with-not', 'chainables/courier_server.py',
       '    if is_alive:\n      # Assign the heartbeat directly as server side heartbeat precededs the\n      # client side one.\n      courier_utils.worker_registry().register(\n          sender_addr, self._last_heartbeat\n      )\n    else:\n      courier_utils.worker_registry().unregister(sender_addr)',
       '    if not is_alive:\n      courier_utils.worker_registry().unregister(sender_addr)\n    else:\n      courier_utils.worker_registry().register(\n          sender_addr, self._last_heartbeat\n      )'),
    B('give-up-at-threshold-raise-above', _W,
      '          if timeout_cnt > retry_threshold:\n            break',
      '          if timeout_cnt >= retry_threshold:\n            break', 'R-C06-6'),
    B('failed-break-without-recording', _W,
      '          failed_tasks.extend(new_failed_tasks)\n          break',
      '          break', 'R-C06-6'),
    OK('give-up-both-at-threshold', _W,
       '          if timeout_cnt > retry_threshold:\n            break',
       '          if timeout_cnt >= retry_threshold:\n            break',
       extra=((_W, '      if timeout_cnt > retry_threshold and timeout_tasks:',
               '      if timeout_cnt >= retry_threshold and timeout_tasks:'),)),
    B('retry-forgets-future', _W,
      "                'chainable: %s', f'worker timeout, worker: {task.worker}'\n            )\n            timeout_tasks.append(task.set(_exc=None))",
      "                'chainable: %s', f'worker timeout, worker: {task.worker}'\n            )\n            timeout_tasks.append(task.set(_exc=None, state=None))",
      'R-C06-1'),
    B('iterate-drops-still-running', _W,
      '          elif task.is_alive:\n            still_running_tasks.append(task)\n',
      '          elif task.is_alive:\n            pass\n', 'R-C06-1'),
    B('iterate-orphan-dropped', _W,
      "                'chainable: %s', f'worker timeout, worker: {task.worker}'\n            )\n            timeout_tasks.append(task.set(_exc=None))",
      "                'chainable: %s', f'worker timeout, worker: {task.worker}'\n            )",
      'R-C06-1'),
    B('as-completed-retry-and-keep', _O,
      '              tasks.append(task.set(_exc=None))\n            elif ignore_failures:',
      '              tasks.append(task.set(_exc=None))\n              still_running.append(task)\n            elif ignore_failures:',
      'R-C06-1'),
    B('retry-keeps-exception', _O,
      "          task.state.set_exception(TimeoutError(f'{task.server_name} timeout.'))\n          tasks.append(task.set(_exc=None))",
      "          task.state.set_exception(TimeoutError(f'{task.server_name} timeout.'))\n          tasks.append(task)",
      'R-C06-1'),
    B('timeouts-not-requeued', _W, '          tasks.extend(timeout_tasks)\n', '', 'R-C06-2'),
    B('new-task-before-retries', _W,
      '          if not tasks and not exhausted:\n            try:\n              tasks.append(_as_generator_task(next(task_iterator)))',
      '          if not exhausted:\n            try:\n              tasks.append(_as_generator_task(next(task_iterator)))',
      'R-C06-2'),
    B('return-value-for-any-exception', _U,
      '          if iter_utils.is_stop_iteration(elem):\n            exhausted = True',
      '          if isinstance(elem, Exception):\n            exhausted = True', 'R-C06-3'),
    B('worker-error-swallowed', _U,
      "          elif elem != ValueError('generator already executing'):\n            raise elem",
      "          elif elem != ValueError('generator already executing'):\n            logging.error('chainable: %s', f'{elem}')",
      'R-C06-3'),
    B('stop-marker-only-on-success', _W,
      '      if generator_result_queue:\n        generator_result_queue.put(iter_utils.STOP_ITERATION)\n      if failed_tasks:',
      '      if generator_result_queue and not failed_tasks:\n        generator_result_queue.put(iter_utils.STOP_ITERATION)\n      if failed_tasks:',
      'R-C06-4'),
    OK('disposition-reordered', _W,
      '            else:\n              finished_cnt += 1\n          elif task.is_alive:',
      '            else:\n              finished_cnt = finished_cnt + 0\n              finished_cnt += 1\n          elif task.is_alive:'),
]
