"""C07 — metric values equal their mathematical definitions (structural part).

The confusion-matrix family, the per-row retrieval rates and the closed-form
rolling statistics are extracted from the source into exact rational-function
normal forms (helpers and properties inlined) and compared with reference
formulas written from the textbook definitions; the count derivation is
checked over the minterms of (true, positive); every public name reaches the
formula of that name through the enum, the dispatch and the one-shot API.
"""
from __future__ import annotations

import ast

from mlmverif.core import (kwarg, parent_map, AnalysisError, Ctx, FuncInfo, is_self_attr, norm,
                           unparse, walk_no_nested)
from mlmverif.sym import (Cases, Obj, RF, SymEval, SymUnsupported,
                          eval_reference, values_equal)

EXPLANATION = (
    'Symbolic normal forms (exact rational functions over tp,tn,fp,fn with'
    ' uninterpreted safe_divide/sqrt/min terms; equality by'
    ' cross-multiplication, modulo AC, expansion, inlining and renaming).'
    ' Decides: each of the confusion-matrix rates reached from derive_metric'
    ' equals its textbook rational function incl. the zero-denominator'
    ' convention; the four counts are exactly |P&T|,|~P&~T|,|P&~T|,|~P&T|'
    ' with true from y_true and positive from y_pred; documented aliases have'
    ' equal normal forms; every enum member is dispatched to the formula of'
    ' its name; per-row retrieval rates (precision/recall/IoU/F1/miss/FDR/'
    'threat/Fowlkes-Mallows/accuracy) equal their definitions with arguments'
    ' in the right roles and are stored under their own key; one-shot'
    ' functions pass the member of their own name and forward every'
    ' parameter; MeanState/Frequency/Tjur/Pearson/SPD closed forms. NOT'
    ' decided: rank metrics (MAP/MRR/DCG/NDCG), histogram/NaN statistics,'
    ' rolling variance, value ranges — value-level.'
)
ASSUMPTIONS = ['Reference formulas are the standard definitions'
               ' (en.wikipedia.org/wiki/Confusion_matrix), written inside'
               ' this rule module.']

CLS = 'aggregates.classification'
RET = 'aggregates.retrieval'

REF_CM = '''
def precision(tp, tn, fp, fn): return SD(tp, tp + fp)
def ppv(tp, tn, fp, fn): return SD(tp, tp + fp)
def positive_predictive_value(tp, tn, fp, fn): return SD(tp, tp + fp)
def recall(tp, tn, fp, fn): return SD(tp, tp + fn)
def sensitivity(tp, tn, fp, fn): return SD(tp, tp + fn)
def tpr(tp, tn, fp, fn): return SD(tp, tp + fn)
def f1_score(tp, tn, fp, fn):
  p = SD(tp, tp + fp)
  r = SD(tp, tp + fn)
  return SD(2 * p * r, p + r)
def accuracy(tp, tn, fp, fn): return tp > 0
def binary_accuracy(tp, tn, fp, fn): return SD(tp + tn, tp + tn + fp + fn)
def specificity(tp, tn, fp, fn): return SD(tn, tn + fp)
def tnr(tp, tn, fp, fn): return SD(tn, tn + fp)
def fall_out(tp, tn, fp, fn): return SD(fp, fp + tn)
def fpr(tp, tn, fp, fn): return SD(fp, fp + tn)
def miss_rate(tp, tn, fp, fn): return SD(fn, fn + tp)
def fnr(tp, tn, fp, fn): return SD(fn, fn + tp)
def negative_prediction_value(tp, tn, fp, fn): return SD(tn, tn + fn)
def nvp(tp, tn, fp, fn): return SD(tn, tn + fn)
def false_discovery_rate(tp, tn, fp, fn): return SD(fp, fp + tp)
def false_omission_rate(tp, tn, fp, fn): return SD(fn, fn + tn)
def threat_score(tp, tn, fp, fn): return SD(tp, tp + fn + fp)
def intersection_over_union(tp, tn, fp, fn): return SD(tp, tp + fn + fp)
def positive_likelihood_ratio(tp, tn, fp, fn):
  return SD(SD(tp, tp + fn), SD(fp, fp + tn))
def negative_likelihood_ratio(tp, tn, fp, fn):
  return SD(SD(fn, fn + tp), SD(tn, tn + fp))
def diagnostic_odds_ratio(tp, tn, fp, fn):
  return SD(SD(SD(tp, tp + fn), SD(fp, fp + tn)),
            SD(SD(fn, fn + tp), SD(tn, tn + fp)))
def prevalence(tp, tn, fp, fn): return SD(tp + fn, tp + tn + fp + fn)
def prevalence_threshold(tp, tn, fp, fn):
  tpr_ = SD(tp, tp + fn)
  tnr_ = SD(tn, tn + fp)
  return SD(SQRT(tpr_ * (1 - tnr_)) + tnr_ - 1, tpr_ + tnr_ - 1)
def matthews_correlation_coefficient(tp, tn, fp, fn):
  return SD(tp * tn - fp * fn,
            SQRT((tp + fp) * (tp + fn) * (tn + fp) * (tn + fn)))
def informedness(tp, tn, fp, fn): return SD(tp, tp + fn) + SD(tn, tn + fp) - 1
def markedness(tp, tn, fp, fn): return SD(tp, tp + fp) + SD(tn, tn + fn) - 1
def balanced_accuracy(tp, tn, fp, fn):
  return (SD(tp, tp + fn) + SD(tn, tn + fp)) / 2
'''
CM_EXEMPT = {
    'confusion_matrix': 'returns the matrix itself',
    'mean_average_precision': 'deliberately unsupported for a confusion'
                              ' matrix: falls to the raising default arm',
}
ALIAS_GROUPS = [
    ('precision', 'ppv', 'positive_predictive_value'),
    ('recall', 'sensitivity', 'tpr'),
    ('specificity', 'tnr'),
    ('fall_out', 'fpr'),
    ('miss_rate', 'fnr'),
    ('negative_prediction_value', 'nvp'),
    ('threat_score', 'intersection_over_union'),
]

# retrieval references over role atoms
REF_RET = '''
def _tpk(TPK, KLIST): return TPK[:, KLIST - 1]
def accuracy(TP, TPK, KLIST, KRANGE, PREDCOUNT, TRUECOUNT):
  return _tpk(TPK, KLIST) > 0
def precision(TP, TPK, KLIST, KRANGE, PREDCOUNT, TRUECOUNT):
  return _tpk(TPK, KLIST) / np.minimum(KLIST, PREDCOUNT[:, np.newaxis])
def ppv(TP, TPK, KLIST, KRANGE, PREDCOUNT, TRUECOUNT):
  return _tpk(TPK, KLIST) / np.minimum(KLIST, PREDCOUNT[:, np.newaxis])
def positive_predictive_value(TP, TPK, KLIST, KRANGE, PREDCOUNT, TRUECOUNT):
  return _tpk(TPK, KLIST) / np.minimum(KLIST, PREDCOUNT[:, np.newaxis])
def recall(TP, TPK, KLIST, KRANGE, PREDCOUNT, TRUECOUNT):
  return _tpk(TPK, KLIST) / TRUECOUNT[:, np.newaxis]
def sensitivity(TP, TPK, KLIST, KRANGE, PREDCOUNT, TRUECOUNT):
  return _tpk(TPK, KLIST) / TRUECOUNT[:, np.newaxis]
def tpr(TP, TPK, KLIST, KRANGE, PREDCOUNT, TRUECOUNT):
  return _tpk(TPK, KLIST) / TRUECOUNT[:, np.newaxis]
def intersection_over_union(TP, TPK, KLIST, KRANGE, PREDCOUNT, TRUECOUNT):
  return _tpk(TPK, KLIST) / (np.minimum(KLIST, PREDCOUNT[:, np.newaxis])
                             + TRUECOUNT[:, np.newaxis] - _tpk(TPK, KLIST))
def f1_score(TP, TPK, KLIST, KRANGE, PREDCOUNT, TRUECOUNT):
  p = _tpk(TPK, KLIST) / np.minimum(KLIST, PREDCOUNT[:, np.newaxis])
  r = _tpk(TPK, KLIST) / TRUECOUNT[:, np.newaxis]
  return SD(2 * p * r, p + r)
def miss_rate(TP, TPK, KLIST, KRANGE, PREDCOUNT, TRUECOUNT):
  return 1 - _tpk(TPK, KLIST) / TRUECOUNT[:, np.newaxis]
def false_discovery_rate(TP, TPK, KLIST, KRANGE, PREDCOUNT, TRUECOUNT):
  return 1 - _tpk(TPK, KLIST) / np.minimum(KLIST, PREDCOUNT[:, np.newaxis])
def threat_score(TP, TPK, KLIST, KRANGE, PREDCOUNT, TRUECOUNT):
  return _tpk(TPK, KLIST) / (TRUECOUNT[:, np.newaxis] - _tpk(TPK, KLIST) + KLIST)
def fowlkes_mallows_index(TP, TPK, KLIST, KRANGE, PREDCOUNT, TRUECOUNT):
  p = _tpk(TPK, KLIST) / np.minimum(KLIST, PREDCOUNT[:, np.newaxis])
  r = _tpk(TPK, KLIST) / TRUECOUNT[:, np.newaxis]
  return SQRT(p * r)
def mean_average_precision(TP, TPK, KLIST, KRANGE, PREDCOUNT, TRUECOUNT):
  # AP@k = sum over the relevant ranks i <= k of precision@i, divided by min(k, number of relevant items)
  precision_at_rank = TPK[:, KRANGE - 1] / KRANGE
  relevant = TP > 0
  ap = np.cumsum(precision_at_rank * relevant, axis=1) / np.minimum(KRANGE, TRUECOUNT[:, np.newaxis])
  return ap[:, KLIST - 1]
def mean_reciprocal_rank(TP, TPK, KLIST, KRANGE, PREDCOUNT, TRUECOUNT):
  first = np.argmax(TPK > 0, axis=1) + 1
  ranks = np.where(TPK > 0, first[:, np.newaxis], np.inf)
  return (1.0 / ranks)[:, KLIST - 1]
def dcg_score(TP, TPK, KLIST, KRANGE, PREDCOUNT, TRUECOUNT):
  gain = 1.0 / np.log2(KRANGE + 1)
  return np.cumsum(np.where(TP > 0, gain, 0.0), axis=1)[:, KLIST - 1]
def ndcg_score(TP, TPK, KLIST, KRANGE, PREDCOUNT, TRUECOUNT):
  gain = 1.0 / np.log2(KRANGE + 1)
  dcg = np.cumsum(np.where(TP > 0, gain, 0.0), axis=1)
  ideal = np.cumsum(np.where(KRANGE > TRUECOUNT[:, np.newaxis], 0.0, gain), axis=1)
  return dcg[:, KLIST - 1] / ideal[:, KLIST - 1]
'''
RET_BY_CALL = {}  # formerly the rank metrics (decided by helper name only); they have reference formulas now
ROLES = ('TP', 'TPK', 'KLIST', 'KRANGE', 'PREDCOUNT', 'TRUECOUNT')

REF_STATS = '''
def MeanState_result(total, count): return SD(total, count)
def R2Tjur_result(sum_y_true, sum_y_pred, sum_neg_y_true, sum_neg_y_pred):
  if math.isclose(sum_y_true, 0) or math.isclose(sum_neg_y_true, 0):
    return float('nan')
  return sum_y_pred / sum_y_true - sum_neg_y_pred / sum_neg_y_true
def R2TjurRelative_result(sum_y_true, sum_y_pred, sum_neg_y_true, sum_neg_y_pred):
  if math.isclose(sum_y_true, 0) or math.isclose(sum_neg_y_pred, 0):
    return float('nan')
  return (sum_y_pred / sum_y_true) / (sum_neg_y_pred / sum_neg_y_true)
def RRegression_result(center, num_samples, sum_x, sum_y, sum_xx, sum_yy, sum_xy):
  if center:
    return ((sum_xy - sum_x * sum_y / num_samples)
            / (SQRT(sum_xx - sum_x**2 / num_samples)
               * SQRT(sum_yy - sum_y**2 / num_samples)))
  else:
    return sum_xy / SQRT(sum_xx * sum_yy)
def SymmetricPredictionDifference_result(num_samples, sum_half_pointwise_rel_diff):
  if num_samples == 0:
    return float('nan')
  return 2 * sum_half_pointwise_rel_diff / num_samples
'''
STATS = [
    ('aggregates.utils', 'MeanState', 'MeanState_result'),
    ('aggregates.rolling_stats', 'R2Tjur', 'R2Tjur_result'),
    ('aggregates.rolling_stats', 'R2TjurRelative', 'R2TjurRelative_result'),
    ('aggregates.rolling_stats', 'RRegression', 'RRegression_result'),
    ('aggregates.rolling_stats', 'SymmetricPredictionDifference',
     'SymmetricPredictionDifference_result'),
]


def run(ctx: Ctx):
  st = {}
  for r in (r1, r2, r3, r4, r5, r6, r7, r9, r10, r12, r14, r15, r16, r17, r18, r19, r20, r21, r22, r23, r24, r25):
    ctx.guard(r, st)
  from mlmverif.props import c11
  from mlmverif.props._agg import model as aggmodel
  ctx.include('R-C07-11', '"the one-shot function API returns the same value as the'
              ' accumulator API": an accumulator keeps everything it combined'
              ' (R-C11-6 lossless add/merge), truncation to top-k belongs in'
              ' result()', c11.r6, aggmodel(ctx), min_instances=15)
  ctx.include('R-C07-8', '"the accumulator API returns the same value as the'
              ' one-shot API": an accumulator never shares mutable state with'
              ' a state merged into it, so later updates cannot corrupt either'
              ' value (R-C11-1, R-C11-2)', _c11_shared, aggmodel(ctx), min_instances=20)
  from mlmverif.props import c01
  ctx.include('R-C07-13', '"calibration ... the one-shot function API returns the same'
              ' value as the accumulator API": an accumulator fed through merge()'
              ' pairs every statistic with the same-named statistic of the operand,'
              ' also through positional helper calls (R-C01-5 name pairing) — a'
              ' crossed pair (labels <-> predictions) leaves counts and shapes'
              ' right and every derived rate wrong; and merge combines every accumulated'
              ' statistic driven by the OPERAND\'s content, not by what the receiver happens'
              ' to hold — a fresh receiver must not drop what is merged into it (R-C01-1)',
              _c01_shared, aggmodel(ctx), min_instances=25)

def r14(ctx: Ctx, st):
  rule = 'R-C07-14'
  ctx.rule(rule, '"documented aliases agree with each other": the flip masks'
           ' (binary = neg_to_pos + pos_to_neg; pos_to_neg(b, m) = neg_to_pos(m, b)) all'
           ' classify a score against the threshold, so every comparison of a prediction'
           ' with the threshold in signals/flip_masks must put the boundary score =='
           ' threshold on the SAME side: `>` and `<=` call it negative, `>=` and `<` call'
           ' it positive. A single deviating comparison makes a score exactly at the'
           ' threshold count in one mask and not in its mirror image')
  mi = ctx.repo.module('signals.flip_masks')
  sides = []
  for fi in mi.functions.values():
    ps = fi.params()
    th = [p_ for p_ in ps if 'threshold' in p_]
    if not th:
      continue
    th = th[0]
    for c in walk_no_nested(fi.node):
      if not (isinstance(c, ast.Compare) and len(c.ops) == 1):
        continue
      l, r_, op = c.left, c.comparators[0], c.ops[0]
      lt, rt = isinstance(l, ast.Name) and l.id == th, isinstance(r_, ast.Name) and r_.id == th
      if lt == rt or not isinstance(op, (ast.Lt, ast.LtE, ast.Gt, ast.GtE)):
        continue
      other = r_ if lt else l
      if not (isinstance(other, ast.Name) and other.id in ps):
        continue
      # orient as  score <op> threshold
      o = type(op)
      if lt:
        o = {ast.Lt: ast.Gt, ast.Gt: ast.Lt, ast.LtE: ast.GtE, ast.GtE: ast.LtE}[o]
      side = 'negative' if o in (ast.Gt, ast.LtE) else 'positive'
      sides.append((fi, c, side))
  if len(sides) < 6:
    raise AnalysisError(f'{rule}: only {len(sides)} threshold comparisons found in signals/flip_masks (6 confirmed)')
  from collections import Counter
  major = Counter(sd for _, _, sd in sides).most_common(1)[0][0]
  for fi, c, sd in sides:
    if sd == major:
      ctx.ok(rule, fi, f'{fi.name}: `{unparse(c)}` puts score == threshold on the {sd} side', c)
    else:
      ctx.fail(rule, fi, f'{fi.name}: threshold comparisons agree on the side of score == threshold',
               f'`{unparse(c)}` treats a score equal to the threshold as {sd} while the other'
               f' {sum(1 for _, _, s_ in sides if s_ == major)} comparisons of the flip masks treat it as {major}:'
               ' for a score exactly at the threshold binary_flip_mask no longer equals neg_to_pos +'
               ' pos_to_neg and pos_to_neg(base, model) differs from neg_to_pos(model, base)', node=c)
  ctx.floor(rule, 6)



def _c01_shared(sub, m):
  from mlmverif.props import c01
  sub.guard(c01.r5, m)
  sub.guard(c01.r1, m)

def r15(ctx: Ctx, st):
  rule = 'R-C07-15'
  ctx.rule(rule, '"text-frequency ... returns the value given by its textbook definition":'
           ' a user pattern is a LITERAL string — every `re.<fn>(pattern, ...)` in the'
           ' text aggregates and text signals gets either a constant pattern or an'
           ' expression in which every non-constant part is wrapped in re.escape(...)'
           ' (also through str.format / f-strings / `+`). An unescaped user pattern is'
           ' interpreted as a regular expression: \'a.c\' also counts \'abc\', \'1+1\''
           ' counts \'11\' but not itself — and the duplicate-counting mode disagrees'
           ' with the plain find() mode')
  repo = ctx.repo
  n = 0

  def safe(e) -> bool:
    if isinstance(e, ast.Constant):
      return True
    if isinstance(e, ast.Call) and unparse(e.func) == 're.escape':
      return True
    if isinstance(e, ast.Call) and isinstance(e.func, ast.Attribute) and e.func.attr == 'format':
      return safe(e.func.value) and all(safe(a) for a in e.args) and all(safe(k.value) for k in e.keywords)
    if isinstance(e, ast.JoinedStr):
      return all(safe(v.value) if isinstance(v, ast.FormattedValue) else True for v in e.values)
    if isinstance(e, ast.BinOp) and isinstance(e.op, (ast.Add, ast.Mod)):
      return safe(e.left) and safe(e.right)
    if isinstance(e, ast.Tuple):
      return all(safe(x) for x in e.elts)
    return False

  for mod in ('aggregates.text', 'signals.text'):
    mi = repo.module(mod)
    fns = list(mi.functions.values()) + [m_ for c in mi.classes.values() for m_ in c.methods.values()]
    for fi in fns:
      for c in ast.walk(fi.node):
        if isinstance(c, ast.Call) and isinstance(c.func, ast.Attribute) and isinstance(c.func.value, ast.Name) and (
            c.func.value.id == 're') and c.func.attr in ('compile', 'search', 'match', 'fullmatch', 'findall',
                                                           'finditer', 'sub', 'subn', 'split') and c.args:
          n += 1
          pat = c.args[0]
          # follow one local definition
          if isinstance(pat, ast.Name):
            defs = [x.value for x in ast.walk(fi.node) if isinstance(x, ast.Assign) and any(
                isinstance(t, ast.Name) and t.id == pat.id for t in x.targets)]
            ok = bool(defs) and all(safe(d) for d in defs)
          else:
            ok = safe(pat)
          if ok:
            ctx.ok(rule, fi, f're.{c.func.attr}: pattern is constant or escaped', c)
          else:
            ctx.fail(rule, fi, f'{fi.qualname}: re.{c.func.attr} pattern is a constant or re.escape()d',
                     f'`{unparse(c)[:70]}` builds its regular expression from `{unparse(pat)[:40]}` without'
                     ' re.escape: a user pattern with metacharacters (. + | $ ...) is matched as a regex,'
                     ' not counted as the literal string the metric is defined over', node=c)
  ctx.floor(rule, 5, n)


def r16(ctx: Ctx, st):
  rule = 'R-C07-16'
  ctx.rule(rule, '"for every ... k-list": the top-k prediction set at k contains ranks 1..k whatever other'
           ' cut-offs were requested. In _apply_vocab_at_k the loop that marks the predictions in the'
           ' indicator matrix visits EVERY rank below the largest k — it iterates `range(<bound>)` with'
           ' the rank as loop variable, and only the yield is restricted to the requested ks. A loop'
           ' over the requested ks themselves skips the ranks in between: with k_list=[1, 3] the'
           ' prediction at rank 2 never enters the top-3 set, and the value at a given k depends on which'
           ' other ks were asked for')
  fi = ctx.repo.module('aggregates.classification').functions.get('_apply_vocab_at_k')
  if fi is None:
    raise AnalysisError(f'{rule}: _apply_vocab_at_k not found')
  n = 0
  for lp in walk_no_nested(fi.node):
    if not (isinstance(lp, ast.For) and isinstance(lp.target, ast.Name)):
      continue
    rv = lp.target.id
    # the rank variable indexes a row of predictions somewhere in the body (directly or via j = k - 1)
    derived = {rv} | {t.id for x in ast.walk(lp) if isinstance(x, ast.Assign) and any(
        isinstance(y, ast.Name) and y.id == rv for y in ast.walk(x.value)) for t in x.targets if isinstance(t, ast.Name)}
    marks = any(isinstance(sub, ast.Subscript) and isinstance(sub.slice, ast.Name) and sub.slice.id in derived
                and isinstance(sub.ctx, ast.Load) for sub in ast.walk(lp))
    if not marks:
      continue
    n += 1
    it = lp.iter
    contiguous = isinstance(it, ast.Call) and unparse(it.func) == 'range' and len(it.args) == 1
    if contiguous:
      ctx.ok(rule, fi, f'ranks visited by `for {rv} in {unparse(it)[:40]}`', lp)
    else:
      ctx.fail(rule, fi, '_apply_vocab_at_k marks every rank up to the largest k',
               f'the marking loop runs over `{unparse(it)[:50]}` instead of every rank below the largest k: ranks'
               ' that are not themselves requested are never marked, so precision/recall@k for a sparse k_list'
               ' (e.g. [1, 3] or [5]) are computed from an incomplete top-k set', node=lp)
  ctx.floor(rule, 1, n)


def r17(ctx: Ctx, st):
  rule = 'R-C07-17'
  ctx.rule(rule, 'documented input conventions are implemented: when the docstring of an accumulation'
           ' method says of a parameter that "negative values are filtered out" (the masking convention'
           ' of an external matcher), the array built from that parameter is restricted with a'
           ' boolean mask `x = x[x >= 0]` BEFORE its length is taken or it is compared with the'
           ' thresholds. The true-positive counts do not notice a missing filter (negatives never'
           ' exceed a threshold), but `len(x)` is the recall denominator: masked truths would count'
           ' as missed relevant items, and the count depends on how much padding a batch carries')
  repo = ctx.repo
  n = 0
  for mod in ('aggregates.retrieval',):
    mi = repo.module(mod)
    for ci in mi.classes.values():
      for fi in ci.methods.values():
        doc = ast.get_docstring(fi.node) or ''
        if 'negative values are filtered out' not in ' '.join(doc.split()):
          continue
        # parameters the sentence is attached to: "<param>: ... negative values are filtered out"
        # the entries of the Args section: "<param>: text ..." up to the next "<name>:" line
        entries, cur = {}, None
        for line in doc.splitlines():
          st_ = line.strip()
          head = st_.split(':', 1)[0]
          if ':' in st_ and head in fi.params():
            cur = head
            entries[cur] = st_.split(':', 1)[1]
          elif st_.endswith(':') and ' ' not in st_:
            cur = None      # "Returns:" etc.
          elif cur is not None:
            entries[cur] += ' ' + st_
        params = [p_ for p_, txt in entries.items() if 'negative values are filtered out' in ' '.join(txt.split())]
        for p_ in params:
          n += 1
          filt = [x for x in walk_no_nested(fi.node) if isinstance(x, ast.Assign) and isinstance(x.value, ast.Subscript)
                  and any(isinstance(t, ast.Name) and t.id == p_ for t in x.targets)
                  and isinstance(x.value.value, ast.Name) and x.value.value.id == p_
                  and isinstance(x.value.slice, ast.Compare) and isinstance(x.value.slice.ops[0], (ast.GtE, ast.LtE, ast.Gt, ast.Lt))
                  and any(isinstance(y, ast.Name) and y.id == p_ for y in ast.walk(x.value.slice))]
          uses = [x for x in walk_no_nested(fi.node) if isinstance(x, ast.Call) and unparse(x.func) == 'len' and x.args
                  and isinstance(x.args[0], ast.Name) and x.args[0].id == p_]
          if filt and all(u.lineno > filt[0].lineno for u in uses):
            ctx.ok(rule, fi, f'{fi.qualname}: `{p_}` filtered before it is counted', filt[0])
          else:
            ctx.fail(rule, fi, f'{fi.qualname}: `{p_}` is restricted to its non-negative entries as documented',
                     f'the docstring promises that negative values of `{p_}` are filtered out, but `{p_}` is never'
                     f' restricted with a mask (`{p_} = {p_}[{p_} >= 0]`) before `len({p_})` becomes a count statistic:'
                     ' entries masked out by the matcher are counted, so recall and f1 are deflated and depend on the'
                     ' padding of each batch', node=(uses[0] if uses else fi.node))
  ctx.floor(rule, 2, n)



_TO_FLOAT = {'safe_divide', 'divide', 'true_divide', 'sqrt', 'pos_sqrt', 'float', 'float64', 'float32', 'log', 'exp',
             'mean', 'nanmean'}
_FLOAT_DTYPES = {'float', 'np.float64', 'np.float32', 'np.double', 'numpy.float64', 'types.DefaultDType',
                 'agg_types.DefaultDType', 'DefaultDType'}


def r18(ctx: Ctx, st):
  rule = 'R-C07-18'
  ctx.rule(rule, '"metric values equal their mathematical definitions ... rates stay in their mathematical range": the'
           ' confusion-matrix cells are INTEGER counts (int64). In every formula over a confusion matrix, an integer-typed'
           ' intermediate has degree <= 2 in the counts: a product of three or more counts (or sums of counts) is formed'
           ' in floating point (an operand converted with np.asarray(..., dtype=float) / float / a division first). A'
           ' degree-4 integer product wraps around from ~55 000 examples per cell on — the Matthews denominator then'
           ' is negative (ValueError) or a wrong positive number (a coefficient outside [-1, 1])')
  repo = ctx.repo
  mi = repo.module('aggregates.classification')
  cmc = mi.classes.get('_ConfusionMatrix')
  if cmc is None:
    raise AnalysisError('aggregates.classification._ConfusionMatrix not found')
  counts = set()
  init = cmc.methods.get('__init__')
  if init is None:
    raise AnalysisError('_ConfusionMatrix.__init__ not found')
  for x in ast.walk(init.node):
    if isinstance(x, ast.Assign):
      for t in x.targets:
        if is_self_attr(t):
          counts.add(t.attr)
  for name, fi in cmc.methods.items():
    if any('property' in d for d in fi.decorators):
      rets = [r for r in ast.walk(fi.node) if isinstance(r, ast.Return) and r.value is not None]
      if rets and all(isinstance(y, (ast.Attribute, ast.BinOp, ast.Name, ast.Load, ast.Add, ast.Sub, ast.expr_context))
                      for r in rets for y in ast.walk(r.value)) and any(
                          is_self_attr(y) and y.attr in counts for r in rets for y in ast.walk(r.value)):
        counts.add(name)
  counts -= {'dtype'}
  if not {'tp', 'tn', 'fp', 'fn'} <= counts:
    raise AnalysisError(f'_ConfusionMatrix count fields not recognised: {sorted(counts)}')
  formulas = {}
  for fi in mi.functions.values():
    args = fi.node.args.args
    if args and args[0].annotation is not None and '_ConfusionMatrix' in unparse(args[0].annotation):
      formulas[fi.name] = fi
  n = 0

  def join(a, b):
    if 'float' in (a, b):
      return 'float'
    return 'int' if a == b == 'int' else 'unk'

  def ev(e, env, cmv, bad, depth=0):
    """(kind, degree in the counts) of an expression; records integer sub-expressions of degree >= 3."""
    if isinstance(e, ast.Constant):
      if isinstance(e.value, bool) or isinstance(e.value, int):
        return 'int', 0
      return ('float', 0) if isinstance(e.value, float) else ('unk', 0)
    if isinstance(e, ast.Attribute) and isinstance(e.value, ast.Name) and e.value.id == cmv and e.attr in counts:
      return 'int', 1
    if isinstance(e, ast.Name):
      return env.get(e.id, ('unk', 0))
    if isinstance(e, ast.UnaryOp):
      return ev(e.operand, env, cmv, bad, depth)
    if isinstance(e, ast.BinOp):
      lk, ld = ev(e.left, env, cmv, bad, depth)
      rk, rd = ev(e.right, env, cmv, bad, depth)
      if isinstance(e.op, (ast.Add, ast.Sub)):
        res = join(lk, rk), max(ld, rd)
      elif isinstance(e.op, ast.Mult):
        res = join(lk, rk), ld + rd
      elif isinstance(e.op, ast.Div):
        res = 'float', max(ld - rd, 0)
      elif isinstance(e.op, ast.Pow) and isinstance(e.right, ast.Constant) and isinstance(e.right.value, int):
        res = lk, ld * e.right.value
      else:
        res = 'unk', max(ld, rd)
      if res[0] == 'int' and res[1] >= 3:
        bad.append((e, res[1]))
      return res
    if isinstance(e, ast.Call):
      fn = e.func.attr if isinstance(e.func, ast.Attribute) else e.func.id if isinstance(e.func, ast.Name) else ''
      subs = [ev(a, env, cmv, bad, depth) for a in e.args]
      if fn in _TO_FLOAT:
        return 'float', 0
      if fn in ('asarray', 'array', 'astype'):
        dt = kwarg(e, 'dtype')
        if dt is None and fn == 'astype' and e.args:
          dt = e.args[0]
        elif dt is None and fn != 'astype' and len(e.args) > 1:
          dt = e.args[1]
        if dt is not None and unparse(dt) in _FLOAT_DTYPES:
          return 'float', (subs[0][1] if subs and fn != 'astype' else 0)
        if fn == 'astype':
          return ev(e.func.value, env, cmv, bad, depth)
        return subs[0] if subs else ('unk', 0)
      if fn in formulas and depth < 4 and e.args and isinstance(e.args[0], ast.Name) and e.args[0].id == cmv:
        return summary(formulas[fn], bad=None, depth=depth + 1)
      return 'unk', 0
    return 'unk', 0

  def summary(fi, bad, depth=0):
    cmv = fi.node.args.args[0].arg
    env = {}
    out = ('unk', 0)
    sink = bad if bad is not None else []
    for stmt in fi.node.body:
      if isinstance(stmt, ast.Assign) and len(stmt.targets) == 1 and isinstance(stmt.targets[0], ast.Name):
        env[stmt.targets[0].id] = ev(stmt.value, env, cmv, sink, depth)
      elif isinstance(stmt, ast.Return) and stmt.value is not None:
        out = ev(stmt.value, env, cmv, sink, depth)
      elif isinstance(stmt, ast.Expr) and isinstance(stmt.value, ast.Constant):
        continue
      else:
        for x in ast.walk(stmt):
          if isinstance(x, ast.expr) and not isinstance(x, (ast.Name, ast.Constant, ast.Attribute)):
            ev(x, env, cmv, sink, depth)
            break
    return out

  for name, fi in sorted(formulas.items()):
    n += 1
    bad = []
    summary(fi, bad)
    what = f'{name}: integer intermediates have degree <= 2 in the counts'
    if not bad:
      ctx.ok(rule, fi, what, fi.node)
    else:
      e, d = max(bad, key=lambda t: t[1])
      ctx.fail(rule, fi, what,
               f'{name} forms `{unparse(e)[:100]}` in integer arithmetic: degree {d} in the int64 counts'
               f' ({sorted(counts)}); it wraps around once the cells hold ~{int((2**63) ** (1 / d)):,} examples each, and the'
               ' metric is then an error or a number outside its range. Convert one operand to floating point first'
               ' (np.asarray(..., dtype=float))', node=e)
  ctx.floor(rule, 25, n)


def r19(ctx: Ctx, st):
  rule = 'R-C07-19'
  ctx.rule(rule, '"text-frequency ... with the documented conventions": a text aggregate whose docstring says the text is'
           ' "cleaned by removing non-alphabetic characters" REMOVES them — the `re.sub(<negated character class>, repl,'
           ' text)` of its accumulation method has the empty string as replacement (a space would split "don\'t" or'
           ' "e-mail" into several words and change every n-gram count), the cleaned text is what is split into words,'
           ' and when the docstring promises a case-insensitive / lowercase treatment `.lower()` is applied before the split')
  repo = ctx.repo
  mi = repo.module('aggregates.text')
  n = 0
  for ci in mi.classes.values():
    doc = ' '.join((ast.get_docstring(ci.node) or '').split())
    if 'removing non-alphabetic' not in doc:
      continue
    fi = ci.methods.get('add')
    if fi is None:
      raise AnalysisError(f'{ci.name}: documented cleaning but no add()')
    subs = [c for c in ast.walk(fi.node) if isinstance(c, ast.Call) and unparse(c.func) == 're.sub' and len(c.args) >= 3
            and isinstance(c.args[0], ast.Constant) and isinstance(c.args[0].value, str) and '[^' in c.args[0].value]
    if not subs:
      raise AnalysisError(f'{ci.name}.add: the documented cleaning step (re.sub over a negated character class) was not found')
    for c in subs:
      n += 1
      what = f'{ci.name}.add: non-alphabetic characters are removed, not replaced'
      repl = c.args[1]
      if not (isinstance(repl, ast.Constant) and repl.value == ''):
        ctx.fail(rule, fi, what,
                 f'`{unparse(c)}` replaces the characters outside {c.args[0].value!r} by {unparse(repl)} — the docstring of'
                 f' {ci.name} says they are REMOVED. With a non-empty replacement a token such as "don\'t", "e-mail" or'
                 ' "covid19x" is split into several words: the n-gram inventory, counts, frequencies and the top-k ranking'
                 ' all change', node=c)
        continue
      # the cleaned text flows into .split() (through .lower() when promised)
      pm = parent_map(fi.node)
      chain, cur = [], c
      while isinstance(pm.get(cur), ast.Attribute) and isinstance(pm.get(pm[cur]), ast.Call):
        chain.append(pm[cur].attr)
        cur = pm[pm[cur]]
      need_lower = 'lowercase' in doc or 'case-insensitive' in doc
      if 'split' not in chain or (need_lower and ('lower' not in chain or chain.index('lower') > chain.index('split'))):
        ctx.fail(rule, fi, what,
                 f'the cleaned text is processed by .{".".join(chain) or "<nothing>"}(): the documented pipeline is'
                 ' clean -> lowercase -> split into words', node=c)
      else:
        ctx.ok(rule, fi, what, c)
  ctx.floor(rule, 1, n)


def r20(ctx: Ctx, st):
  rule = 'R-C07-20'
  ctx.rule(rule, '"metric values equal their mathematical definitions ... for every input": an optional NUMERIC parameter (annotation'
           ' `NumbersT | None`, `float | None`, `int | None`; None = not given) is tested for presence with `is None`, never'
           ' by truth: 0 / 0.0 is a value (the decision boundary for logits, the first axis, a rate of zero). `if threshold:`'
           ' skips the binarisation for threshold=0 and the flip mask is computed on raw scores; sibling functions of one'
           ' module agree on the test')
  from mlmverif.props.c17 import _truth_positions
  repo = ctx.repo
  n = 0
  mods = [mn for mn in ('signals.flip_masks', 'signals.topk_accuracy', 'signals.cg_score', 'signals.text', 'metrics.classification',
                        'metrics.retrieval', 'metrics.rolling_stats', 'metrics.text', 'metrics.utils', 'aggregates.rolling_stats',
                        'aggregates.classification', 'aggregates.retrieval', 'aggregates.stats')]
  for mn in mods:
    try:
      mi = repo.module(mn)
    except Exception:  # pylint: disable=broad-exception-caught
      continue
    fns = list(mi.functions.values()) + [m_ for c in mi.classes.values() for m_ in c.methods.values()]
    for fi in fns:
      a = fi.node.args
      numeric = set()
      for x in a.posonlyargs + a.args + a.kwonlyargs:
        if x.annotation is None:
          continue
        parts = [p_.strip() for p_ in unparse(x.annotation).split('|')]
        if 'None' in parts and any(p_.split('.')[-1] in ('NumbersT', 'float', 'int', 'Number') for p_ in parts):
          numeric.add(x.arg)
      if not numeric:
        continue
      n += 1
      bad = None
      for t in _truth_positions(fi.node):
        if isinstance(t, ast.Name) and t.id in numeric:
          bad = bad or t
      what = f'{fi.qualname}: optional numeric parameters {sorted(numeric)} are tested with `is None`'
      if bad is None:
        ctx.ok(rule, fi, what, fi.node)
      else:
        ctx.fail(rule, fi, what,
                 f'`{bad.id}` (line {bad.lineno}) is used as a truth value in {fi.qualname}: the legitimate value 0 / 0.0 is'
                 ' taken for "not given", so the function silently computes something else for that input (e.g. a flip mask'
                 ' on raw scores instead of binarised ones)', node=bad)
  ctx.floor(rule, 3, n)


def r21(ctx: Ctx, st):
  rule = 'R-C07-21'
  ctx.rule(rule, '"for every ... k-list": result() of the top-k retrieval accumulator extends a state that has fewer entries than'
           ' configured ks "from the last value" — that is only right when the LAST k a batch evaluates is the length the'
           ' rankings were cut to (the value over the whole ranking). So the per-batch k list built in add() ends with that'
           ' bound on every path: `<ks below the bound> + [bound]`. With `... or [bound]` a k beyond the longest ranking is'
           ' padded with the value of the last k that fitted (metric@5 silently reports metric@1)')
  repo = ctx.repo
  ci = repo.cls(RET, 'TopKRetrieval')
  res, add = ci.methods.get('result'), ci.methods.get('add')
  pads = [x for x in ast.walk(res.node) if isinstance(x, ast.BinOp) and isinstance(x.op, ast.Mult) and isinstance(x.left, ast.List)
          and len(x.left.elts) == 1 and isinstance(x.left.elts[0], ast.Subscript) and unparse(x.left.elts[0].slice) == '-1']
  if not pads:
    ctx.info(rule, res, 'result() no longer pads missing ks from the last value: nothing to require of add()')
    ctx.floor(rule, 0)
    return
  # the bound the rankings are cut to: range(<bound>) of the per-row comprehension / k_range
  bounds = {unparse(c.args[0]) for c in ast.walk(add.node) if isinstance(c, ast.Call) and unparse(c.func) in ('range', 'np.arange')
            and len(c.args) == 1 and isinstance(c.args[0], ast.Name)}
  ks = [x for x in walk_no_nested(add.node) if isinstance(x, ast.Assign) and any(
      isinstance(t, ast.Name) and 'k_list' in t.id for t in x.targets) and any(
          isinstance(y, ast.Name) and y.id in bounds for y in ast.walk(x.value))]
  if not ks or not bounds:
    raise AnalysisError(f'{rule}: the per-batch k list of TopKRetrieval.add (built from the truncation bound) was not found')
  n = 0
  for x in ks:
    n += 1
    v = x.value
    while isinstance(v, ast.Call) and unparse(v.func) in ('np.asarray', 'np.array', 'list', 'tuple', 'sorted') and v.args:
      v = v.args[0]
    ends_with_bound = isinstance(v, ast.BinOp) and isinstance(v.op, ast.Add) and isinstance(v.right, ast.List) and len(
        v.right.elts) == 1 and unparse(v.right.elts[0]) in bounds
    what = 'TopKRetrieval.add: the per-batch k list ends with the length the rankings are cut to'
    if ends_with_bound:
      ctx.ok(rule, add, what, x)
    else:
      ctx.fail(rule, add, what,
               f'`{unparse(x)[:90]}` does not end with the truncation bound ({sorted(bounds)}) on every path: result() pads the'
               ' missing ks with the LAST evaluated value, which then is the value at a smaller k, not the value over the whole'
               ' ranking — every metric at a k beyond the longest ranking is wrong', node=x)
  ctx.floor(rule, 1, n)


def _c11_shared(sub, m):
  from mlmverif.props import c11
  sub.guard(c11.r1, m)
  sub.guard(c11.r2, m)


def _ref_alias_module(repo):
  """A module-info carrying SD/SQRT aliases for reference evaluation."""
  from mlmverif import sym
  sym.FN_ALIASES.setdefault('SD', ('SD', False))
  sym.FN_ALIASES.setdefault('SQRT', ('SQRT', False))
  return repo.module(CLS)


def _cm_obj(repo):
  ci = repo.cls(CLS, '_ConfusionMatrix')
  return Obj(ci, {k: RF.var(k) for k in ('tp', 'tn', 'fp', 'fn')}, 'cm')


def _dispatch_arms(repo):
  fi = repo.func(CLS, '_ConfusionMatrix.derive_metric')
  match = [s for s in fi.node.body if isinstance(s, ast.Match)]
  if not match:
    raise AnalysisError('derive_metric no longer uses a match statement')
  arms = {}
  for case in match[0].cases:
    p = case.pattern
    if isinstance(p, ast.MatchValue) and isinstance(p.value, ast.Attribute):
      arms[p.value.attr] = case
  return fi, arms


def _enum_members(repo, mod, cls):
  ci = repo.cls(mod, cls)
  out = {}
  for s in ci.node.body:
    if isinstance(s, ast.Assign) and isinstance(s.targets[0], ast.Name) and isinstance(
        s.value, ast.Constant):
      out[s.targets[0].id] = s.value.value
  return out


def _eval_arm(repo, fi, case, cm):
  """The value assigned to `result` (or returned) by a dispatch arm."""
  ev = SymEval(repo, fi.module)
  for s in case.body:
    if isinstance(s, ast.Assign):
      return ev.expr(s.value, {'self': cm})
    if isinstance(s, ast.Return):
      return ev.expr(s.value, {'self': cm})
  raise SymUnsupported('dispatch arm without assignment')


def r1(ctx: Ctx, st):
  rule = 'R-C07-1'
  ctx.rule(rule, 'formula table: the expression dispatched for each'
           ' ConfusionMatrixMetric member, with helpers and cm.p/cm.t inlined,'
           ' has the same rational-function normal form as the textbook'
           ' definition (safe_divide uninterpreted, so the zero-denominator'
           ' convention is part of the comparison)')
  repo = ctx.repo
  mod = _ref_alias_module(repo)
  members = _enum_members(repo, CLS, 'ConfusionMatrixMetric')
  fi, arms = _dispatch_arms(repo)
  cm = _cm_obj(repo)
  st['cm_forms'] = {}
  env = {k: RF.var(k) for k in ('tp', 'tn', 'fp', 'fn')}
  for name, value in members.items():
    if value in CM_EXEMPT:
      continue
    if name not in arms:
      continue  # reported by R-C07-4
    try:
      got = _eval_arm(repo, fi, arms[name], cm)
      want = eval_reference(repo, REF_CM, value, env, mod)
    except KeyError:
      raise AnalysisError(f'{rule}: no reference formula for metric "{value}"')
    st['cm_forms'][value] = got
    if values_equal(got, want):
      ctx.ok(rule, fi, f'{value} == {want!r}', arms[name])
    else:
      helper = unparse(arms[name].body[0])
      ctx.fail(rule, fi, f'derive_metric[{value}]',
               f'metric "{value}" ({helper}) computes {got!r} but its'
               f' definition is {want!r}', node=arms[name])
  ctx.floor(rule, 24)


# -- boolean minterm domain for the count derivation -------------------------

_M = ('PT', 'Pt', 'pT', 'pt')  # P&T, P&~T, ~P&T, ~P&~T


def _bset(e, env):
  if isinstance(e, ast.Name):
    if e.id in env and isinstance(env[e.id], frozenset):
      return env[e.id]
    raise SymUnsupported(f'unknown boolean array {e.id}')
  if isinstance(e, ast.UnaryOp) and isinstance(e.op, ast.Invert):
    return frozenset(_M) - _bset(e.operand, env)
  if isinstance(e, ast.BinOp) and isinstance(e.op, ast.BitAnd):
    return _bset(e.left, env) & _bset(e.right, env)
  if isinstance(e, ast.BinOp) and isinstance(e.op, ast.BitOr):
    return _bset(e.left, env) | _bset(e.right, env)
  raise SymUnsupported(f'boolean expression {unparse(e)}')


def _cnt(e, env):
  """Linear form over minterm counts: dict minterm -> int."""
  if isinstance(e, ast.Name) and e.id in env and isinstance(env[e.id], dict):
    return env[e.id]
  if isinstance(e, ast.Call) and isinstance(e.func, ast.Attribute) and e.func.attr == 'sum':
    s = _bset(e.func.value, env)
    return {k: 1 for k in s}
  if isinstance(e, ast.Call) and unparse(e.func) in ('np.sum', 'np.count_nonzero') and e.args:
    s = _bset(e.args[0], env)
    return {k: 1 for k in s}
  if isinstance(e, ast.BinOp) and isinstance(e.op, (ast.Add, ast.Sub)):
    a, b = _cnt(e.left, env), _cnt(e.right, env)
    sgn = 1 if isinstance(e.op, ast.Add) else -1
    out = dict(a)
    for k, v in b.items():
      out[k] = out.get(k, 0) + sgn * v
    return {k: v for k, v in out.items() if v}
  raise SymUnsupported(f'count expression {unparse(e)}')


def r2(ctx: Ctx, st):
  rule = 'R-C07-2'
  ctx.rule(rule, 'count derivation: in _indicator_confusion_matrix `true`'
           ' derives from y_true and `positive` from y_pred (compared with'
           ' pos_label), reshaping treats both alike, and the four counts'
           ' passed to _ConfusionMatrix(tp,tn,fp,fn) are exactly |P&T|,'
           ' |~P&~T|, |P&~T|, |~P&T| over the minterms of (true, positive)')
  repo = ctx.repo
  fi = repo.func(CLS, '_indicator_confusion_matrix')
  params = fi.params()
  yt, yp = params[0], params[1]
  # origin of the two indicator arrays
  origin = {yt: {yt}, yp: {yp}}
  base = {}
  problems = []
  for s in walk_no_nested(fi.node):
    if isinstance(s, ast.Assign):
      tgts = s.targets[0].elts if isinstance(s.targets[0], ast.Tuple) else [s.targets[0]]
      vals = s.value.elts if isinstance(s.value, ast.Tuple) and len(
          s.value.elts) == len(tgts) else [s.value] * len(tgts)
      for t, v in zip(tgts, vals):
        if not isinstance(t, ast.Name):
          continue
        used = {y.id for y in ast.walk(v) if isinstance(y, ast.Name)}
        src = set()
        for u in used:
          src |= origin.get(u, set())
        if src:
          origin[t.id] = origin.get(t.id, set()) | src
  ret = [s for s in walk_no_nested(fi.node) if isinstance(s, ast.Return)
         and isinstance(s.value, ast.Call) and '_ConfusionMatrix' in unparse(s.value.func)]
  if len(ret) != 1:
    raise AnalysisError(f'{rule}: expected one `return _ConfusionMatrix(...)`')
  # find the two base boolean arrays: names compared `== pos_label`
  for s in fi.node.body:
    if isinstance(s, ast.Assign) and isinstance(s.value, ast.Compare) and isinstance(
        s.targets[0], ast.Name) and isinstance(s.value.ops[0], ast.Eq):
      lhs = unparse(s.value.left)
      if lhs in (yt, yp) and 'pos_label' in unparse(s.value.comparators[0]):
        base[s.targets[0].id] = lhs
  tnames = [k for k, v in base.items() if v == yt]
  pnames = [k for k, v in base.items() if v == yp]
  if len(tnames) != 1 or len(pnames) != 1:
    ctx.fail(rule, fi, '_indicator_confusion_matrix: true = y_true == pos_label; positive = y_pred == pos_label',
             'the label indicator must come from y_true and the prediction'
             ' indicator from y_pred, each compared with pos_label; found'
             f' {base}', node=fi.node)
    return
  T, P = tnames[0], pnames[0]
  if origin.get(T, set()) != {yt} or origin.get(P, set()) != {yp}:
    ctx.fail(rule, fi, f'{T} / {P} provenance',
             f'`{T}` must depend only on {yt} and `{P}` only on {yp}; got'
             f' {sorted(origin.get(T, []))} and {sorted(origin.get(P, []))}'
             ' (labels and predictions are mixed: fp and fn swap)', node=fi.node)
    return
  ctx.ok(rule, fi, f'{T} <- {yt}, {P} <- {yp}', fi.node)
  env = {T: frozenset({'PT', 'pT'}), P: frozenset({'PT', 'Pt'})}
  started = False
  for s in fi.node.body:
    if isinstance(s, ast.Assign) and isinstance(s.targets[0], ast.Name):
      name = s.targets[0].id
      if name in (T, P) and not started:
        continue
      try:
        env[name] = _bset(s.value, env)
        started = True
        continue
      except SymUnsupported:
        pass
      try:
        env[name] = _cnt(s.value, env)
        started = True
      except SymUnsupported:
        if started and name in {y.id for a in ret[0].value.args for y in ast.walk(a)
                                if isinstance(y, ast.Name)}:
          raise AnalysisError(f'{rule}: cannot interpret `{unparse(s)}`')
  want = {'tp': {'PT': 1}, 'tn': {'pt': 1}, 'fp': {'Pt': 1}, 'fn': {'pT': 1}}
  init = repo.func(CLS, '_ConfusionMatrix.__init__')
  order = init.params()[1:5]
  call = ret[0].value
  got = {}
  for pname, a in zip(order, call.args):
    got[pname] = _cnt(a, env)
  for k in call.keywords:
    if k.arg in want:
      got[k.arg] = _cnt(k.value, env)
  for k in ('tp', 'tn', 'fp', 'fn'):
    if got.get(k) == want[k]:
      ctx.ok(rule, fi, f'{k} count = |{list(want[k])[0]}|', call)
    else:
      ctx.fail(rule, fi, f'_ConfusionMatrix({k}=...)',
               f'the {k} count passed to the confusion matrix is'
               f' {got.get(k)} over minterms (P=positive,T=true; lower-case ='
               f' negated) but must be {want[k]}', node=call)
  # reshaping branches treat both arrays alike
  for s in walk_no_nested(fi.node):
    if isinstance(s, ast.If):
      for branch in (s.body, s.orelse):
        at = [x for x in branch if isinstance(x, ast.Assign) and isinstance(
            x.targets[0], ast.Name) and x.targets[0].id in (T, P)]
        if len(at) == 2:
          a, b = at
          ta = ast.dump(a.value).replace(f"'{a.targets[0].id}'", "'X'")
          tb = ast.dump(b.value).replace(f"'{b.targets[0].id}'", "'X'")
          if ta == tb:
            ctx.ok(rule, fi, f'reshape alike: {unparse(a)} / {unparse(b)}', a)
          else:
            ctx.fail(rule, fi, a, 'labels and predictions are reshaped'
                     f' differently: `{unparse(a)}` vs `{unparse(b)}`')
        elif len(at) == 1:
          ctx.fail(rule, fi, at[0], 'only one of the two indicator arrays is'
                   ' reshaped in this branch')
  ctx.floor(rule, 5)


def r3(ctx: Ctx, st):
  rule = 'R-C07-3'
  ctx.rule(rule, 'aliases: documented alias groups have equal normal forms'
           ' (classification), retrieval aliases equal their base metric')
  forms = st.get('cm_forms') or {}
  if not forms:
    raise AnalysisError(f'{rule}: classification forms unavailable')
  fi, _ = _dispatch_arms(ctx.repo)
  for grp in ALIAS_GROUPS:
    have = [g for g in grp if g in forms]
    for other in have[1:]:
      if values_equal(forms[have[0]], forms[other]):
        ctx.ok(rule, fi, f'{have[0]} == {other}', fi.node)
      else:
        ctx.fail(rule, fi, f'alias {have[0]} == {other}',
                 f'documented aliases disagree: {have[0]} = {forms[have[0]]!r}'
                 f' but {other} = {forms[other]!r}', node=fi.node)
  rforms = st.get('ret_forms')
  if rforms is None:
    _retrieval_forms(ctx, st)
    rforms = st.get('ret_forms', {})
  add = ctx.repo.func(RET, 'TopKRetrieval.add')
  for grp in (('precision', 'ppv', 'positive_predictive_value'),
              ('recall', 'sensitivity', 'tpr')):
    have = [g for g in grp if g in rforms]
    for other in have[1:]:
      if values_equal(rforms[have[0]], rforms[other]):
        ctx.ok(rule, add, f'retrieval {have[0]} == {other}', add.node)
      else:
        ctx.fail(rule, add, f'retrieval alias {have[0]} == {other}',
                 f'retrieval aliases disagree: {rforms[have[0]]!r} vs'
                 f' {rforms[other]!r}', node=add.node)
  ctx.floor(rule, 12)


def r4(ctx: Ctx, st):
  rule = 'R-C07-4'
  ctx.rule(rule, 'dispatch: every ConfusionMatrixMetric member has an arm in'
           ' derive_metric (documented exemptions only); every default'
           ' retrieval metric has a block in TopKRetrieval.add storing the'
           ' formula of that name under its own key')
  repo = ctx.repo
  members = _enum_members(repo, CLS, 'ConfusionMatrixMetric')
  fi, arms = _dispatch_arms(repo)
  for name, value in members.items():
    if name in arms:
      ctx.ok(rule, fi, f'{name} dispatched', arms[name])
    elif value in CM_EXEMPT and value != 'confusion_matrix':
      ctx.info(rule, fi, f'{name} exempt: {CM_EXEMPT[value]}')
    else:
      ctx.fail(rule, fi, f'derive_metric: case ConfusionMatrixMetric.{name}',
               f'enum member {name} ("{value}") has no dispatch arm: requesting'
               ' it raises NotImplementedError', node=fi.node)
  for name in arms:
    if name not in members:
      ctx.fail(rule, fi, f'derive_metric: case {name}',
               f'dispatch arm for unknown member {name}', node=arms[name])
  _retrieval_forms(ctx, st, rule)
  ctx.floor(rule, 40)


def _roles(add: FuncInfo) -> dict[str, str]:
  """local variable of TopKRetrieval.add -> role atom."""
  params = add.params()
  yt, yp = params[1], params[2]
  roles: dict[str, str] = {}
  for s in walk_no_nested(add.node):
    if not isinstance(s, ast.Assign) or not isinstance(s.targets[0], ast.Name):
      continue
    t, v = s.targets[0].id, s.value
    txt = unparse(v)
    comps = [y for y in ast.walk(v) if isinstance(y, ast.ListComp)]
    if comps and len(comps[0].generators) == 1 and isinstance(
        comps[0].generators[0].iter, ast.Name) and isinstance(
            comps[0].elt, ast.Call) and unparse(comps[0].elt.func) == 'len':
      src = comps[0].generators[0].iter.id
      if src == yp:
        roles[t] = 'PREDCOUNT'
      elif src == yt:
        roles[t] = 'TRUECOUNT'
    if isinstance(v, ast.Call) and unparse(v.func) == 'np.cumsum' and v.args and isinstance(
        v.args[0], ast.Name):
      roles[t] = 'TPK'
      roles[v.args[0].id] = 'TP'
    if 'np.arange' in txt and isinstance(v, ast.BinOp):
      roles[t] = 'KRANGE'
    if 'self.k_list' in txt:
      roles[t] = 'KLIST'
  missing = [r for r in ROLES if r not in roles.values()]
  if missing:
    raise AnalysisError(f'TopKRetrieval.add: cannot identify the variables'
                        f' playing roles {missing}')
  return roles


def _retrieval_forms(ctx: Ctx, st, rule: str | None = None):
  if 'ret_forms' in st and rule is None:
    return
  repo = ctx.repo
  mod = repo.module(RET)
  add = repo.func(RET, 'TopKRetrieval.add')
  roles = _roles(add)
  env = {name: RF.var(role) for name, role in roles.items()}
  ev = SymEval(repo, mod)
  blocks = {}
  for s in add.node.body:
    if isinstance(s, ast.If) and isinstance(s.test, ast.Compare) and isinstance(
        s.test.left, ast.Constant) and isinstance(s.test.ops[0], ast.In) and (
            unparse(s.test.comparators[0]) == 'self._metrics'):
      blocks[s.test.left.value] = s
  forms = {}
  refenv = {r: RF.var(r) for r in ROLES}
  default = set()
  dm = mod.assigns.get('_DEFAULT_RETRIEVAL_METRICS')
  members = _enum_members(repo, RET, 'RetrievalMetric')
  if isinstance(dm, ast.Tuple):
    for e in dm.elts:
      if isinstance(e, ast.Attribute) and e.attr in members:
        default.add(members[e.attr])
  for metric in sorted(default):
    if metric not in blocks:
      if rule:
        ctx.fail(rule, add, f"TopKRetrieval.add: if '{metric}' in self._metrics",
                 f'default retrieval metric "{metric}" is never computed by'
                 ' add(): its state stays empty', node=add.node)
      continue
  benv = dict(env)
  for metric, blk in blocks.items():
    # the state update: self._state['<key>'].add(<value>)
    upd = [x for x in ast.walk(blk) if isinstance(x, ast.Call) and isinstance(
        x.func, ast.Attribute) and x.func.attr == 'add' and isinstance(
            x.func.value, ast.Subscript) and is_self_attr(x.func.value.value, '_state')]
    if len(upd) != 1:
      if rule:
        ctx.fail(rule, add, f"block '{metric}': self._state[...].add(...)",
                 f'the "{metric}" block updates {len(upd)} states (exactly one'
                 ' expected)', node=blk)
      continue
    key = upd[0].func.value.slice
    keyv = key.value if isinstance(key, ast.Constant) else None
    if keyv != metric:
      if rule:
        ctx.fail(rule, add, f"block '{metric}': self._state[{unparse(key)}]",
                 f'the value computed for "{metric}" is stored under'
                 f' {unparse(key)}', node=upd[0])
      continue
    # evaluate the block's straight-line statements
    try:
      local = dict(benv)
      for s in blk.body:
        if isinstance(s, ast.Assign) and isinstance(s.targets[0], ast.Name):
          local[s.targets[0].id] = ev.expr(s.value, local)
        elif isinstance(s, ast.If):
          # `if precision is None: precision = _precision(...)`
          for s2 in s.body:
            if isinstance(s2, ast.Assign) and isinstance(s2.targets[0], ast.Name):
              v = ev.expr(s2.value, local)
              nm = s2.targets[0].id
              if nm in forms_by_var and not values_equal(forms_by_var[nm], v):
                if rule:
                  ctx.fail(rule, add, s2, f'fallback computation of `{nm}` in the'
                           f' "{metric}" block differs from the "{nm}" block')
              local[nm] = v
      val = ev.expr(upd[0].args[0], local)
    except SymUnsupported as e:
      raise AnalysisError(f'TopKRetrieval.add block "{metric}": {e}')
    forms[metric] = val
    # remember optional locals reused by later blocks (precision / recall)
    for s in blk.body:
      if isinstance(s, ast.Assign) and isinstance(s.targets[0], ast.Name):
        nm = s.targets[0].id
        forms_by_var[nm] = local[nm]
        benv[nm] = local[nm]
    if rule is None:
      continue
    if metric in RET_BY_CALL:
      calls = [unparse(c.func) for c in ast.walk(blk) if isinstance(c, ast.Call)]
      if RET_BY_CALL[metric] in calls:
        ctx.ok(rule, add, f'{metric} -> {RET_BY_CALL[metric]}(...)', blk)
      else:
        ctx.fail(rule, add, f"block '{metric}' calls {RET_BY_CALL[metric]}",
                 f'the "{metric}" block does not call {RET_BY_CALL[metric]}',
                 node=blk)
      continue
    try:
      want = eval_reference(repo, REF_RET, metric, refenv, mod)
    except KeyError:
      raise AnalysisError(f'no retrieval reference for "{metric}"')
    if values_equal(val, want):
      ctx.ok(rule, add, f'retrieval {metric} == definition', blk)
    else:
      ctx.fail(rule, add, f"TopKRetrieval.add['{metric}']",
               f'retrieval metric "{metric}" computes {val!r} but its'
               f' definition is {want!r} (TPK=cumulative true positives,'
               ' KLIST=k list, PREDCOUNT/TRUECOUNT=row lengths)', node=blk)
  st['ret_forms'] = forms


forms_by_var: dict = {}


def r5(ctx: Ctx, st):
  rule = 'R-C07-5'
  ctx.rule(rule, 'one-shot API: each function named after a metric passes the'
           ' enum member of its own name, forwards every parameter by name and'
           ' applies the aggregate to (y_true, y_pred); ClassificationAggFn'
           ' forwards its configuration to the selected aggregate; the rolling'
           ' statistics functions read the attribute of their own name')
  repo = ctx.repo
  forms_by_var.clear()
  # classification
  mod = repo.module('metrics.classification')
  members = _enum_members(repo, CLS, 'ConfusionMatrixMetric')
  values = set(members.values())
  n = 0
  for name, fi in mod.functions.items():
    if name not in values:
      continue
    n += 1
    _check_oneshot(ctx, rule, fi, name, members, 'ClassificationAggFn',
                   ('pos_label', 'input_type', 'average', 'vocab', 'dtype', 'k_list'))
  rmod = repo.module('metrics.retrieval')
  rmembers = _enum_members(repo, RET, 'RetrievalMetric')
  for name, fi in rmod.functions.items():
    if name not in set(rmembers.values()):
      continue
    n += 1
    _check_oneshot(ctx, rule, fi, name, rmembers, 'TopKRetrieval',
                   ('k_list', 'input_type'))
  smod = repo.module('metrics.rolling_stats')
  for name, fi in smod.functions.items():
    rets = [s for s in walk_no_nested(fi.node) if isinstance(s, ast.Return)]
    if len(rets) == 1 and isinstance(rets[0].value, ast.Attribute):
      n += 1
      a = rets[0].value
      inner = unparse(a.value)
      if a.attr == name and 'MeanAndVariance()' in inner and f'.add({fi.params()[0]})' in inner:
        ctx.ok(rule, fi, f'{name}: MeanAndVariance().add(batch).{a.attr}', fi.node)
      else:
        ctx.fail(rule, fi, f'{name}(): return ...MeanAndVariance().add(batch).{name}',
                 f'function {name}() returns `.{a.attr}` of `{inner}`',
                 node=fi.node)
  # ClassificationAggFn.__init__ forwards configuration
  init = repo.func('metrics.classification', 'ClassificationAggFn.__init__')
  ctors = [c for c in walk_no_nested(init.node) if isinstance(c, ast.Call)
           and unparse(c.func).startswith('classification.')
           and unparse(c.func).endswith('AggFn')]
  for c in ctors:
    bad = [k.arg for k in c.keywords if k.arg and not (
        isinstance(k.value, ast.Name) and k.value.id == k.arg)]
    need = {'vocab', 'dtype', 'metrics', 'pos_label', 'input_type'}
    if 'Samplewise' not in unparse(c.func):
      need |= {'average'}
    if 'TopK' in unparse(c.func):
      need |= {'k_list'}
    miss = need - {k.arg for k in c.keywords}
    if bad or miss:
      ctx.fail(rule, init, c, f'{unparse(c.func)}: parameters not forwarded by'
               f' name: crossed {bad}, missing {sorted(miss)}')
    else:
      ctx.ok(rule, init, f'{unparse(c.func)}(<all config by name>)', c)
  if len(ctors) < 3:
    raise AnalysisError(f'{rule}: ClassificationAggFn builds {len(ctors)} aggregates (3 expected)')
  ctx.floor(rule, 40, n)


def _check_oneshot(ctx, rule, fi, name, members, agg, fwd):
  rets = [s for s in walk_no_nested(fi.node) if isinstance(s, ast.Return)]
  problem = None
  if len(rets) != 1 or not isinstance(rets[0].value, ast.Call):
    problem = 'body is not a single `return <aggregate>(...)(y_true, y_pred)`'
  else:
    outer = rets[0].value
    args = [unparse(a) for a in outer.args]
    ps = fi.params()
    if args != ps[:2]:
      problem = f'aggregate applied to {args} instead of {ps[:2]}'
    inner = outer.func
    # unwrap .as_agg_fn()
    if isinstance(inner, ast.Call) and isinstance(inner.func, ast.Attribute) and (
        inner.func.attr == 'as_agg_fn'):
      inner = inner.func.value
    if not isinstance(inner, ast.Call):
      problem = problem or 'no aggregate constructor call'
    else:
      met = None
      for k in inner.keywords:
        if k.arg == 'metrics':
          met = k.value
      if met is None and inner.args:
        met = inner.args[0]
      if not (isinstance(met, ast.Attribute) and members.get(met.attr) == name):
        problem = problem or (f'passes metrics={unparse(met)} — not the member'
                              f' whose value is "{name}"')
      kw = {k.arg: k.value for k in inner.keywords}
      for p in fwd:
        if p in ps:
          v = kw.get(p)
          if not (isinstance(v, ast.Name) and v.id == p):
            problem = problem or (f'parameter `{p}` is not forwarded as'
                                  f' {p}={p} (got {unparse(v) if v is not None else "nothing"})')
  if problem:
    ctx.fail(rule, fi, f'{fi.module.name.split(".")[-1]}.{name}()',
             f'one-shot function {name}(): {problem}', node=fi.node)
  else:
    ctx.ok(rule, fi, f'{name}() -> {agg}(metrics=<{name}>, ...)(y_true, y_pred)',
           fi.node)


def r6(ctx: Ctx, st):
  rule = 'R-C07-6'
  ctx.rule(rule, 'closed forms: MeanState, Tjur R^2 (absolute/relative),'
           ' Pearson/reflective correlation and symmetric prediction'
           ' difference results equal their definitions over the accumulated'
           ' sums (incl. their nan guards); MeanState.new sums and counts its'
           ' input')
  repo = ctx.repo
  mod = _ref_alias_module(repo)
  for m, cls, ref in STATS:
    ci = repo.cls(m, cls)
    res = repo.find_method(ci, 'result')
    fields = [f.name for f in repo.all_fields(ci)]
    self_obj = Obj(ci, {f: RF.var(f) for f in fields}, 'self')
    try:
      ev = SymEval(repo, res.module)
      got = ev.body(res.node.body, {'self': self_obj})
      tree = ast.parse(REF_STATS)
      fn = [s for s in tree.body if isinstance(s, ast.FunctionDef) and s.name == ref][0]
      env = {a.arg: RF.var(a.arg) for a in fn.args.args}
      want = eval_reference(repo, REF_STATS, ref, env, res.module)
    except SymUnsupported as e:
      raise AnalysisError(f'{rule}: {cls}.result: {e}')
    fi = FuncInfo(res.module, res.qualname, res.node, ci)
    if values_equal(got, want):
      ctx.ok(rule, fi, f'{cls}.result == definition', res.node)
    else:
      ctx.fail(rule, fi, f'{cls}.result()',
               f'{cls}.result() computes {got!r} but the definition is {want!r}',
               node=res.node)
  new = repo.func('aggregates.utils', 'MeanState.new')
  rets = [s for s in walk_no_nested(new.node) if isinstance(s, ast.Return)]
  ok = False
  if len(rets) == 1 and isinstance(rets[0].value, ast.Call):
    kw = {k.arg: unparse(k.value) for k in rets[0].value.keywords}
    p = new.params()[1]
    pos = [unparse(a) for a in rets[0].value.args]
    tot = kw.get('total', pos[0] if pos else None)
    cnt = kw.get('count', pos[1] if len(pos) > 1 else None)
    ok = tot in (f'sum({p})', f'np.sum({p})') and cnt == f'len({p})'
  if ok:
    ctx.ok(rule, new, 'MeanState.new: total=sum(inputs), count=len(inputs)', new.node)
  else:
    ctx.fail(rule, new, 'MeanState.new: MeanState(total=sum(inputs), count=len(inputs))',
             'a batch MeanState is not built from the sum and the number of'
             ' its inputs', node=new.node)
  ctx.floor(rule, 6)


ORDERED_ARG = {  # callee -> (position, keyword) of the argument that must be ascending
    'np.interp': (1, 'xp'), 'numpy.interp': (1, 'xp'),
    'np.searchsorted': (0, 'a'), 'numpy.searchsorted': (0, 'a'),
    'np.digitize': (1, 'bins'), 'numpy.digitize': (1, 'bins'),
    'bisect.bisect': (0, 'a'), 'bisect.bisect_left': (0, 'a'), 'bisect.bisect_right': (0, 'a'),
}


def r7(ctx: Ctx, st):
  rule = 'R-C07-7'
  ctx.rule(rule, 'ordered-grid precondition: the argument that np.interp /'
           ' searchsorted / digitize / bisect require to be ascending is'
           ' provably ordered: every value that can reach it comes from'
           ' sorted()/np.sort/arange/linspace through order-preserving'
           ' conversions, locals, instance fields (constructor normalisation,'
           ' every store and every construction site) — otherwise the'
           ' interpolated metric@threshold is silently wrong')
  from mlmverif.sortedness import Sortedness
  so = Sortedness(ctx.repo)
  n = 0
  mods = [m for name, m in sorted(ctx.repo.modules.items())
          if '._src.aggregates.' in name or '._src.metrics.' in name or name.endswith('.math_utils')]
  if len(mods) < 8:
    raise AnalysisError(f'{rule}: only {len(mods)} metric modules found')
  for mi in mods:
    fns = list(mi.functions.values()) + [m for c in mi.classes.values() for m in c.methods.values()]
    for fi in fns:
      for c in ast.walk(fi.node):
        if not isinstance(c, ast.Call) or unparse(c.func) not in ORDERED_ARG:
          continue
        pos, kw = ORDERED_ARG[unparse(c.func)]
        arg = c.args[pos] if len(c.args) > pos else next(
            (k.value for k in c.keywords if k.arg == kw), None)
        if arg is None:
          raise AnalysisError(f'{rule}: cannot find the ordered argument of {unparse(c)[:60]}')
        n += 1
        ok, why = so.expr(arg, fi)
        if ok:
          ctx.ok(rule, fi, f'{unparse(c.func)}: `{unparse(arg)}` is ordered: {why}', c)
        else:
          ctx.fail(rule, fi, f'{fi.qualname}: {unparse(c.func)}(.., {kw}=<ordered>)',
                   f'`{unparse(arg)}` reaches {unparse(c.func)} without being'
                   f' provably ascending ({why}): the function silently returns'
                   ' a wrong value for an unordered grid', node=c)
  ctx.floor(rule, 1, n)


def r9(ctx: Ctx, st):
  rule = 'R-C07-9'
  ctx.rule(rule, 'the zero-denominator convention itself: the reference formulas'
           ' treat safe_divide as "a / b, and 0 exactly where b == 0"; its'
           ' definition divides under the mask `b != 0` (exact comparison with'
           ' zero, no tolerance) into an output initialised with zeros — a'
           ' tolerance (np.isclose) would zero every ratio whose denominator'
           ' is merely small')
  fi = ctx.repo.func('utils.math_utils', 'safe_divide')
  ps = fi.params()
  if len(ps) < 2:
    raise AnalysisError(f'{rule}: safe_divide{tuple(ps)}')
  num, den = ps[0], ps[1]
  local = {x.targets[0].id: x.value for x in walk_no_nested(fi.node) if isinstance(x, ast.Assign)
           and len(x.targets) == 1 and isinstance(x.targets[0], ast.Name)}
  divs = [c for c in ast.walk(fi.node) if isinstance(c, ast.Call) and unparse(c.func) in (
      'np.divide', 'numpy.divide', 'np.true_divide')]
  if len(divs) != 1:
    raise AnalysisError(f'{rule}: expected one np.divide in safe_divide, found {len(divs)}')
  c = divs[0]
  from mlmverif.core import kwarg
  w = kwarg(c, 'where')
  out = kwarg(c, 'out')
  while isinstance(w, ast.Name) and w.id in local:
    w = local[w.id]
  while isinstance(out, ast.Name) and out.id in local:
    out = local[out.id]
  def exact_nonzero(e):
    if isinstance(e, ast.Compare) and len(e.ops) == 1 and isinstance(e.ops[0], ast.NotEq):
      l, r_ = e.left, e.comparators[0]
      return (unparse(l) == den and isinstance(r_, ast.Constant) and r_.value == 0) or (
          unparse(r_) == den and isinstance(l, ast.Constant) and l.value == 0)
    if isinstance(e, ast.Call) and unparse(e.func) in ('np.not_equal', 'numpy.not_equal') and len(e.args) == 2:
      a0, a1 = e.args
      return unparse(a0) == den and isinstance(a1, ast.Constant) and a1.value == 0
    if isinstance(e, ast.UnaryOp) and isinstance(e.op, ast.Invert) and isinstance(e.operand, ast.Compare) and (
        len(e.operand.ops) == 1 and isinstance(e.operand.ops[0], ast.Eq)):
      l, r_ = e.operand.left, e.operand.comparators[0]
      return unparse(l) == den and isinstance(r_, ast.Constant) and r_.value == 0
    return False
  args_ok = len(c.args) >= 2 and unparse(c.args[0]) == num and unparse(c.args[1]) == den
  zeros = isinstance(out, ast.Call) and unparse(out.func).split('.')[-1] in ('zeros_like', 'zeros')
  if w is not None and exact_nonzero(w) and zeros and args_ok:
    ctx.ok(rule, fi, f'np.divide({num}, {den}, out=zeros, where={unparse(w)})', c)
  else:
    ctx.fail(rule, fi, f'safe_divide: np.divide({num}, {den}, out=zeros, where=({den} != 0))',
             f'safe_divide divides under `where={unparse(w) if w is not None else None}` into'
             f' `out={unparse(out)[:40] if out is not None else None}`: this is not "0 exactly'
             ' where the denominator is 0" — every rate, likelihood ratio and f-score'
             ' built on it returns 0 (or garbage) for small but non-zero'
             ' denominators', node=c)
  ctx.floor(rule, 1)


def r10(ctx: Ctx, st):
  rule = 'R-C07-10'
  ctx.rule(rule, 'macro averaging reduces the CLASS axis for every layout:'
           ' _TopKConfusionMatrix inherits derive_metric and stacks its counts'
           ' per k in front (built from zip(*[(k, tp, tn, fp, fn), ...]): K x C'
           ' for per-class counts), while the plain matrix is C — the class'
           ' axis is the LAST one in both, so the macro branch must take'
           ' np.mean(..., axis=-1); axis=0 averages over k for top-k metrics'
           ' and returns one value per class instead of one per k')
  repo = ctx.repo
  base = repo.cls(CLS, '_ConfusionMatrix')
  dm = base.methods.get('derive_metric')
  if dm is None:
    raise AnalysisError(f'{rule}: _ConfusionMatrix.derive_metric not found')
  stacked = []
  for ci in repo.subclasses(base):
    if 'derive_metric' in ci.methods:
      continue
    # constructed from transposed per-k tuples somewhere in the module
    for fi in repo.all_functions():
      if fi.module is not base.module:
        continue
      for c in ast.walk(fi.node):
        if isinstance(c, ast.Call) and unparse(c.func) == ci.name and any(
            isinstance(a, ast.Starred) and 'zip(*' in unparse(a.value) for a in c.args):
          stacked.append((ci, c))
  means = [c for c in ast.walk(dm.node) if isinstance(c, ast.Call) and unparse(c.func) in ('np.mean', 'numpy.mean', 'np.nanmean')]
  if not means:
    raise AnalysisError(f'{rule}: the macro mean was not found in derive_metric')
  n = 0
  for c in means:
    n += 1
    ax = kwarg(c, 'axis') if kwarg(c, 'axis') is not None else (c.args[1] if len(c.args) > 1 else None)
    axv = unparse(ax) if ax is not None else None
    if not stacked:
      ctx.ok(rule, dm, f'no stacked subclass inherits derive_metric (axis={axv})', c)
    elif axv == '-1':
      ctx.ok(rule, dm, f'macro mean over the last (class) axis; stacked subclass {stacked[0][0].name}', c)
    else:
      ctx.fail(rule, dm, '_ConfusionMatrix.derive_metric: macro = np.mean(result, axis=-1)',
               f'the macro average is `{unparse(c)}` but {stacked[0][0].name} (built from'
               f' `{unparse(stacked[0][1])[:50]}`) puts the k axis in front of the class'
               ' axis: for top-k metrics with average=macro the mean is taken over'
               ' k and one value per class is returned instead of one per k',
               node=c)
  ctx.floor(rule, 1, n)


def r12(ctx: Ctx, st):
  rule = 'R-C07-12'
  ctx.rule(rule, 'reciprocal rank = 1 / rank of the FIRST relevant item:'
           ' np.argmax returns the first position of the maximum, so the rank'
           ' in _mean_reciprocal_rank is the argmax of a BOOLEAN mask of the'
           ' cumulative hit counts (`tp_at_topks > 0`), plus one — applied to'
           ' the counts themselves it finds where the count peaks, i.e. the'
           ' last relevant item')
  fi = ctx.repo.func(RET, '_mean_reciprocal_rank')
  ams = [c for c in ast.walk(fi.node) if isinstance(c, ast.Call) and unparse(c.func) in ('np.argmax', 'numpy.argmax')]
  if not ams:
    raise AnalysisError(f'{rule}: np.argmax not found in _mean_reciprocal_rank')
  p0 = fi.params()[0]
  n = 0
  for c in ams:
    n += 1
    a = c.args[0] if c.args else None
    local = {x.targets[0].id: x.value for x in walk_no_nested(fi.node) if isinstance(x, ast.Assign)
             and isinstance(x.targets[0], ast.Name)}
    while isinstance(a, ast.Name) and a.id in local and a.id != p0:
      a = local[a.id]
    mask = isinstance(a, ast.Compare) and len(a.ops) == 1 and isinstance(a.ops[0], (ast.Gt, ast.NotEq, ast.GtE)) and (
        p0 in {y.id for y in ast.walk(a) if isinstance(y, ast.Name)})
    mask = mask or (isinstance(a, ast.Call) and unparse(a.func).split('.')[-1] in ('astype',) and 'bool' in unparse(a))
    ax = unparse(kwarg(c, 'axis')) if kwarg(c, 'axis') is not None else None
    if mask and ax == '1':
      ctx.ok(rule, fi, f'rank = argmax({unparse(a)}, axis=1) + 1', c)
    else:
      ctx.fail(rule, fi, '_mean_reciprocal_rank: rank of the first hit = argmax(tp_at_topks > 0, axis=1) + 1',
               f'`{unparse(c)}` is not the argmax of a boolean hit mask along the rank'
               ' axis: with more than one relevant item per query it returns the'
               ' position where the cumulative hit count peaks (the LAST hit), so'
               ' MRR is 1/rank_of_last_hit', node=c)
  ctx.floor(rule, 1, n)


def r22(ctx: Ctx, m=None):
  rule = 'R-C07-22'
  ctx.rule(rule, '"metric values equal their definitions": the cross-entropy signals take the logarithm of the probability ITSELF.'
           ' In signals/cross_entropy.py the argument of every `np.log` — followed through the local assignments of the'
           ' function — contains no value-altering guard (np.clip, np.maximum/minimum, np.where, np.nan_to_num, an added'
           ' epsilon constant): flooring p at 1e-7 caps the loss of a confidently wrong prediction at 16.1 where the'
           ' definition gives -log(p)')
  mi = ctx.repo.module('signals.cross_entropy')
  n = 0
  guards = ('np.clip', 'np.maximum', 'np.minimum', 'np.where', 'np.nan_to_num', 'max', 'min', 'np.fmax', 'np.fmin')
  for name, fi in mi.functions.items():
    env = {}
    for x in walk_no_nested(fi.node):
      if isinstance(x, ast.Assign) and len(x.targets) == 1 and isinstance(x.targets[0], ast.Name):
        env[x.targets[0].id] = x.value
    for c in ast.walk(fi.node):
      if not (isinstance(c, ast.Call) and unparse(c.func) in ('np.log', 'math.log', 'np.log2', 'np.log1p') and c.args):
        continue
      n += 1
      seen, todo, bad = set(), [c.args[0]], None
      while todo:
        e = todo.pop()
        for y in ast.walk(e):
          if isinstance(y, ast.Call) and unparse(y.func) in guards:
            bad = y
          if isinstance(y, ast.BinOp) and isinstance(y.op, ast.Add) and any(
              (isinstance(z, ast.Constant) and isinstance(z.value, float) and 0 < abs(z.value) < 1e-3)
              or (isinstance(z, ast.Name) and z.id.upper() == z.id and 'EPS' in z.id.upper()) for z in (y.left, y.right)):
            bad = y
          if isinstance(y, ast.Name) and y.id in env and y.id not in seen:
            seen.add(y.id)
            todo.append(env[y.id])
      what = f'{name}: `{unparse(c)[:50]}` takes the logarithm of the probability itself'
      if bad is not None:
        ctx.fail(rule, fi, what,
                 f'the argument of `{unparse(c)[:40]}` passes through `{unparse(bad)[:50]}`: probabilities are floored / altered before'
                 ' the logarithm, the loss of a true class with a tiny score is capped instead of being -log(p)', node=c)
      else:
        ctx.ok(rule, fi, what, c)
  ctx.floor(rule, 3, n)


def r23(ctx: Ctx, m=None):
  rule = 'R-C07-23'
  ctx.rule(rule, '"the accumulator API returns the same value as the one-shot function ... batches with NaNs": the mean of a'
           ' dimension WITHOUT a valid value is NaN (documented; np.nanmean), not 0. The `_mean` a new Mean state is built with'
           ' is not computed through `safe_divide` (which maps 0/0 to 0): an all-NaN column or an empty stream would'
           ' otherwise report mean 0.0 in the accumulator, the merged shards and the one-shot path')
  mi = ctx.repo.module('aggregates.rolling_stats')
  n = 0
  for ci in mi.classes.values():
    fi = ci.methods.get('new')
    if fi is None:
      continue
    env = {x.targets[0].id: x.value for x in walk_no_nested(fi.node)
           if isinstance(x, ast.Assign) and len(x.targets) == 1 and isinstance(x.targets[0], ast.Name)}
    for c in ast.walk(fi.node):
      if not isinstance(c, ast.Call):
        continue
      for k in c.keywords:
        if k.arg != '_mean':
          continue
        n += 1
        v = k.value
        if isinstance(v, ast.Name) and v.id in env:
          v = env[v.id]
        bad = [y for y in ast.walk(v) if isinstance(y, ast.Call) and unparse(y.func).endswith('safe_divide')]
        what = f'{ci.name}.new: the mean of a dimension without valid values stays NaN'
        if bad:
          ctx.fail(rule, fi, what,
                   f'`_mean={unparse(k.value)[:60]}` divides through safe_divide: 0 valid values give 0/0 -> 0.0 instead of NaN — an'
                   ' all-NaN column reports a mean of 0', node=c)
        else:
          ctx.ok(rule, fi, what, c)
  ctx.floor(rule, 1, n)


def r24(ctx: Ctx, m=None):
  rule = 'R-C07-24'
  ctx.rule(rule, '"for all ... k including k larger than the number of classes": a top-k selection in the signal functions is total'
           ' in k. `np.argsort(x)[-k:]` is (a slice never fails: k > n selects everything, so every valid label is a hit, as'
           ' the definition says); `np.argpartition(x, <k from a parameter>)` is NOT — it raises "kth out of bounds" for'
           ' k > n. A partition whose kth comes from a parameter must be bounded (min(k, <size>) / np.clip) in the same'
           ' expression or through a local')
  n = 0
  for modname in ('signals.topk_accuracy',):
    mi = ctx.repo.module(modname)
    for name, fi in mi.functions.items():
      ps = set(fi.params())
      env = {x.targets[0].id: x.value for x in walk_no_nested(fi.node)
             if isinstance(x, ast.Assign) and len(x.targets) == 1 and isinstance(x.targets[0], ast.Name)}
      for c in ast.walk(fi.node):
        if not (isinstance(c, ast.Call) and unparse(c.func) in ('np.argsort', 'np.argpartition', 'np.partition', 'np.sort')):
          continue
        n += 1
        what = f'{name}: `{unparse(c)[:50]}` is defined for every k'
        if unparse(c.func) in ('np.argpartition', 'np.partition') and len(c.args) >= 2:
          kth = c.args[1]
          if isinstance(kth, ast.Name) and kth.id in env:
            kth = env[kth.id]
          from_param = any(isinstance(y, ast.Name) and y.id in ps for y in ast.walk(kth))
          bounded = any(isinstance(y, ast.Call) and unparse(y.func) in ('min', 'np.minimum', 'np.clip') for y in ast.walk(kth))
          if from_param and not bounded:
            ctx.fail(rule, fi, what,
                     f'`{unparse(c)[:70]}` partitions at a position taken from a parameter without bounding it: for k larger than the'
                     ' number of scores numpy raises "kth out of bounds" where the definition (and the sort-and-slice form)'
                     ' counts every valid label as a hit', node=c)
            continue
        ctx.ok(rule, fi, what, c)
  ctx.floor(rule, 1, n)


def r25(ctx: Ctx, m=None):
  rule = 'R-C07-25'
  ctx.rule(rule, '"the one-shot function API returns the same value as the accumulator API" on the SAME arrays: computing a metric'
           ' never writes into the caller\'s data. In the add / new / update methods and module functions of the aggregate'
           ' modules no numpy call carries `out=` and no `.astype(...)` is told `copy=False`: with float64 input the'
           ' "converted" array IS the caller\'s, an in-place `np.add(x, y, out=x)` overwrites it, and the next evaluation of'
           ' the same arrays (another API, a merged shard view) computes from garbage')
  n = 0
  for fi in ctx.repo.all_functions():
    if '.aggregates.' not in fi.module.name or fi.module.name.endswith(('_test', 'test_utils')):
      continue
    if fi.name not in ('add', 'new', 'update_state', '__call__') and fi.cls is not None:
      continue
    n += 1
    bad = None
    for c in ast.walk(fi.node):
      if isinstance(c, ast.Call):
        if kwarg(c, 'out') is not None and unparse(c.func).startswith(('np.', 'numpy.')):
          bad = c
        if isinstance(c.func, ast.Attribute) and c.func.attr == 'astype' and isinstance(kwarg(c, 'copy'), ast.Constant) and kwarg(c, 'copy').value is False:
          bad = c
    what = f'{fi.qualname}: no in-place numpy operation on (possibly the caller\'s) input arrays'
    if bad is not None:
      ctx.fail(rule, fi, what,
               f'`{unparse(bad)[:70]}` can write into / alias the caller\'s array: a second evaluation of the same data gives another'
               ' value than the first', node=bad)
    else:
      ctx.ok(rule, fi, what, fi.node)
  ctx.floor(rule, 20, n)


from mlmverif.selfcheck import B, OK  # noqa: E402

_C = 'aggregates/classification.py'
_T = 'aggregates/retrieval.py'
_MC = 'metrics/classification.py'
VARIANTS = [
    OK('mean-update-through-locals', 'aggregates/rolling_stats.py',
       "    update = mean_diff * math_utils.safe_divide(other.count, self._count)\n    self._mean = math_utils.nanadd(self._mean, update)", "    weight = math_utils.safe_divide(other.count, self._count)\n    update = mean_diff * weight\n    self._mean = math_utils.nanadd(self._mean, update)"),
    OK('relative-difference-converted-with-an-explicit-copy', 'aggregates/rolling_stats.py',
       "    x = np.asarray(x).astype('float64')\n    y = np.asarray(y).astype('float64')\n", "    x = np.array(x, dtype='float64')\n    y = np.array(y, dtype='float64')\n"),
    B('relative-difference-computed-in-the-callers-buffer', 'aggregates/rolling_stats.py',
      "    x = np.asarray(x).astype('float64')\n    y = np.asarray(y).astype('float64')\n", "    x = np.asarray(x).astype('float64', copy=False)\n    y = np.asarray(y).astype('float64', copy=False)\n", 'R-C07-25'),
    B('topk-by-unbounded-partition', 'signals/topk_accuracy.py',
      "  topk_predictions = np.argsort(weighted_pred)[-k:]", "  topk_predictions = np.argpartition(weighted_pred, -k)[-k:]", 'R-C07-24'),
    OK('topk-by-bounded-partition', 'signals/topk_accuracy.py',
       "  topk_predictions = np.argsort(weighted_pred)[-k:]", "  kth = min(k, len(weighted_pred))\n  topk_predictions = np.argsort(weighted_pred)[-kth:]"),
    OK('mean-of-a-batch-through-a-local', 'aggregates/rolling_stats.py',
       "        _mean=np.nanmean(batch, axis=0),", "        _mean=np.nanmean(np.asarray(batch), axis=0),", count=2),
    B('categorical-cross-entropy-clips-its-probabilities', 'signals/cross_entropy.py',
      "  return -np.sum(y_true * np.log(y_pred / np.sum(y_pred)))", "  y_prob = np.clip(y_pred / np.sum(y_pred), 1e-7, 1.0)\n  return -np.sum(y_true * np.log(y_prob))", 'R-C07-22'),
    OK('categorical-cross-entropy-through-a-local', 'signals/cross_entropy.py',
       "  return -np.sum(y_true * np.log(y_pred / np.sum(y_pred)))", "  y_prob = y_pred / np.sum(y_pred)\n  return -np.sum(y_true * np.log(y_prob))"),
    B('mean-of-nothing-is-zero', 'aggregates/rolling_stats.py',
      "        _mean=np.nanmean(batch, axis=0),", "        _mean=math_utils.safe_divide(np.nansum(batch, axis=0), np.sum(~np.isnan(batch), axis=0)),", 'R-C07-23', count=2),
    B('flip-mask-threshold-tested-by-truth', 'signals/flip_masks.py',
      '  if threshold is not None:\n    base_prediction = base_prediction > threshold', '  if threshold:\n    base_prediction = base_prediction > threshold', 'R-C07-20'),
    B('topk-k-list-falls-back-instead-of-appending', 'aggregates/retrieval.py',
      '        [k for k in k_list if k < max_pred_count] + [max_pred_count]', '        [k for k in k_list if k <= max_pred_count] or [max_pred_count]', 'R-C07-21'),
    B('ngram-cleaning-replaces-by-space', 'aggregates/text.py',
      "words = re.sub(r'[^a-zA-Z ]+', '', text).lower().split()", "words = re.sub(r'[^a-zA-Z ]+', ' ', text).lower().split()", 'R-C07-19'),
    B('ngram-cleaning-keeps-case', 'aggregates/text.py',
      "words = re.sub(r'[^a-zA-Z ]+', '', text).lower().split()", "words = re.sub(r'[^a-zA-Z ]+', '', text).split()", 'R-C07-19'),
    B('map-precision-from-per-rank-hits', 'aggregates/retrieval.py',
      '  precision_all_k = tp_at_topks[:, ks - 1] / ks', '  precision_all_k = tp[:, ks - 1] / ks', 'R-C07-4'),
    OK('map-factored-differently', 'aggregates/retrieval.py',
       '  result = np.cumsum(precision_all_k * relevance, axis=1) / size_true\n  result = result[:, k_list - 1]\n  return result',
       '  weighted = relevance * precision_all_k\n  return (np.cumsum(weighted, axis=1) / size_true)[:, k_list - 1]'),
    B('revert-mcc-integer-product', 'aggregates/classification.py',
      '      np.asarray(cm.tp + cm.fp, dtype=types.DefaultDType)\n      * (cm.tp + cm.fn)', '      (cm.tp + cm.fp)\n      * (cm.tp + cm.fn)', 'R-C07-18'),
    OK('mcc-denominator-as-two-roots', 'aggregates/classification.py',
       '  denominator = math_utils.pos_sqrt(\n      np.asarray(cm.tp + cm.fp, dtype=types.DefaultDType)\n      * (cm.tp + cm.fn)\n      * (cm.tn + cm.fp)\n      * (cm.tn + cm.fn)\n  )',
       '  denominator = math_utils.pos_sqrt((cm.tp + cm.fp) * (cm.tp + cm.fn)) * math_utils.pos_sqrt(\n      (cm.tn + cm.fp) * (cm.tn + cm.fn)\n  )'),
    B('masked-truths-counted', 'aggregates/retrieval.py',
      '    matched_true_prob = matched_true_prob[matched_true_prob >= 0]\n    matched_pred_prob = matched_pred_prob[matched_pred_prob >= 0]\n',
      '', 'R-C07-17'),
    B('topk-marks-only-requested-ranks', 'aggregates/classification.py',
      '  for j in range(max(k_list)):\n    if multioutput:', '  for k in sorted(k_list):\n    j = k - 1\n    if multioutput:', 'R-C07-16'),
    B('pattern-frequency-unescaped', 'aggregates/text.py',
      "re.finditer(r'(?=({}))'.format(re.escape(pattern)), text)", "re.finditer(r'(?=({}))'.format(pattern), text)", 'R-C07-15'),
    OK('pattern-frequency-escaped-via-local', 'aggregates/text.py',
       "re.finditer(r'(?=({}))'.format(re.escape(pattern)), text)", "re.finditer('(?=(' + re.escape(pattern) + '))', text)"),
    B('flip-mask-boundary-strict', 'signals/flip_masks.py',
      '  model_under_threshold = model_prediction <= threshold', '  model_under_threshold = model_prediction < threshold', 'R-C07-14'),
    OK('flip-mask-comparison-mirrored', 'signals/flip_masks.py',
       '  model_under_threshold = model_prediction <= threshold', '  model_under_threshold = threshold >= model_prediction'),
    B('mrr-argmax-of-counts', 'aggregates/retrieval.py',
      '  ranks = np.argmax(tp_at_topks > 0, axis=1) + 1', '  ranks = np.argmax(tp_at_topks, axis=1) + 1', 'R-C07-12'),
    OK('mrr-mask-in-local', 'aggregates/retrieval.py',
       '  ranks = np.argmax(tp_at_topks > 0, axis=1) + 1', '  hit = tp_at_topks > 0\n  ranks = np.argmax(hit, axis=1) + 1'),
    B('ngram-counter-compacted-to-top-k', 'aggregates/text.py',
      '    self._state.merge(other.state)\n\n  def result(self) -> list[tuple[str, float]]:\n    return self._state.result()[:self.k]',
      '    self._state.merge(other.state)\n    self._state.counter = collections.Counter(dict(self._state.counter.most_common(self.k)))\n\n  def result(self) -> list[tuple[str, float]]:\n    return self._state.result()[:self.k]',
      'R-C07-11'),
    B('revert-macro-mean-axis', 'aggregates/classification.py',
      '      return np.mean(result, axis=-1)', '      return np.mean(result, axis=0)', 'R-C07-10'),
    B('safe-divide-with-tolerance', 'utils/math_utils.py',
      'where=(b != 0)', 'where=~np.isclose(b, 0)', 'R-C07-9'),
    B('safe-divide-uninitialised-out', 'utils/math_utils.py',
      'out=np.zeros_like(a, dtype=agg_types.DefaultDType)', 'out=np.empty_like(a, dtype=agg_types.DefaultDType)', 'R-C07-9'),
    OK('safe-divide-mask-in-local', 'utils/math_utils.py',
       '  result = np.divide(\n      a, b, out=np.zeros_like(a, dtype=agg_types.DefaultDType), where=(b != 0)\n  )',
       '  nonzero = b != 0\n  result = np.divide(\n      a, b, out=np.zeros_like(a, dtype=agg_types.DefaultDType), where=nonzero\n  )'),
    B('thresholds-not-sorted', 'aggregates/retrieval.py',
      '    thresholds = np.asarray(sorted(self.thresholds), dtype=np.float32)',
      '    thresholds = np.asarray(self.thresholds, dtype=np.float32).reshape(-1)', 'R-C07-7'),
    B('thresholds-sorted-descending', 'aggregates/retrieval.py',
      '    thresholds = np.asarray(sorted(self.thresholds), dtype=np.float32)',
      '    thresholds = np.asarray(sorted(self.thresholds, reverse=True), dtype=np.float32)', 'R-C07-7'),
    OK('thresholds-np-sort', 'aggregates/retrieval.py',
       '    thresholds = np.asarray(sorted(self.thresholds), dtype=np.float32)',
       '    thresholds = np.sort(np.asarray(self.thresholds, dtype=np.float32))'),
    B('meanstate-merge-adopts-operand-arrays', 'aggregates/utils.py',
      '  def merge(self, other: MeanState):\n    self.total += other.total',
      '  def merge(self, other: MeanState):\n    if not self.count:\n      self.total, self.count = other.total, other.count\n      return\n    self.total += other.total',
      'R-C07-8'),
    B('for-swaps-fp-fn', _C,
      '  return math_utils.safe_divide(cm.fn, (cm.fn + cm.tn))',
      '  return math_utils.safe_divide(cm.fp, (cm.fp + cm.tn))', 'R-C07-1'),
    B('tnr-delegates-to-recall', _C,
      '  """True Negative rate."""\n  return _specificity(cm)',
      '  """True Negative rate."""\n  return _recall(cm)', 'R-C07-1'),
    B('mcc-sign', _C, '  numerator = cm.tp * cm.tn - cm.fp * cm.fn',
      '  numerator = cm.tp * cm.tn + cm.fp * cm.fn', 'R-C07-1'),
    B('t-property-wrong', _C,
      '    """Labeled True count."""\n    return self.tp + self.fn',
      '    """Labeled True count."""\n    return self.tp + self.fp', 'R-C07-1'),
    B('f1-missing-factor', _C,
      '  return math_utils.safe_divide(2 * precision * recall, precision + recall)',
      '  return math_utils.safe_divide(precision * recall, precision + recall)',
      'R-C07-1'),
    B('dispatch-npv-to-ppv', _C, '        result = _npv(self)', '        result = _ppv(self)',
      'R-C07-1'),
    B('fn-from-positive', _C, '  fn = negative & true', '  fn = positive & ~true', 'R-C07-2'),
    B('true-from-pred', _C, '  true = y_true == pos_label\n  positive = y_pred == pos_label',
      '  true = y_pred == pos_label\n  positive = y_true == pos_label', 'R-C07-2'),
    B('ctor-order-swapped', _C,
      '  return _ConfusionMatrix(tp_cnt, tn_cnt, fp_cnt, fn_cnt)',
      '  return _ConfusionMatrix(tp_cnt, tn_cnt, fn_cnt, fp_cnt)', 'R-C07-2'),
    B('dispatch-arm-removed', _C,
      '      case ConfusionMatrixMetric.MARKEDNESS:\n        result = _markedness(self)\n',
      '', 'R-C07-4'),
    B('retrieval-recall-uses-pred-count', _T,
      "      recall = _recall(tp_at_topks, k_list, y_true_count)\n      self._state['recall'].add(recall)",
      "      recall = _recall(tp_at_topks, k_list, y_pred_count)\n      self._state['recall'].add(recall)",
      'R-C07-4'),
    B('retrieval-wrong-key', _T, "      self._state['tpr'].add(tpr)",
      "      self._state['sensitivity'].add(tpr)", 'R-C07-4'),
    B('retrieval-threat-drops-k', _T,
      '  return tp_at_topks[:, k_list - 1] / (cumsum_fn + k_list)',
      '  return tp_at_topks[:, k_list - 1] / (cumsum_fn + 1)', 'R-C07-4'),
    B('oneshot-recall-uses-precision', _MC,
      '      metrics=classification.ConfusionMatrixMetric.RECALL,',
      '      metrics=classification.ConfusionMatrixMetric.PRECISION,', 'R-C07-5',
      count=1),
    B('oneshot-drops-vocab', _MC,
      '      metrics=classification.ConfusionMatrixMetric.F1_SCORE,\n      pos_label=pos_label,\n      input_type=input_type,\n      average=average,\n      vocab=vocab,',
      '      metrics=classification.ConfusionMatrixMetric.F1_SCORE,\n      pos_label=pos_label,\n      input_type=input_type,\n      average=average,',
      'R-C07-5'),
    B('pearson-drops-centering', 'aggregates/rolling_stats.py',
      '      numerator = self.sum_xy - self.sum_x * self.sum_y / self.num_samples',
      '      numerator = self.sum_xy - self.sum_x * self.sum_y', 'R-C07-6'),
    B('tjur-wrong-denominator', 'aggregates/rolling_stats.py',
      '        - self.sum_neg_y_pred / self.sum_neg_y_true\n',
      '        - self.sum_neg_y_pred / self.sum_y_true\n', 'R-C07-6'),
    OK('p-expanded', _C, '  return math_utils.safe_divide(cm.tp, cm.p)\n\n\ndef _ppv',
       '  return math_utils.safe_divide(cm.tp, cm.fp + cm.tp)\n\n\ndef _ppv'),
    OK('mcc-refactored', _C, '  numerator = cm.tp * cm.tn - cm.fp * cm.fn',
       '  numerator = -(cm.fn * cm.fp) + cm.tn * cm.tp'),
    OK('fall-out-inlined-alias', _C, '  """False positive rate."""\n  return _fall_out(cm)',
       '  """False positive rate."""\n  return math_utils.safe_divide(cm.fp, cm.tn + cm.fp)'),
    OK('pearson-refactored', 'aggregates/rolling_stats.py',
       '      numerator = self.sum_xy - self.sum_x * self.sum_y / self.num_samples',
       '      numerator = (self.num_samples * self.sum_xy - self.sum_y * self.sum_x) / self.num_samples'),
]
