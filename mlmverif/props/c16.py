"""C16 — fault-free distributed execution equals in-process execution.

Structural part: the strict-count guard dominates every return of both
merge_states, exactly one final aggregate is produced per stage, every shard
index is dispatched once, the state stream is terminated and the RPC tables
agree (shared with C06/C14).
"""
from __future__ import annotations

import ast

from mlmverif import cfg as cfgm
from mlmverif.core import (is_increment, increment_target, parent_map, AnalysisError, Ctx, FuncInfo, is_self_attr, kwarg,
                           unparse, walk_no_nested)
from mlmverif.props import c06, c14

EXPLANATION = (
    'CFG dominance + AST structure over transform.merge_states (both runners)'
    ' and the two orchestrators. Decides: the comparison with'
    ' strict_states_cnt that raises ValueError lies on every path to a return'
    ' of merge_states, and the state counter is incremented exactly once per'
    ' merged state; the shard tasks enumerate shard_index=i for i in'
    ' range(num_shards) with the same num_shards; the merging thread consumes'
    ' agg states until the stop marker and puts exactly one AggregateResult;'
    ' the interleaved stage clears the collected returns and appends exactly'
    ' one merged AggregateResult; in-process and worker-pool stages feed the'
    ' same result queue type; terminal marker (R-C06-4) and RPC table'
    ' (R-C14-1) re-checked. Informational: no in-repo caller passes'
    ' strict_states_cnt. NOT decided: output multiset / aggregate equality.'
)
ASSUMPTIONS = []

TR = 'chainables.transform'
ORCH = 'chainables.orchestrate'
CW = 'chainables.courier_worker'


def run(ctx: Ctx):
  for r in (r1, r2, r3, r4, r5, r6, r7, r10, r11, r13, r14, r15, r16, r17, r18, r20, r22, r25, r26):
    ctx.guard(r)
  from mlmverif.props import c03
  from mlmverif.props import c03 as _c03x, c17 as _c17x
  ctx.include('R-C16-23', '"the same multiset of output batches": in the interleaved runner only the LAST stage may drop its batch'
              ' outputs when the caller asks for the aggregate alone (R-C03-12) — an aggregating stage in the middle that'
              ' does so feeds None into the next stage', _c03x.r12, min_instances=1)
  ctx.include('R-C16-24', '"the same aggregate result": an interleaved stage reaches its workers PICKLED — __getstate__ of the operator'
              ' classes keeps every declared field of the instance\'s own class (R-C17-5), so TreeAggregateFn.disable_slicing'
              ' survives and no slice keys are invented on the workers', _c17x.r5, min_instances=1)
  from mlmverif.props import c14 as _c14
  ctx.include('R-C16-21', '"delivers exactly one final aggregate result": a worker iterator that returned NOTHING (a stage without'
              ' aggregation) must end on the master with no return value, not with `None` — every conversion of an exhaustion'
              ' signal passes `*e.args` on (R-C14-16); `StopAsyncIteration(e.value)` records one `None` per worker and the'
              ' stage\'s merge step then fails its "is an AggregateResult" assertion in a fault-free run', _c14.r16, min_instances=3)
  from mlmverif.props import c15
  ctx.include('R-C16-19', '"the same multiset of output batches": a remote iteration batch is collected by ONE blocking batch read of'
              ' the prefetch queue, which hands over what it already dequeued when the shard ends in the middle of the batch'
              ' (R-C15-4) — a batch assembled from single get() calls is lost whole when the end of the shard interrupts it:'
              ' the last n mod iterate_batch_size outputs of every shard never reach the master', c15.r4, min_instances=3)
  ctx.include('R-C16-9', '"delivers exactly one final aggregate result": the'
              ' master finalises the merged state of ALL stages through'
              ' get_result, which tolerates the other stages\' entries (R-C03-7)',
              c03.r7, 'R-C03-7', min_instances=2)
  ctx.include('R-C16-8', 'shard states arrive as a one-shot stream: every stage'
              ' that merges them sees them all (R-C03-6 single-pass discipline)',
              c03.r6, ('chainables.transform', 'chainables.orchestrate'), 'R-C03-6', 8,
              min_instances=8)
  from mlmverif.props import c04
  from mlmverif.props._queue import model as qmodel
  ctx.include('R-C16-12', '"the same aggregate result": a shard\'s aggregation state travels'
              ' as the return value of its generator — the queue records the return values'
              ' under the state lock BEFORE any consumer can observe end-of-stream, and'
              ' verbatim (R-C04-6); a request already blocked when the producer finishes'
              ' would otherwise get StopIteration() without the state and the master merges'
              ' fewer states without any error', c04.r6, qmodel(ctx), min_instances=3)


def r1(ctx: Ctx):
  rule = 'R-C16-1'
  ctx.rule(rule, 'strict count: in TransformRunner.merge_states and'
           ' ChainedRunner.merge_states the test against strict_states_cnt'
           ' (raising ValueError on mismatch) lies on every path to a return;'
           ' the runner counts each merged state exactly once')
  repo = ctx.repo
  for qn in ('TransformRunner.merge_states', 'ChainedRunner.merge_states'):
    fi = repo.func(TR, qn)
    g = cfgm.cfg_of(fi.node)
    p = 'strict_states_cnt'
    if p not in fi.params():
      ctx.fail(rule, fi, f'{qn}(states, strict_states_cnt)',
               'merge_states lost its strict_states_cnt parameter', node=fi.node)
      continue
    guard = [c for c in g.nodes if c.kind == 'cond' and p in unparse(c.ast) and '!=' in unparse(c.ast)]
    ok = False
    for c in guard:
      t = [s for s, lab in c.succ if lab == 'true']
      raises = bool(t) and any(isinstance(n.ast, ast.Raise) and 'ValueError' in unparse(n.ast)
                               for n in g.reachable([t[0]], edge_ok=cfgm.only_normal, include_src=True))
      rets = [n for n in g.nodes if isinstance(n.ast, ast.Return)]
      dom = rets and all(g.dominates(lambda n: n is c, r, cfgm.only_normal) is None for r in rets)
      # the test compares the expected count with the number of states
      txt = unparse(c.ast)
      counts = 'states_cnt' in txt.replace(p, '') or 'len(states)' in txt
      if raises and dom and counts:
        ok = True
    if ok:
      ctx.ok(rule, fi, f'{qn}: strict-count guard dominates every return', guard[0].ast)
    else:
      ctx.fail(rule, fi, f'{qn}: if strict_states_cnt and <count> != strict_states_cnt: raise ValueError',
               'merge_states can return a partial aggregate when fewer shard'
               ' states arrived than expected (crashed workers go unnoticed)',
               node=fi.node)
  fi = repo.func(TR, 'TransformRunner.merge_states')
  loops = [l for l in walk_no_nested(fi.node) if isinstance(l, ast.For) and unparse(l.iter) == fi.params()[1]]
  incs = []
  for l in loops:
    for s in l.body:
      if is_increment(s):
        incs.append(s)
  cnt_names = {increment_target(s) for s in incs}
  nested_incs = [x for l in loops for x in ast.walk(l) if is_increment(x) and increment_target(x) in cnt_names]
  if len(loops) == 1 and len(incs) == 1 and len(nested_incs) == 1:
    ctx.ok(rule, fi, 'states_cnt += 1 once per state', incs[0])
  else:
    ctx.fail(rule, fi, 'TransformRunner.merge_states: states_cnt += 1 per state',
             'the number of merged states is not counted exactly once per'
             ' state: the strict check compares against a wrong count',
             node=fi.node)
  # every state entry is merged (not overwritten)
  merged = any(isinstance(x, ast.Call) and isinstance(x.func, ast.Attribute)
               and x.func.attr == 'merge_states' and isinstance(x.args[0], ast.List)
               and len(x.args[0].elts) == 2 for x in walk_no_nested(fi.node))
  if merged:
    ctx.ok(rule, fi, 'existing key: agg_fn.merge_states([acc, new])', fi.node)
  else:
    ctx.fail(rule, fi, 'TransformRunner.merge_states: agg_fn.merge_states([states_by_fn[key], fn_state])',
             'a later shard state overwrites the accumulated one instead of'
             ' being merged into it', node=fi.node)
  callers = 0
  for f in repo.all_functions():
    for x in walk_no_nested(f.node):
      if isinstance(x, ast.Call) and kwarg(x, 'strict_states_cnt') is not None and f.name != 'merge_states':
        callers += 1
  ctx.info(rule, fi, f'{callers} in-repo caller(s) pass strict_states_cnt (informational)')
  ctx.floor(rule, 4)


def r2(ctx: Ctx):
  rule = 'R-C16-2'
  ctx.rule(rule, 'one final aggregate: sharded tasks enumerate every shard'
           ' index once; the merging thread consumes states until the stop'
           ' marker and puts exactly one AggregateResult; the interleaved stage'
           ' replaces the collected returns by exactly one merged'
           ' AggregateResult')
  repo = ctx.repo
  sp = repo.func(ORCH, 'sharded_pipelines_as_iterator')
  gens = [x for x in walk_no_nested(sp.node) if isinstance(x, ast.GeneratorExp)]
  ok = False
  for ge in gens:
    if len(ge.generators) == 1 and unparse(ge.generators[0].iter) == 'range(num_shards)':
      iv = unparse(ge.generators[0].target)
      txt = unparse(ge.elt)
      if f'shard_index={iv}' in txt and 'num_shards=num_shards' in txt:
        ok = True
  if ok:
    ctx.ok(rule, sp, 'tasks: shard_index=i for i in range(num_shards)', sp.node)
  else:
    ctx.fail(rule, sp, 'sharded_pipelines_as_iterator: shard_index=i, num_shards=num_shards for i in range(num_shards)',
             'the shard tasks do not cover each shard index exactly once',
             node=sp.node)
  it = [x for x in walk_no_nested(sp.node) if isinstance(x, ast.Call) and unparse(x.func) == 'worker_pool.iterate']
  if it and unparse(kwarg(it[0], 'total_tasks')) == 'num_shards' and unparse(
      kwarg(it[0], 'generator_result_queue')) == 'states_queue':
    ctx.ok(rule, sp, 'pool.iterate(..., generator_result_queue=states_queue, total_tasks=num_shards)', it[0])
  else:
    ctx.fail(rule, sp, 'sharded_pipelines_as_iterator: worker_pool.iterate(generator_result_queue=states_queue)',
             'shard states are not routed to the queue the merging thread reads',
             node=sp.node)
  cr = c06._nested(sp, 'compute_result')
  g = cfgm.cfg_of(cr.node)
  puts = [n for n in g.nodes if any(isinstance(x, ast.Call) and unparse(x.func) == 'result_queue.put'
                                   for x in cfgm.node_exprs(n))]
  w = g.must_pass(g.entry, [g.exit_ret], lambda n: n in puts, cfgm.only_normal)
  twice = any(p2 in g.reachable([p1], edge_ok=cfgm.only_normal) for p1 in puts for p2 in puts)
  if puts and w is None and not twice and 'AggregateResult' in unparse(puts[0].ast):
    ctx.ok(rule, cr, 'exactly one AggregateResult put', puts[0].ast)
  else:
    ctx.fail(rule, cr, 'compute_result: result_queue.put(AggregateResult(...)) exactly once',
             'the merging thread does not deliver exactly one final aggregate',
             node=cr.node)
  ia = c06._nested(cr, 'iterate_agg_state')
  txt = unparse(ia.node)
  from mlmverif import pat
  got = pat.search(ia.node, '$s = states_queue.get()')
  sv = got[0][1]['s'] if got else '<state>'
  stop_ok = any(isinstance(x, ast.If) and pat.has(x.test, f'iter_utils.is_stop_iteration({sv})')
                and any(isinstance(b, ast.Return) for b in x.body) for x in walk_no_nested(ia.node))
  yield_ok = any(isinstance(x, ast.If) and 'AggregateResult' in unparse(x.test) and sv in unparse(x.test)
                 and any(isinstance(y, ast.Yield) and unparse(y.value) == f'{sv}.agg_state'
                         for b in x.body for y in ast.walk(b)) for x in walk_no_nested(ia.node))
  gi = cfgm.cfg_of(ia.node)
  stopc = lambda c: c.kind == 'cond' and 'is_stop_iteration' in unparse(c.ast)
  reach = gi.reachable([gi.entry], edge_ok=lambda a, b, lab: lab not in ('exc', 'close')
                       and not (stopc(a) and lab == 'true'))
  only_on_stop = gi.exit_ret not in reach
  if stop_ok and yield_ok and not only_on_stop:
    stop_ok = False
  if stop_ok and yield_ok:
    ctx.ok(rule, ia, 'states consumed until the stop marker; each agg_state yielded', ia.node)
  else:
    ctx.fail(rule, ia, 'iterate_agg_state: yield state.agg_state until is_stop_iteration(state)',
             f'shard states are not all forwarded to the merge (stop: {stop_ok},'
             f' yield: {yield_ok})', node=ia.node)
  st = c06._nested(repo.func(ORCH, '_async_run_single_stage'), 'iterate_with_worker_pool')
  g = cfgm.cfg_of(st.node)
  outer = repo.func(ORCH, '_async_run_single_stage')
  rq = None
  for x in walk_no_nested(outer.node):
    if isinstance(x, ast.Assign) and isinstance(x.targets[0], ast.Name) and isinstance(x.value, ast.Call) and (
        unparse(x.value.func).endswith('AsyncIteratorQueue')):
      rq = x.targets[0].id
  if rq is None:
    raise AnalysisError(f'{rule}: stage result queue not found')
  clears = [n for n in g.nodes if f'{rq}.returned.clear()' in (unparse(n.ast) if n.ast else '')]
  apps = [n for n in g.nodes if n.kind == 'stmt' and f'{rq}.returned.append(' in unparse(n.ast)]
  ok = (len(clears) == 1 and len(apps) == 1 and 'AggregateResult' in unparse(apps[0].ast)
        and g.dominates(lambda n: n in clears, apps[0], cfgm.only_normal) is None
        and apps[0] not in g.reachable([apps[0]], edge_ok=cfgm.only_normal))
  # the merge block runs whenever any worker returned a state (also exactly one)
  if ok:
    pm_ = parent_map(st.node)
    q_ = apps[0].ast
    guard = None
    while q_ is not st.node and q_ is not None:
      par_ = pm_.get(q_)
      if isinstance(par_, ast.If) and q_ in par_.body:
        guard = par_
      q_ = par_
    if guard is not None:
      t_ = guard.test
      fine = unparse(t_) == f'{rq}.returned'
      if isinstance(t_, ast.Compare) and len(t_.ops) == 1 and unparse(t_.left) == f'len({rq}.returned)' and isinstance(
          t_.comparators[0], ast.Constant):
        c_ = t_.comparators[0].value
        fine = (isinstance(t_.ops[0], ast.Gt) and c_ == 0) or (isinstance(t_.ops[0], ast.GtE) and c_ == 1) or (
            isinstance(t_.ops[0], ast.NotEq) and c_ == 0)
      if not fine:
        ok = False
        ctx.fail(rule, st, f'iterate_with_worker_pool: merge block guarded by `{rq}.returned` being non-empty',
                 f'the block that computes the final aggregate is guarded by `{unparse(t_)}`:'
                 ' for some non-empty sets of worker states (e.g. exactly one'
                 ' worker) no aggregate result is computed and the stage returns'
                 ' a raw per-worker state instead of the final aggregate', node=guard)
  if ok:
    ctx.ok(rule, st, 'returned.clear(); returned.append(one AggregateResult)', apps[0].ast)
  elif not any(f.rule == rule and 'merge block guarded' in f.construct for f in ctx.findings):
    ctx.fail(rule, st, 'iterate_with_worker_pool: result_q.returned.clear(); result_q.returned.append(AggregateResult(...))',
             'the stage does not end with exactly one merged aggregate result'
             ' (partial per-worker results leak through or none is produced)',
             node=st.node)
  ms = [x for x in walk_no_nested(st.node) if isinstance(x, ast.Call) and isinstance(x.func, ast.Attribute)
        and x.func.attr == 'merge_states']
  coll = None
  for l in walk_no_nested(st.node):
    if isinstance(l, ast.For) and unparse(l.iter) == f'{rq}.returned' and isinstance(l.target, ast.Name):
      for b in ast.walk(l):
        m_ = pat.match(f'$lst.append({l.target.id}.agg_state)', b) if isinstance(b, ast.Call) else None
        if m_:
          coll = m_['lst']
  if ms and coll and unparse(ms[0].args[0]) == coll:
    ctx.ok(rule, st, 'every worker\'s agg_state is merged', ms[0])
  else:
    ctx.fail(rule, st, 'iterate_with_worker_pool: merge all returned agg states',
             'not every worker\'s aggregation state takes part in the merge',
             node=st.node)
  ctx.floor(rule, 6)


def r3(ctx: Ctx):
  rule = 'R-C16-3'
  ctx.rule(rule, 'terminal marker on the state stream (R-C06-4)')
  sub = Ctx(ctx.pid, ctx.repo, ctx.tier)
  c06.r4(sub)
  for f in sub.findings:
    fi = ctx.repo.func(f.module, f.qualname)
    ctx.fail(rule, fi, f.construct, f.message, node=fi.node, witness=f.witness)
  for i in sub.instances:
    if i.verdict == 'holds':
      ctx.instances.append(type(i)(rule, i.where, i.what, 'holds', True, i.detail))
  ctx.floor(rule, 2)


def r4(ctx: Ctx):
  rule = 'R-C16-4'
  ctx.rule(rule, 'transport tables agree (R-C14-1)')
  sub = Ctx(ctx.pid, ctx.repo, ctx.tier)
  c14.r1(sub)
  for f in sub.findings:
    fi = c06._find(ctx.repo, f.module, f.qualname)
    ctx.fail(rule, fi, f.construct, f.message, node=fi.node, witness=f.witness)
  n = 0
  for i in sub.instances:
    if i.verdict == 'holds':
      n += 1
      ctx.instances.append(type(i)(rule, i.where, i.what, 'holds', i.nontrivial, i.detail))
  ctx.floor(rule, 8)


def r5(ctx: Ctx):
  rule = 'R-C16-5'
  ctx.rule(rule, 'no key dropped by the merge: in TransformRunner.merge_states'
           ' every (metric, slice) entry of every incoming state whose metric'
           ' belongs to the runner is stored into the merged state on every'
           ' path through the loop body (a slice seen only by a later shard'
           ' must still be reported)')
  fi = ctx.repo.func(TR, 'TransformRunner.merge_states')
  g = cfgm.cfg_of(fi.node)
  inner = [n for n in g.nodes if n.kind == 'for_iter' and isinstance(n.ast.iter, ast.Call)
           and isinstance(n.ast.iter.func, ast.Attribute) and n.ast.iter.func.attr == 'items'
           and isinstance(n.ast.target, ast.Tuple) and len(n.ast.target.elts) == 2]
  if len(inner) != 1:
    raise AnalysisError(f'{rule}: expected one `for key, fn_state in state.items()` loop')
  lp = inner[0]
  kv = unparse(lp.ast.target.elts[0])
  conds = [n for n in g.nodes if n.kind == 'cond' and 'agg_fns' in unparse(n.ast)
           and n in g.reachable([lp], edge_ok=cfgm.only_normal)]
  if not conds:
    raise AnalysisError(f'{rule}: the membership test against self.agg_fns was not found')
  store = lambda n: n.kind == 'stmt' and isinstance(n.ast, ast.Assign) and any(
      isinstance(t, ast.Subscript) and unparse(t.slice) == kv for t in n.ast.targets)
  n_ok = 0
  for c in conds:
    starts = [s_ for s_, lab in c.succ if lab == 'true']
    for st_ in starts:
      if store(st_):
        n_ok += 1
        continue
      w = g.must_pass(st_, [lp], store, cfgm.only_normal)
      if w is None:
        n_ok += 1
      else:
        ctx.fail(rule, fi, f'TransformRunner.merge_states: merged[{kv}] stored on every path',
                 'a path through the merge loop keeps an incoming entry of the'
                 ' runner out of the merged state: slice keys that the first'
                 ' state does not hold are dropped from the final aggregate',
                 node=c.ast, witness=w[-8:])
  if n_ok:
    ctx.ok(rule, fi, f'merged[{kv}] is stored on every path for a runner metric', lp.ast)
  ctx.floor(rule, 1)


def r6(ctx: Ctx):
  rule = 'R-C16-6'
  ctx.rule(rule, '"the same multiset of output batches": after WorkerPool.iterate'
           ' has stopped its event loop (no task can deliver any more) the'
           ' output queue is drained once more before the generator ends —'
           ' batches that arrived after the last drain of the scheduling loop'
           ' would otherwise be dropped')
  fi = ctx.repo.func(CW, 'WorkerPool.iterate')
  g = cfgm.cfg_of(fi.node)
  from mlmverif import pat
  stops = [n for n in g.nodes if n.kind == 'stmt' and n.ast is not None and (
      pat.has(n.ast, '$l.call_soon_threadsafe($l.stop)', nested=True) or pat.has(n.ast, '$l.stop()', nested=True))]
  if not stops:
    raise AnalysisError(f'{rule}: the event loop stop was not found in WorkerPool.iterate')
  q = None
  for x in walk_no_nested(fi.node):
    if isinstance(x, ast.Assign) and isinstance(x.targets[0], ast.Name) and isinstance(x.value, ast.Call) and (
        unparse(x.value.func) in ('queue.SimpleQueue', 'queue.Queue')):
      # the queue whose elements the generator yields
      cand = x.targets[0].id
      if any(isinstance(y, ast.Yield) and y.value is not None and unparse(y.value) == f'{cand}.get()'
             for y in ast.walk(fi.node)):
        q = cand
  if q is None:
    raise AnalysisError(f'{rule}: the output queue was not found')
  drain_tests = {id(w_.test) for w_ in ast.walk(fi.node) if isinstance(w_, ast.While)
                 and f'{q}.empty()' in unparse(w_.test)
                 and any(isinstance(y, ast.Yield) and y.value is not None and f'{q}.get' in unparse(y.value)
                         for b_ in w_.body for y in ast.walk(b_))}
  drain = lambda n: n.kind == 'cond' and id(n.ast) in drain_tests

  def edge_ok(p_, q_, lab):
    if lab in ('exc', 'close'):
      return False
    return True

  n = 0
  for st in stops:
    n += 1
    w = g.must_pass(st, [g.exit_ret, g.exit_exc], drain, edge_ok)
    if w is None:
      ctx.ok(rule, fi, f'`{st.text()[:50]}` is followed by a drain of {q} on every path', st.ast)
    else:
      ctx.fail(rule, fi, f'WorkerPool.iterate: drain {q} after stopping the event loop',
               f'after the event loop is stopped the generator can finish without'
               f' yielding what is left in `{q}`: batches enqueued by the last task'
               ' after the scheduling loop\'s own drain are never delivered',
               node=st.ast, witness=w[-8:])
  ctx.floor(rule, 1, n)


def r7(ctx: Ctx):
  rule = 'R-C16-7'
  ctx.rule(rule, 'master and workers build the SAME pipeline: every call of the'
           ' pipeline definition inside sharded_pipelines_as_iterator (the'
           ' traced per-shard tasks and the master-side merge/result function)'
           ' forwards *pipeline_args and **pipeline_kwargs and num_shards — a'
           ' master built with default kwargs filters out or mis-finalises'
           ' the shard states of a configured pipeline')
  fi = ctx.repo.func(ORCH, 'sharded_pipelines_as_iterator')
  a = fi.node.args
  if a.vararg is None or a.kwarg is None:
    raise AnalysisError(f'{rule}: sharded_pipelines_as_iterator has no *args/**kwargs')
  va, kw = a.vararg.arg, a.kwarg.arg
  dp = fi.params()[1] if len(fi.params()) > 1 else None
  calls = []
  for c in ast.walk(fi.node):
    if not isinstance(c, ast.Call):
      continue
    f = c.func
    direct = isinstance(f, ast.Name) and f.id == dp
    traced = isinstance(f, ast.Call) and f.args and isinstance(f.args[0], ast.Name) and f.args[0].id == dp and (
        unparse(f.func).endswith('trace'))
    if direct or traced:
      calls.append(c)
  if len(calls) < 2:
    raise AnalysisError(f'{rule}: expected the worker-side and the master-side call of `{dp}`, found {len(calls)}')
  n = 0
  for c in calls:
    n += 1
    has_va = any(isinstance(x, ast.Starred) and unparse(x.value) == va for x in c.args)
    has_kw = any(k.arg is None and unparse(k.value) == kw for k in c.keywords)
    ns = kwarg(c, 'num_shards')
    if has_va and has_kw and ns is not None and unparse(ns) == 'num_shards':
      ctx.ok(rule, fi, f'`{unparse(c.func)[:40]}(*{va}, ..., **{kw})`', c)
    else:
      miss = [t for t, ok_ in ((f'*{va}', has_va), (f'**{kw}', has_kw), ('num_shards', ns is not None)) if not ok_]
      ctx.fail(rule, fi, f'sharded_pipelines_as_iterator: {dp}(*{va}, num_shards=num_shards, **{kw}) at every site',
               f'`{unparse(c)[:70]}` does not forward {miss}: master and workers run'
               ' differently configured pipelines, so shard states are dropped by'
               ' the merge or finalised with the wrong configuration', node=c)
  ctx.floor(rule, 2, n)


def r10(ctx: Ctx):
  rule = 'R-C16-10'
  ctx.rule(rule, 'a shard pipeline is built afresh for every run: the traced'
           ' calls of the pipeline definition that are sent to the workers'
           ' carry no result caching (`cache_result_` absent or False) — a'
           ' pipeline object holds one-shot state (data-source iterators,'
           ' aggregation state); a cached one is reused by the next identical'
           ' run and yields nothing')
  fi = ctx.repo.func(ORCH, 'sharded_pipelines_as_iterator')
  dp = fi.params()[1]
  n = 0
  for c in ast.walk(fi.node):
    if isinstance(c, ast.Call) and isinstance(c.func, ast.Call) and c.func.args and isinstance(
        c.func.args[0], ast.Name) and c.func.args[0].id == dp and unparse(c.func.func).endswith('trace'):
      n += 1
      flags = {k.arg: k.value for k in c.keywords if k.arg in ('cache_result_', 'lazy_result_')}
      flags.update({k.arg: k.value for k in c.func.keywords if k.arg in ('use_cache', 'lazy_result')})
      bad = [a for a, v in flags.items() if a in ('cache_result_', 'use_cache')
             and not (isinstance(v, ast.Constant) and v.value in (False, None))]
      if bad:
        ctx.fail(rule, fi, f'sharded_pipelines_as_iterator: trace({dp})(...) without result caching',
                 f'the per-shard task is traced with {bad[0]}={unparse(flags[bad[0]])}: the'
                 ' worker keeps the built pipeline (with its consumed data source'
                 ' and its state) and hands the same object to the next run with'
                 ' the same arguments — that run delivers no batches and an empty'
                 ' aggregate', node=c)
      else:
        ctx.ok(rule, fi, 'per-shard pipelines are traced without caching', c)
  ctx.floor(rule, 1, n)


def r11(ctx: Ctx):
  rule = 'R-C16-11'
  ctx.rule(rule, 'a stage worker is counted as a producer of the stage\'s output queue'
           ' BEFORE it can take input: on the event loop the only atomicity is "no'
           ' await". (a) CourierClient.async_iter starts the remote producer'
           ' (`.enqueue_from_iterator(...)` sent with return_immediately) and returns'
           ' without any further await; (b) AsyncIteratorQueue.async_enqueue_from_iterator'
           ' calls _start_enqueue() with no await between obtaining the iterator and'
           ' that call. An await in that window lets the remote worker drain the shared'
           ' input while the master has not registered it: the other workers finish,'
           ' the output queue reports done, its consumer stops and the late worker\'s'
           ' batches land in a queue nobody reads (missing output batches, aggregate'
           ' still complete)')
  repo = ctx.repo
  n = 0
  # (a)
  fi = repo.func('utils.courier_utils', 'CourierClient.async_iter')
  g = cfgm.cfg_of(fi.node)
  starts = [nd for nd in g.nodes if nd.kind in ('stmt', 'cond') and any(
      isinstance(x, ast.Call) and isinstance(x.func, ast.Attribute) and x.func.attr == 'enqueue_from_iterator'
      for x in cfgm.node_exprs(nd))]
  if not starts:
    raise AnalysisError(f'{rule}: async_iter no longer starts the remote producer with enqueue_from_iterator')
  def has_await(nd):
    return any(isinstance(x, ast.Await) for x in cfgm.node_exprs(nd))
  for st in starts:
    n += 1
    firsts = [s_ for s_, lab in st.succ if lab not in ('exc', 'close')]
    after = list(g.reachable(firsts, edge_ok=cfgm.only_normal)) + firsts
    aw = [nd for nd in after if has_await(nd)] + ([st] if has_await(st) else [])
    if aw:
      a = sorted(aw, key=lambda x_: x_.lineno)[0]
      ctx.fail(rule, fi, 'async_iter: no await between starting the remote producer and returning the queue',
               f'`{a.text()[:60]}` suspends async_iter after the remote producer was started: the'
               ' worker already pulls from the shared input queue while the caller has not yet'
               ' reached _start_enqueue(); if the other workers finish in that window the output'
               ' queue reports enqueue_done, its reader stops and this worker\'s batches are lost',
               node=a.ast)
    else:
      ctx.ok(rule, fi, 'remote producer start is fire-and-forget (no await before return)', st.ast)
  # (b)
  fj = repo.func('utils.iter_utils', 'AsyncIteratorQueue.async_enqueue_from_iterator')
  g2 = cfgm.cfg_of(fj.node)
  se = [nd for nd in g2.nodes if any(isinstance(x, ast.Call) and unparse(x.func) == 'self._start_enqueue'
                                     for x in cfgm.node_exprs(nd))]
  if len(se) != 1:
    raise AnalysisError(f'{rule}: expected one _start_enqueue() call in async_enqueue_from_iterator')
  p = fj.params()[1]
  # awaits of anything but the iterator argument itself before registration
  before = g2.reachable([g2.entry], avoid=lambda nd: nd is se[0], edge_ok=cfgm.only_normal)
  bad = []
  for nd in before:
    for x in cfgm.node_exprs(nd):
      if isinstance(x, ast.Await) and not (isinstance(x.value, ast.Name) and x.value.id == p):
        bad.append(nd)
  n += 1
  if bad:
    ctx.fail(rule, fj, 'async_enqueue_from_iterator: _start_enqueue() right after the iterator is obtained',
             f'`{bad[0].text()[:60]}` awaits something other than the iterator before _start_enqueue():'
             ' the producer is registered late and the queue can report done in between', node=bad[0].ast)
  else:
    ctx.ok(rule, fj, '_start_enqueue() follows `await iterator` with no other suspension', se[0].ast)
  ctx.floor(rule, 2, n)


def r17(ctx: Ctx):
  rule = 'R-C16-17'
  ctx.rule(rule, '"equals in-process execution ... with or without batch outputs": only the CHAIN drops its outputs when the caller'
           ' asks for the aggregate alone (with_result=False, as the sharded runner does with with_batch_output=False). In'
           ' ChainedRunner.iterate the per-runner `r.iterate(...)` calls of the loop over the runners do not receive the'
           ' caller\'s `with_result`: an upstream runner that returns None per batch feeds None into the next transform —'
           ' the fault-free sharded run of a chained pipeline fails or aggregates nothing')
  fi = ctx.repo.func('chainables.transform', 'ChainedRunner.iterate')
  n = 0
  for lp in walk_no_nested(fi.node):
    if not (isinstance(lp, ast.For) and 'runner' in unparse(lp.iter).lower()):
      continue
    lv = {y.id for y in ast.walk(lp.target) if isinstance(y, ast.Name)}
    for c in ast.walk(lp):
      if isinstance(c, ast.Call) and isinstance(c.func, ast.Attribute) and c.func.attr == 'iterate' and isinstance(
          c.func.value, ast.Name) and c.func.value.id in lv:
        n += 1
        kw = kwarg(c, 'with_result')
        dep = kw is not None and any(isinstance(y, ast.Name) and y.id in lv for y in ast.walk(kw))
        what = 'ChainedRunner.iterate: the stages of a chain always hand their batches on'
        if kw is None or dep:
          ctx.ok(rule, fi, what, c)
        else:
          ctx.fail(rule, fi, what,
                   f'`with_result={unparse(kw)}` is passed to EVERY runner of the chain: with with_result=False an upstream'
                   ' runner yields None instead of its batch and the next transform is fed None — only the chained iterator'
                   ' (the last hop to the caller) may drop the outputs', node=kw)
  if not n:
    raise AnalysisError(f'{rule}: the loop over the runners of ChainedRunner.iterate was not found')
  ctx.floor(rule, 1, n)


def r18(ctx: Ctx):
  rule = 'R-C16-18'
  ctx.rule(rule, '"fault-free distributed execution equals in-process execution" on servers that are started again (after a'
           ' stop, an idle auto-shutdown, a master re-used by the next run): a shutdown request belongs to ONE life of the'
           ' server. The flag is cleared where a new underlying server is constructed — the block of build_server() that'
           ' creates `courier.Server(...)` also stores `self._shutdown_requested = False`. Cleared only at the top of the'
           ' serving loop (whose thread start() spawns once per object), a restarted server answers every generator request'
           ' with "Shutdown requested" for ever')
  fi = ctx.repo.func('chainables.courier_server', 'CourierServer.build_server')
  n = 0
  for x in ast.walk(fi.node):
    if isinstance(x, ast.Assign) and any(is_self_attr(t, '_server') for t in x.targets) and isinstance(x.value, ast.Call) and (
        'Server' in unparse(x.value.func)):
      n += 1
      pm = parent_map(fi.node)
      blk = pm.get(x)
      body = getattr(blk, 'body', []) if blk is not None else []
      clears = any(isinstance(y, ast.Assign) and any(is_self_attr(t, '_shutdown_requested') for t in y.targets) and isinstance(
          y.value, ast.Constant) and y.value.value is False for b in body for y in ast.walk(b))
      what = 'CourierServer.build_server: a new underlying server starts without a pending shutdown request'
      if clears:
        ctx.ok(rule, fi, what, x)
      else:
        ctx.fail(rule, fi, what,
                 f'`{unparse(x)[:60]}` constructs the new server without clearing `self._shutdown_requested` in the same block:'
                 ' a server object that was shut down before keeps answering "Shutdown requested" after it is started again'
                 ' (the serving loop that could clear it is only spawned once per object)', node=x)
  if not n:
    raise AnalysisError(f'{rule}: build_server no longer constructs the courier server')
  ctx.floor(rule, 1, n)


def r13(ctx: Ctx):
  rule = 'R-C16-13'
  ctx.rule(rule, '"the same aggregate result": the runner the master merges and finalises with'
           ' (make(mode=AGGREGATE)) covers EVERY aggregating transform of the chain: in'
           ' TreeTransform.make the flattened transform list is cut down to one element'
           ' only under a test of `recursive` alone — never under a condition the aggregate'
           ' mode satisfies — and the aggregate mode only filters by `agg_fns`. A runner'
           ' built from the last transform skips the states of the earlier aggregating'
           ' stages: their results drop out of the one final result without an error')
  fi = ctx.repo.func(TR, 'TreeTransform.make')
  pm = parent_map(fi.node)
  tv = None
  for x in walk_no_nested(fi.node):
    if isinstance(x, ast.Assign) and isinstance(x.value, ast.Call) and unparse(x.value.func).endswith(
        'flatten_transform') and isinstance(x.targets[0], ast.Name):
      tv = x.targets[0].id
  if tv is None:
    raise AnalysisError(f'{rule}: TreeTransform.make no longer flattens the transform chain into a local')
  # names that carry the mode
  mode_names = {'mode'} | {t.id for x in walk_no_nested(fi.node) if isinstance(x, ast.Assign)
                           and any(isinstance(y, ast.Name) and y.id == 'mode' for y in ast.walk(x.value))
                           for t in x.targets if isinstance(t, ast.Name)}
  n = 0
  for x in walk_no_nested(fi.node):
    if not (isinstance(x, ast.Assign) and any(isinstance(t, ast.Name) and t.id == tv for t in x.targets)):
      continue
    v = x.value
    truncating = any(isinstance(y, ast.Subscript) and isinstance(y.value, ast.Name) and y.value.id == tv
                     for y in ast.walk(v))
    if not truncating:
      continue
    n += 1
    tests = []
    q = pm.get(x)
    while q is not None and q is not fi.node:
      if isinstance(q, ast.If):
        tests.append(q.test)
      q = pm.get(q)
    mentions_mode = any(isinstance(y, ast.Name) and y.id in mode_names for t in tests for y in ast.walk(t))
    if not tests or mentions_mode:
      ctx.fail(rule, fi, 'TreeTransform.make: the aggregate-mode runner keeps every aggregating transform',
               f'`{unparse(x)[:60]}` cuts the transform chain down'
               + (' unconditionally' if not tests else f' under `{unparse(tests[0])[:50]}`, which the aggregate mode satisfies')
               + ': the runner used to merge and finalise the shard states then knows only the last'
               ' transform, and the aggregates of every earlier aggregating stage are missing from the'
               ' final result', node=x)
    else:
      ctx.ok(rule, fi, f'chain cut to one transform only under `{unparse(tests[0])[:40]}`', x)
  filt = [x for x in walk_no_nested(fi.node) if isinstance(x, ast.Assign) and isinstance(x.value, ast.ListComp)
          and any(isinstance(t, ast.Name) and t.id == tv for t in x.targets)
          and any('agg_fns' in unparse(i_) for g_ in x.value.generators for i_ in g_.ifs)]
  if filt:
    n += 1
    ctx.ok(rule, fi, 'aggregate mode filters the chain by agg_fns', filt[0])
  ctx.floor(rule, 2, n)


def r14(ctx: Ctx):
  rule = 'R-C16-14'
  ctx.rule(rule, '"if fewer shard states arrive than expected the merge reports an error instead of'
           ' returning a partial aggregate": the guard lives in merge_states(strict_states_cnt=...)'
           ' (R-C16-1) and is armed only when the caller passes the expected number. Every'
           ' orchestration function that KNOWS the number of shards it launched (a `num_shards`'
           ' parameter/local) and merges the states they return must pass it on:'
           ' `<runner>.merge_states(<states>, strict_states_cnt=<num_shards>)`. Without it the'
           ' merge of the states that did arrive is delivered as an ordinary final result')
  repo = ctx.repo
  n = 0
  for fi in repo.all_functions():
    if not fi.module.name.endswith('orchestrate'):
      continue
    fns = [fi.node] + [x for x in ast.walk(fi.node) if x is not fi.node and isinstance(x, (ast.FunctionDef, ast.AsyncFunctionDef))]
    names = {a.arg for a in fi.node.args.args + fi.node.args.kwonlyargs + fi.node.args.posonlyargs} | {
        t.id for x in ast.walk(fi.node) if isinstance(x, ast.Assign) for t in x.targets if isinstance(t, ast.Name)}
    knows = 'num_shards' in names
    for c in ast.walk(fi.node):
      if isinstance(c, ast.Call) and isinstance(c.func, ast.Attribute) and c.func.attr == 'merge_states':
        n += 1
        kw = kwarg(c, 'strict_states_cnt')
        if kw is None and len(c.args) > 1:
          kw = c.args[1]
        if not knows:
          cap = kw is not None and any((isinstance(y, ast.Attribute) and y.attr in ('num_workers', 'workers', 'all_workers'))
                                       or (isinstance(y, ast.Name) and y.id in ('num_workers', 'workers')) for y in ast.walk(kw))
          if cap:
            # the converse mistake: demanding one state per worker OF THE POOL
            ctx.fail(rule, fi, f'{fi.qualname}: the expected number of states is the number of participants, not the pool size',
                     f'`{unparse(c)[:90]}` expects as many states as the pool has workers: only the workers that actually took'
                     ' part in the stage return a state (a capped stage, a worker that is busy elsewhere or not alive), so a'
                     ' fault-free run raises "unexpected number of aggregation states" and delivers no final aggregate', node=c)
          else:
            ctx.info(rule, fi, f'{fi.qualname}: number of producers not known in advance (one state per worker that iterated)')
          continue
        if kw is not None and any(isinstance(y, ast.Name) and y.id == 'num_shards' for y in ast.walk(kw)):
          ctx.ok(rule, fi, f'{fi.qualname}: merge armed with the expected number of states', c)
        else:
          ctx.fail(rule, fi, f'{fi.qualname}: merge_states(<shard states>, strict_states_cnt=num_shards)',
                   f'`{unparse(c)[:70]}` merges the states returned by the shards without the expected number'
                   ' although the function knows it (`num_shards`): when a shard\'s state does not arrive (the'
                   ' shard failed, returned something else) the states that did arrive are merged and delivered'
                   ' as an ordinary final aggregate — a partial result that looks like a complete one', node=c)
  ctx.floor(rule, 2, n)


def r15(ctx: Ctx):
  rule = 'R-C16-15'
  ctx.rule(rule, '"the same multiset of output batches": one request for the next remote batch is in'
           ' flight at a time, and none is issued once the end marker has been seen. In'
           ' CourierClient.async_iterate every path from receiving a batch (the await) to the next'
           ' `next_batch_from_generator` request passes the loop test on the exhaustion flag — i.e.'
           ' the batch is looked at first. A request sent before that (pipelining) is still in flight'
           ' when the shard ends; on a worker that is reused at once it reaches the NEXT shard\'s'
           ' generator, dequeues its first batches and its answer is discarded')
  fi = ctx.repo.func('utils.courier_utils', 'CourierClient.async_iterate')
  g = cfgm.cfg_of(fi.node)
  req = lambda nd: any(isinstance(c, ast.Call) and unparse(c.func).endswith('next_batch_from_generator')
                       for c in cfgm.node_exprs(nd))
  reqs = [nd for nd in g.nodes if nd.kind in ('stmt', 'cond') and req(nd)]
  if not reqs:
    raise AnalysisError(f'{rule}: async_iterate no longer requests batches with next_batch_from_generator')
  # the variable holding the request's future, and the awaits of it
  fut = {t.id for nd in reqs if isinstance(nd.ast, ast.Assign) for t in nd.ast.targets if isinstance(t, ast.Name)}
  recv = [nd for nd in g.nodes if nd.kind in ('stmt', 'cond') and any(
      isinstance(x, ast.Await) and any(isinstance(y, ast.Name) and y.id in fut for y in ast.walk(x))
      for x in cfgm.node_exprs(nd))]
  loop_tests = [nd for nd in g.nodes if nd.kind == 'cond' and getattr(nd, 'is_loop', False) and isinstance(
      nd.ast, (ast.UnaryOp, ast.Name, ast.Compare))]
  if not recv or not loop_tests:
    raise AnalysisError(f'{rule}: cannot find the receive point / the loop test of async_iterate')
  n = 0
  for rv in recv:
    n += 1
    starts = [s_ for s_, lab in rv.succ if lab not in ('exc', 'close')]
    through = lambda nd: nd in loop_tests
    bad = None
    for s_ in starts:
      if req(s_):
        bad = [rv.text(), s_.text()]
        break
      reach = g.reachable([s_], avoid=through, edge_ok=cfgm.only_normal, include_src=True)
      hit = [nd for nd in reach if req(nd)]
      if hit:
        bad = g.path_to(reach, hit[0])
    if bad:
      ctx.fail(rule, fi, 'async_iterate: the next batch is requested only after the current one was examined',
               'a next_batch_from_generator request can be issued after a response arrived without passing the'
               ' loop test on the exhaustion flag (' + ' -> '.join(str(x_).split(':', 2)[-1][:40] for x_ in bad[-3:]) + '):'
               ' when that response carried the end marker, one request too many is already on its way', node=rv.ast)
    else:
      ctx.ok(rule, fi, 'request -> await -> examine -> loop test -> request', rv.ast)
  ctx.floor(rule, 1, n)


def r16(ctx: Ctx):
  rule = 'R-C16-16'
  ctx.rule(rule, '"for any number of workers and shards": the number of shards a run is split into is a'
           ' function of the CONFIGURATION (the explicit num_shards, else the size of the pool), never of'
           ' which workers happen to be known alive at that moment: the default for num_shards in the'
           ' orchestration functions does not read a liveness-dependent property of the pool (one whose'
           ' implementation consults is_alive: workers, idle_workers, ...). On a cold pool such a'
           ' property is empty — zero shards, no batches, an empty aggregate and no error')
  repo = ctx.repo
  wp = repo.cls('chainables.courier_worker', 'WorkerPool')
  live = {name for name, m_ in wp.methods.items() if any(
      isinstance(y, ast.Attribute) and y.attr == 'is_alive' for y in ast.walk(m_.node))}
  if 'workers' not in live:
    raise AnalysisError(f'{rule}: WorkerPool.workers no longer depends on is_alive (table: {sorted(live)})')
  n = 0
  for fi in repo.all_functions():
    if not fi.module.name.endswith('orchestrate'):
      continue
    for x in walk_no_nested(fi.node):
      if isinstance(x, ast.Assign) and any(isinstance(t, ast.Name) and t.id == 'num_shards' for t in x.targets):
        n += 1
        bad = [y for y in ast.walk(x.value) if isinstance(y, ast.Attribute) and y.attr in live]
        if bad:
          ctx.fail(rule, fi, f'{fi.qualname}: num_shards comes from the configuration',
                   f'`{unparse(x)[:60]}` derives the number of shards from `{unparse(bad[0])}`, which only lists workers'
                   ' currently known alive: before the pool has connected it is empty, the run is split into 0'
                   ' shards and returns an empty aggregate without any error', node=x)
        else:
          ctx.ok(rule, fi, f'{fi.qualname}: `{unparse(x)[:50]}`', x)
  ctx.floor(rule, 1, n)


def r20(ctx: Ctx):
  rule = 'R-C16-20'
  ctx.rule(rule, '"produces ... the same aggregate result as running it in one process", for every kind of data source: both'
           ' distributed paths build the master-side merge runner with make(mode=AGGREGATE), which clears the data source'
           ' through maybe_replace — and maybe_replace decides "unchanged?" with the module\'s equality helper under `not`.'
           ' A helper whose value is used as a truth value returns a REAL bool on every path: `bool(<comparison>)`, a'
           ' constant, an identity test, or a not-expression. `return a == b` hands back whatever __eq__ returns — for an'
           ' ndarray data source an element-wise array, whose truth value raises outside the helper\'s own try')
  mi = ctx.repo.module('chainables.transform')
  n = 0
  # helpers of the module that are called directly inside `not ...` / `if ...` tests
  from mlmverif.props.c17 import _truth_positions
  used_as_truth = set()
  fns = list(mi.functions.values()) + [m_ for c in mi.classes.values() for m_ in c.methods.values()]
  for fi in fns:
    for t in _truth_positions(fi.node):
      if isinstance(t, ast.Call) and isinstance(t.func, ast.Name) and t.func.id in mi.functions:
        used_as_truth.add(t.func.id)
  for name in sorted(used_as_truth):
    fi = mi.functions[name]
    for r_ in walk_no_nested(fi.node):
      if not (isinstance(r_, ast.Return) and r_.value is not None):
        continue
      v = r_.value
      n += 1
      real = (isinstance(v, ast.Constant) or (isinstance(v, ast.Call) and unparse(v.func) in ('bool', 'isinstance', 'callable', 'hasattr', 'any', 'all'))
              or (isinstance(v, ast.UnaryOp) and isinstance(v.op, ast.Not))
              or (isinstance(v, ast.Compare) and all(isinstance(o, (ast.Is, ast.IsNot, ast.In, ast.NotIn)) for o in v.ops))
              or (isinstance(v, ast.BoolOp) and all(isinstance(z, ast.Call) and unparse(z.func) in ('bool', 'isinstance') for z in v.values)))
      what = f'{name}: `{unparse(r_)[:50]}` returns a real bool'
      if real:
        ctx.ok(rule, fi, what, r_)
      elif isinstance(v, ast.Compare):
        ctx.fail(rule, fi, what,
                 f'`{unparse(r_)}` in {name}() returns the raw result of a rich comparison, and {name}() is used as a truth value:'
                 ' with an ndarray operand (a numpy data source compared with None) that result is an array and `not <array>`'
                 ' raises "truth value ... is ambiguous" — the aggregate-mode runner of the distributed paths cannot be built',
                 node=r_)
      else:
        ctx.info(rule, fi, what + ' (not a comparison; not decided)')
  ctx.floor(rule, 2, n)


def r22(ctx: Ctx):
  rule = 'R-C16-22'
  ctx.rule(rule, '"the same multiset of output batches and the same aggregate result": a prefetching server holds ONE generator, so a'
           ' worker iterates one shard at a time. In WorkerPool.iterate the candidates for the next shard exclude the'
           ' workers that are still running one — the candidate list is a set difference with `running_workers`, or every'
           ' condition that admits a worker implies `worker not in running_workers` (a conjunct, never one arm of an `or`).'
           ' Handing a busy worker another shard replaces the generator it is still being asked for: batches are lost,'
           ' repeated, and the shard states mix')
  fi = ctx.repo.func('chainables.courier_worker', 'WorkerPool.iterate')
  n = 0
  # the set of workers that still run a shard: names bound to a set of `<task>.worker`
  running = set()
  for x in ast.walk(fi.node):
    if isinstance(x, ast.Assign) and isinstance(x.value, (ast.SetComp, ast.Call)):
      v0 = x.value
      elt = v0.elt if isinstance(v0, ast.SetComp) else None
      if elt is not None and isinstance(elt, ast.Attribute) and elt.attr == 'worker':
        running |= {t.id for t in x.targets if isinstance(t, ast.Name)}
  if not running:
    raise AnalysisError(f'{rule}: WorkerPool.iterate no longer keeps a set of the workers that run a shard')
  mentions_running = lambda e: any(isinstance(z, ast.Name) and z.id in running for z in ast.walk(e))
  for x in ast.walk(fi.node):
    tgt = x.targets[0] if isinstance(x, ast.Assign) else x.target if isinstance(x, ast.AnnAssign) else None
    if tgt is None or not isinstance(tgt, ast.Name) or x.value is None:
      continue
    if not any(isinstance(y, ast.Attribute) and y.attr == 'idle_workers' for y in ast.walk(x.value)):
      continue
    n += 1
    v = x.value
    ok = False
    for y in ast.walk(v):
      if isinstance(y, ast.BinOp) and isinstance(y.op, ast.Sub) and mentions_running(y.right):
        ok = True
      if isinstance(y, (ast.ListComp, ast.SetComp, ast.GeneratorExp)):
        for g_ in y.generators:
          for cond in g_.ifs:
            conj = cond.values if isinstance(cond, ast.BoolOp) and isinstance(cond.op, ast.And) else [cond]
            if any(isinstance(c_, ast.Compare) and isinstance(c_.ops[0], ast.NotIn) and mentions_running(c_.comparators[0])
                   for c_ in conj):
              ok = True
    what = 'WorkerPool.iterate: a worker that still runs a shard is no candidate for the next one'
    if ok:
      ctx.ok(rule, fi, what, x)
    else:
      ctx.fail(rule, fi, what,
               f'`{unparse(x)[:90]}` can admit a worker of `running_workers`: its server\'s single generator is replaced by the new'
               ' shard while the old one is still being polled — missing and duplicated batches, a wrong aggregate, no error',
               node=x)
  ctx.floor(rule, 1, n)


def r25(ctx: Ctx):
  rule = 'R-C16-25'
  ctx.rule(rule, '"the same multiset of output batches and the same aggregate result": the per-shard iterator of the sharded runner'
           ' is switched by the caller\'s two flags — batches are returned iff the caller wants batch output, states iff an'
           ' aggregate is to be computed. An argument-selection check over the `.iterate(...)` call of'
           ' sharded_pipelines_as_iterator: the value given to `with_result` is the name that speaks of batches/outputs, the'
           ' value given to `with_agg_state` the one that speaks of the aggregate (agg) — crossed, a run with batch output'
           ' but no result queue yields None per batch, and one with a result queue but no batch output merges zero states')
  mi = ctx.repo.module('chainables.orchestrate')
  fi = mi.functions.get('sharded_pipelines_as_iterator')
  if fi is None:
    raise AnalysisError(f'{rule}: sharded_pipelines_as_iterator not found')
  n = 0
  for c in ast.walk(fi.node):
    if not (isinstance(c, ast.Call) and isinstance(c.func, ast.Attribute) and c.func.attr == 'iterate'):
      continue
    wr, ws = kwarg(c, 'with_result'), kwarg(c, 'with_agg_state')
    if wr is None or ws is None:
      continue
    n += 1
    names = lambda e: ' '.join(y.id for y in ast.walk(e) if isinstance(y, ast.Name)).lower()
    crossed = ('agg' in names(wr) and 'agg' not in names(ws)) or (('batch' in names(ws) or 'output' in names(ws)) and 'agg' not in names(ws))
    what = 'sharded_pipelines_as_iterator: with_result follows the batch-output flag, with_agg_state the aggregate flag'
    if crossed:
      ctx.fail(rule, fi, what,
               f'`with_result={unparse(wr)}, with_agg_state={unparse(ws)}`: the two switches are crossed — the shards return batches when'
               ' an aggregate was asked for and states when batches were asked for', node=c)
    else:
      ctx.ok(rule, fi, what, c)
  ctx.floor(rule, 1, n)


def r26(ctx: Ctx):
  rule = 'R-C16-26'
  ctx.rule(rule, '"produces the same multiset of output batches ... for any number of workers": whether the interleaved stage still'
           ' needs workers depends on whether its input is EXHAUSTED (buffer drained and producers done — the truth value of'
           ' the input queue), not on whether the upstream has finished PRODUCING. `_async_run_single_stage` never reads'
           ' `<input queue>.enqueue_done`: a fast upstream that fills the buffer before the first worker is scheduled would'
           ' leave the buffered input unread for ever (no batch, no aggregate, the loop spins)')
  mi = ctx.repo.module('chainables.orchestrate')
  fi = mi.functions.get('_async_run_single_stage')
  if fi is None:
    raise AnalysisError(f'{rule}: _async_run_single_stage not found')
  ps = set(fi.params())
  inputs = {p for p in ps if 'input' in p}
  n = 1
  bad = [y for y in ast.walk(fi.node) if isinstance(y, ast.Attribute) and y.attr == 'enqueue_done' and isinstance(y.value, ast.Name)
         and y.value.id in inputs]
  what = '_async_run_single_stage: scheduling tests the exhaustion of the input queue, not its producers'
  if bad:
    ctx.fail(rule, fi, what,
             f'`{unparse(bad[0])}` is read to decide about workers: once the upstream has enqueued everything this is true although'
             ' the buffer still holds the whole input — no worker is scheduled to read it', node=bad[0])
  else:
    ctx.ok(rule, fi, what, fi.node)
  ctx.floor(rule, 1, n)


from mlmverif.selfcheck import B, OK  # noqa: E402

_T = 'chainables/transform.py'
_O = 'chainables/orchestrate.py'
VARIANTS = [
    OK('merged-state-stored-through-a-local', 'chainables/transform.py',
       "          states_by_fn[key] = fn_state\n", "          merged_so_far = fn_state\n          states_by_fn[key] = merged_so_far\n"),
    OK('stage-merge-through-a-local', 'chainables/orchestrate.py',
       "      agg_state = agg_fn.merge_states(agg_states)\n", "      merged_state = agg_fn.merge_states(agg_states)\n      agg_state = merged_state\n"),
    OK('next-batch-queue-through-a-local', 'chainables/courier_server.py',
       "      result = self._generator.get_batch(batch_size, block=True)", "      prefetched = self._generator\n      result = prefetched.get_batch(batch_size, block=True)"),
    OK('input-exhaustion-tested-with-bool', 'chainables/orchestrate.py',
       "            and input_queue\n", "            and bool(input_queue)\n"),
    B('workers-scheduled-only-while-the-upstream-produces', 'chainables/orchestrate.py',
      "            and input_queue\n", "            and input_queue is not None\n            and not input_queue.enqueue_done\n", 'R-C16-26'),
    OK('shard-iterator-switches-through-locals', 'chainables/orchestrate.py',
       "          with_result=with_batch_output,\n          with_agg_state=calculate_agg_result,", "          with_result=bool(with_batch_output),\n          with_agg_state=bool(calculate_agg_result),"),
    B('shard-iterator-switches-crossed', 'chainables/orchestrate.py',
      "          with_result=with_batch_output,\n          with_agg_state=calculate_agg_result,", "          with_result=calculate_agg_result,\n          with_agg_state=with_batch_output,", 'R-C16-25'),
    B('aggregating-middle-stage-drops-its-outputs', 'chainables/orchestrate.py',
      "        aggregate_only=aggregate_only and is_last_stage,", "        aggregate_only=aggregate_only and bool(transform.agg_fns),", 'R-C16-23'),
    B('busy-worker-with-spare-parallelism-gets-a-shard', 'chainables/courier_worker.py',
      "        workers: list[Worker] = list(set(self.idle_workers()) - running_workers)",
      "        workers: list[Worker] = [w for w in set(self.idle_workers()) if w not in running_workers or w.max_parallelism > 1]", 'R-C16-22'),
    OK('candidates-by-comprehension', 'chainables/courier_worker.py',
       "        workers: list[Worker] = list(set(self.idle_workers()) - running_workers)",
       "        workers: list[Worker] = [w for w in set(self.idle_workers()) if w not in running_workers]"),
    B('remote-end-without-value-becomes-none', 'utils/courier_utils.py',
      "      raise StopAsyncIteration(*e.args) from e\n    except Exception as e:  # pylint: disable=broad-exception-caught\n      if is_timeout(e):", "      raise StopAsyncIteration(e.value) from e\n    except Exception as e:  # pylint: disable=broad-exception-caught\n      if is_timeout(e):", 'R-C16-21'),
    B('revert-equality-helper-returns-the-raw-comparison', 'chainables/transform.py',
      "    # The comparison of array-likes is not a truth value.\n    return bool(a == b)\n", "    return a == b\n", 'R-C16-20'),
    OK('equality-helper-via-operator-eq', 'chainables/transform.py',
       "    # The comparison of array-likes is not a truth value.\n    return bool(a == b)\n", "    same = a == b\n    return bool(same)\n"),
    B('stage-merge-expects-one-state-per-pool-worker', 'chainables/orchestrate.py',
      "      agg_state = agg_fn.merge_states(agg_states)\n", "      agg_state = agg_fn.merge_states(\n          agg_states, strict_states_cnt=worker_pool.num_workers\n      )\n", 'R-C16-14'),
    B('remote-batch-from-single-gets', 'chainables/courier_server.py',
      "      result = self._generator.get_batch(batch_size, block=True)", "      result = [self._generator.get() for _ in range(max(batch_size, 1))]", 'R-C16-19'),
    B('every-runner-of-a-chain-drops-its-outputs', 'chainables/transform.py',
      '          iterator,\n          with_agg_state=with_agg_state,\n          state=state if r.has_agg else None,',
      '          iterator,\n          with_result=with_result,\n          with_agg_state=with_agg_state,\n          state=state if r.has_agg else None,', 'R-C16-17'),
    B('shutdown-flag-cleared-by-the-loop-only', 'chainables/courier_server.py',
      '    if self._server is None:\n      self._shutdown_requested = False\n      self._server = courier.Server(', '    if self._server is None:\n      self._server = courier.Server(', 'R-C16-18'),
    B('default-shards-from-live-workers', _O,
      '  num_shards = num_shards or worker_pool.num_workers', '  num_shards = num_shards or len(worker_pool.workers)', 'R-C16-16'),
    B('client-pipelines-next-batch-request', 'utils/courier_utils.py',
      '        assert isinstance(output_batch, list), f\'{type(output_batch)}\'\n',
      '        assert isinstance(output_batch, list), f\'{type(output_batch)}\'\n        output_state = self.next_batch_from_generator(self.iterate_batch_size)\n', 'R-C16-15'),
    OK('sharded-merge-armed-with-num-shards', _O,
       '      merged_state = agg_fn.merge_states(iterate_agg_state())',
       '      merged_state = agg_fn.merge_states(iterate_agg_state(), strict_states_cnt=num_shards)', count=1),
    B('aggregate-runner-from-last-transform-only', _T,
      '    if not recursive:\n      transforms = [transforms[-1]]\n    agg_only = mode == RunnerMode.AGGREGATE\n    if agg_only:\n      transforms = [t for t in transforms if t.agg_fns]',
      '    agg_only = mode == RunnerMode.AGGREGATE\n    if not recursive or agg_only:\n      transforms = [transforms[-1]]', 'R-C16-13'),
    OK('aggregate-filter-before-recursive-cut', _T,
       '    if not recursive:\n      transforms = [transforms[-1]]\n    agg_only = mode == RunnerMode.AGGREGATE\n    if agg_only:\n      transforms = [t for t in transforms if t.agg_fns]',
       '    agg_only = mode == RunnerMode.AGGREGATE\n    if not recursive:\n      transforms = transforms[-1:]\n    if agg_only:\n      transforms = [t for t in transforms if t.agg_fns]'),
    B('remote-start-awaited', 'utils/courier_utils.py',
      '    _ = self.call(\n        lazy_output_q.enqueue_from_iterator(lazy_iterable),\n        return_exception=True,\n        return_immediately=True,\n    )',
      '    state = self.call(\n        lazy_output_q.enqueue_from_iterator(lazy_iterable),\n        return_exception=True,\n        return_immediately=True,\n    )\n    await asyncio.wrap_future(state)',
      'R-C16-11'),
    B('producer-registered-after-a-sleep', 'utils/iter_utils.py',
      '    self._start_enqueue()\n    try:\n      if isinstance(iterator, Awaitable):',
      '    await asyncio.sleep(0)\n    self._start_enqueue()\n    try:\n      if isinstance(iterator, Awaitable):', 'R-C16-11'),
    OK('remote-start-state-kept', 'utils/courier_utils.py',
       '    _ = self.call(\n        lazy_output_q.enqueue_from_iterator(lazy_iterable),',
       '    start_state = self.call(\n        lazy_output_q.enqueue_from_iterator(lazy_iterable),'),
    B('shard-pipeline-cached-at-worker', 'chainables/orchestrate.py',
      '          shard_index=i,\n          num_shards=num_shards,\n          **pipeline_kwargs,',
      '          shard_index=i,\n          num_shards=num_shards,\n          cache_result_=True,\n          **pipeline_kwargs,',
      'R-C16-10'),
    B('final-drain-removed', 'chainables/courier_worker.py',
      '      event_loop.call_soon_threadsafe(event_loop.stop)\n      while not output_queue.empty():\n        batch_cnt += 1\n        yield output_queue.get()\n',
      '      event_loop.call_soon_threadsafe(event_loop.stop)\n', 'R-C16-6'),
    B('master-pipeline-without-kwargs', 'chainables/orchestrate.py',
      '        shard_index=0,\n        num_shards=num_shards,\n        **pipeline_kwargs,\n',
      '        shard_index=0,\n        num_shards=num_shards,\n', 'R-C16-7'),
    B('chained-merge-streams-states', _T,
      '    states = list(states)\n    if strict_states_cnt and len(states) != strict_states_cnt:',
      '    if strict_states_cnt and False:', 'R-C16-8'),
    B('merge-keeps-only-first-state-keys', _T,
      '          if key in states_by_fn:\n            fn_state = agg_fn.merge_states([states_by_fn[key], fn_state])\n          states_by_fn[key] = fn_state',
      '          if not states_cnt:\n            states_by_fn[key] = fn_state\n          elif key in states_by_fn:\n            states_by_fn[key] = agg_fn.merge_states(\n                [states_by_fn[key], fn_state]\n            )',
      'R-C16-5'),
    OK('merge-two-branch-store', _T,
       '          if key in states_by_fn:\n            fn_state = agg_fn.merge_states([states_by_fn[key], fn_state])\n          states_by_fn[key] = fn_state',
       '          if key in states_by_fn:\n            states_by_fn[key] = agg_fn.merge_states([states_by_fn[key], fn_state])\n          else:\n            states_by_fn[key] = fn_state'),
    B('single-state-skips-final-aggregate', 'chainables/orchestrate.py',
      '    if result_q.returned:\n      agg_states = []', '    if len(result_q.returned) > 1:\n      agg_states = []',
      'R-C16-2'),
    OK('merge-guard-len-positive', 'chainables/orchestrate.py',
       '    if result_q.returned:\n      agg_states = []', '    if len(result_q.returned) > 0:\n      agg_states = []'),
    B('strict-guard-removed', _T,
      "    if strict_states_cnt and states_cnt != strict_states_cnt:\n      raise ValueError(\n          'unexpected number of aggregation states. Workers'\n          f' might have partially crashed: got {states_cnt} states, '\n          f'needs {strict_states_cnt}.'\n      )\n",
      '', 'R-C16-1'),
    B('strict-guard-after-early-return', _T,
      '    states = list(states)\n    if strict_states_cnt and len(states) != strict_states_cnt:',
      '    states = list(states)\n    if not states:\n      return {}\n    if strict_states_cnt and len(states) != strict_states_cnt:',
      'R-C16-1'),
    B('count-per-key', _T,
      '          states_by_fn[key] = fn_state\n      states_cnt += 1',
      '          states_by_fn[key] = fn_state\n          states_cnt += 1', 'R-C16-1'),
    B('state-overwritten', _T,
      '          if key in states_by_fn:\n            fn_state = agg_fn.merge_states([states_by_fn[key], fn_state])\n',
      '', 'R-C16-1'),
    B('shards-skip-last', _O, '      for i in range(num_shards)\n  )',
      '      for i in range(num_shards - 1)\n  )', 'R-C16-2'),
    B('stage-keeps-partials', _O, '      result_q.returned.clear()\n', '', 'R-C16-2'),
    B('merge-thread-stops-on-first', _O,
      '          if isinstance(state, transform_lib.AggregateResult):\n            yield state.agg_state\n            continue',
      '          if isinstance(state, transform_lib.AggregateResult):\n            yield state.agg_state\n            return',
      None),
]
