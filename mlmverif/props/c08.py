"""C08 — pipeline operators route data exactly as a reference interpreter.

Structural part: operators can only reach the copying tree API (caller inputs
untouched), build-time key validation dominates construction, sinks are closed
in `finally`, and no possibly-empty key tuple reaches an unguarded `[0]`.
"""
from __future__ import annotations

import ast

from mlmverif import cfg as cfgm
from mlmverif.core import (parent_map, AnalysisError, Ctx, FuncInfo, Repo, is_self_attr,
                           kwarg, unparse, walk_no_nested)
from mlmverif.effects import DIRECT, ELEM, NONE, Effects

EXPLANATION = (
    'Effect analysis + CFG dominance over tree_fns.py / transform.py. Decides:'
    ' no operator code calls TreeMapView.set without in_place=False, stores'
    ' through a view subscript, or mutates an object owned by the records it'
    ' receives (_get_inputs/_get_outputs/_apply_masks/apply_mask/update_state'
    ' with the record tainted); assign/add_aggregate call _check_assign_keys'
    ' on every non-raising path before the new transform is built and that'
    ' check raises on duplicates and on SELF mixed with other keys; chain'
    ' rejects duplicate names and aggregate keys; Sink.iterate closes its sink'
    ' on every exit incl. generator close; every `self.output_keys[0]` read'
    ' reachable from an operator built with a possibly empty key tuple is'
    ' guarded. NOT decided: stream equality with a reference evaluation.'
)
ASSUMPTIONS = ['A positive control (synthetic module with an in-place set and'
               ' a view subscript store) must be flagged on every run.']

TF = 'chainables.tree_fns'
TR = 'chainables.transform'
TT = 'chainables.tree'

_CONTROL = '''
from ml_metrics._src.chainables import tree
def bad_operator(inputs, value):
  view = tree.TreeMapView(inputs)
  view.set('a', value)
  view['b'] = value
  return view.data
'''


def run(ctx: Ctx):
  for r in (r1, r2, r3, r4, r8, r9, r10, r13, r15, r16, r18, r19, r20, r21, r23, r24):
    ctx.guard(r)
  from mlmverif.props import c18, c19
  from mlmverif.props import c18 as _c18
  ctx.include('R-C08-25', '"the emitted stream equals evaluating the operators one record at a time ... not silently mis-routed": an output'
              ' routed to a nested path below a field that HOLDS None fails like below any other leaf — the setter does not'
              ' take a stored None for a missing key (R-C18-20)', _c18.r20, min_instances=1)
  ctx.include('R-C08-22', '"route data exactly as a reference interpreter": an output routed to an Index of a tuple record rebuilds that'
              ' tuple from a list of its items with the builtin `tuple` (R-C18-16) — rebuilding with the record\'s own type'
              ' fails for named-tuple records / fields at run time', _c18.r16, min_instances=1)
  ctx.include('R-C08-5', '"leaves the caller\'s input objects untouched": the'
              ' copy-on-write tree update the operators write through (R-C18-1'
              ' fresh-copy discipline, R-C18-2 routing)', _c18_shared, min_instances=8)
  ctx.include('R-C08-6', 'operators re-batch inputs/outputs with their own'
              ' batch size and column count (R-C19-4 wiring)', c19.r4, min_instances=4)
  ctx.include('R-C08-11', '"route data exactly as a reference interpreter": a record'
              ' field literally named like a reserved key (\'SELF\', \'SKIP\') is an'
              ' ordinary key — select(\'SELF\') reads that field and assign(\'SELF\')'
              ' adds it; only the reserved OBJECT addresses the whole record (R-C18-4'
              ' reserved-key test: the candidate must be of the reserved type)',
              c18.r4, min_instances=4)
  ctx.include('R-C08-12', '"apply replaces the record, assign adds exactly the named keys":'
              ' when an operator has to create the container for its outputs, a plain'
              ' integer output key is a dict key — only Key.Index addresses a list position'
              ' (R-C18-8)', c18.r8, min_instances=1)
  ctx.include('R-C08-14', '"assign adds exactly the named keys": an output routed to Key.SKIP is'
              ' discarded whatever its position — the reserved keys mean the same on an empty'
              ' record as on an existing one (R-C18-9)', c18.r9, min_instances=2)
  ctx.include('R-C08-17', '"invalid ... combinations are rejected, not silently mis-routed": when records are re-batched'
              ' (batch(), batch_size / fn_batch_size of an operator) every column of every incoming batch is measured and'
              ' columns of different length raise — otherwise the columns are concatenated and re-sliced independently and'
              ' row i of one column is paired with row j of another (R-C19-1)', c19.r1, min_instances=3)
  from mlmverif.props import c12
  ctx.include('R-C08-7', '"filter keeps order and drops exactly the rejected'
              ' records": with error skipping the decisions stay paired with'
              ' their own records (R-C12-1)', c12.r1, min_instances=4)

def r10(ctx: Ctx):
  rule = 'R-C08-10'
  ctx.rule(rule, '"filter ... drops exactly the rejected records": a record is kept iff'
           ' its predicate value is TRUTHY (the reference semantics of `filter()`): in'
           ' FilterFn.iterate the keep-condition is the predicate value itself (v,'
           ' bool(v), not not v) — not a comparison with a constant (`v == True`, `v is'
           ' True`, `v == 1`), which rejects truthy values such as len(...) == 2, a match'
           ' object or a non-empty list, and not a negation')
  fi = ctx.repo.func('chainables.tree_fns', 'FilterFn.iterate')
  gens = [x for x in ast.walk(fi.node) if isinstance(x, (ast.GeneratorExp, ast.ListComp))]
  loops = [x for x in walk_no_nested(fi.node) if isinstance(x, ast.For)]
  conds = []
  if gens:
    ge = gens[0]
    kept = {y.id for y in ast.walk(ge.elt) if isinstance(y, ast.Name)}
    tn = {y.id for g_ in ge.generators for y in ast.walk(g_.target) if isinstance(y, ast.Name)}
    conds = [c for g_ in ge.generators for c in g_.ifs]
  elif loops:
    lp = loops[0]
    tn = {y.id for y in ast.walk(lp.target) if isinstance(y, ast.Name)}
    ys = [y for y in ast.walk(lp) if isinstance(y, ast.Yield) and y.value is not None]
    kept = {z.id for y in ys for z in ast.walk(y.value) if isinstance(z, ast.Name)}
    pm = parent_map(lp)
    for y in ys:
      q = pm.get(y)
      while q is not None and q is not lp:
        if isinstance(q, ast.If):
          conds.append(q.test)
        q = pm.get(q)
  else:
    raise AnalysisError(f'{rule}: FilterFn.iterate has neither a comprehension nor a loop that yields the kept records')
  pred = tn - kept
  if not pred or not conds:
    ctx.fail(rule, fi, 'FilterFn.iterate: keep a record iff its predicate value is truthy',
             'FilterFn.iterate no longer filters the records by their predicate value', node=fi.node)
    ctx.floor(rule, 1)
    return

  def truthiness(c):
    neg = 0
    while isinstance(c, ast.UnaryOp) and isinstance(c.op, ast.Not):
      c, neg = c.operand, neg + 1
    if isinstance(c, ast.Call) and unparse(c.func) == 'bool' and len(c.args) == 1:
      c = c.args[0]
    return isinstance(c, ast.Name) and c.id in pred and neg % 2 == 0

  bad = [c for c in conds if any(isinstance(y, ast.Name) and y.id in pred for y in ast.walk(c))
         and not truthiness(c)]
  if bad:
    ctx.fail(rule, fi, 'FilterFn.iterate: keep a record iff its predicate value is truthy',
             f'the keep-condition `{unparse(bad[0])}` is not the truthiness of the predicate value:'
             ' predicates returning a truthy non-True value (a count, a match object, a non-empty'
             ' list) now reject records the reference evaluation keeps', node=bad[0])
  else:
    ctx.ok(rule, fi, f'records kept iff `{unparse(conds[0])}` (truthiness)', conds[0])
  ctx.floor(rule, 1)


def r13(ctx: Ctx):
  rule = 'R-C08-13'
  ctx.rule(rule, '"sinks see every record once" and "invalid key combinations are rejected when'
           ' the pipeline is built" — and VALID ones are not: an operator that forwards its input'
           ' records unchanged (its iterate() yields the input element of the (output, input)'
           ' pairs: filter, sink) adds no key to the build-time tracking of assigned keys. For'
           ' each such operator class either its TreeTransform builder hands the tracked keys'
           ' through (`output_keys=tuple(self.output_keys)`), or TreeTransform.output_keys skips'
           ' its instances. Otherwise the operator\'s own default output key (SELF) enters the'
           ' set: a later assign() is rejected ("Cannot mix SELF with other keys") and batch()'
           ' routes a column that does not exist')
  repo = ctx.repo
  tf = repo.module('chainables.tree_fns')
  passthrough = []
  for ci in tf.classes.values():
    it = ci.methods.get('iterate')
    if it is None or ci.name == 'TreeFn':
      continue
    pairs = any(isinstance(c, ast.Call) and unparse(c.func).split('.')[-1] == 'processed_with_inputs'
                for c in ast.walk(it.node))
    for ge in ast.walk(it.node):
      if isinstance(ge, ast.GeneratorExp) and isinstance(ge.elt, ast.Name) and len(ge.generators) == 1:
        tgt = ge.generators[0].target
        if isinstance(tgt, ast.Tuple) and len(tgt.elts) == 2 and isinstance(tgt.elts[1], ast.Name) and (
            tgt.elts[1].id == ge.elt.id) and pairs:
          passthrough.append(ci.name)
      # loop form: for (out, elem) in pairs: ... yield elem
      if isinstance(ge, ast.For) and isinstance(ge.target, ast.Tuple) and len(ge.target.elts) == 2 and isinstance(
          ge.target.elts[1], ast.Name) and pairs and any(
              isinstance(y, ast.Yield) and isinstance(y.value, ast.Name) and y.value.id == ge.target.elts[1].id
              for y in ast.walk(ge)):
        passthrough.append(ci.name)
  passthrough = sorted(set(passthrough))
  if len(passthrough) < 2:
    raise AnalysisError(f'{rule}: expected the pass-through operators filter and sink, found {passthrough}')
  tt = repo.cls('chainables.transform', 'TreeTransform')
  ok_prop = ctx.repo.func('chainables.transform', 'TreeTransform.output_keys')
  skipped = set()
  for x in ast.walk(ok_prop.node):
    if isinstance(x, ast.If) and any(isinstance(b, ast.Continue) for b in x.body):
      for c in ast.walk(x.test):
        if isinstance(c, ast.Call) and unparse(c.func) == 'isinstance' and len(c.args) == 2:
          for y in ast.walk(c.args[1]):
            if isinstance(y, ast.Attribute):
              skipped.add(y.attr)
            elif isinstance(y, ast.Name):
              skipped.add(y.id)
  n = 0
  for cls in passthrough:
    builders = [(m, c) for m in tt.methods.values() for c in ast.walk(m.node)
                if isinstance(c, ast.Call) and unparse(c.func).split('.')[-1] == cls]
    if not builders:
      continue
    for m, c in builders:
      n += 1
      ok_kw = kwarg(c, 'output_keys')
      through = ok_kw is not None and any(is_self_attr(y, 'output_keys') for y in ast.walk(ok_kw))
      if through or cls in skipped:
        ctx.ok(rule, m, f'{cls}: ' + ('tracked keys handed through by the builder' if through else 'skipped by the key tracking'), c)
      else:
        ctx.fail(rule, m, f'TreeTransform.{m.name}: the pass-through operator {cls} adds no key to the tracking',
                 f'`{unparse(c)[:60]}` builds a {cls} — an operator that forwards its records unchanged — with its'
                 f' default output key, and TreeTransform.output_keys adds that key (SELF) to the keys assigned so'
                 f' far: after .{m.name}(...) a valid assign() is rejected at build time and batch() routes a'
                 ' column that does not exist', node=c)
  # (b) operators that REPLACE the record (their iterate is TreeFn's own: outputs only —
  # apply and select) reset the tracking: only their own keys exist afterwards
  replacing = sorted(ci.name for ci in tf.classes.values() if 'iterate' not in ci.methods and any(
      unparse(b_).split('.')[-1] == 'TreeFn' for b_ in ci.node.bases) and 'Aggregate' not in ci.name)
  resets = set()
  for x in ast.walk(ok_prop.node):
    if isinstance(x, ast.If) and any(isinstance(b, ast.Assign) and isinstance(b.value, ast.Call) and unparse(
        b.value.func) == 'set' and not b.value.args for b in x.body):
      for c in ast.walk(x.test):
        if isinstance(c, ast.Compare) and isinstance(c.ops[0], (ast.Is, ast.Eq)):
          for y in ast.walk(c):
            if isinstance(y, ast.Attribute) and y.attr[:1].isupper():
              resets.add((y.attr, 'exact'))
        if isinstance(c, ast.Call) and unparse(c.func) == 'isinstance' and len(c.args) == 2:
          for y in ast.walk(c.args[1]):
            if isinstance(y, ast.Attribute) and y.attr[:1].isupper():
              resets.add((y.attr, 'isinstance'))
  if not resets:
    raise AnalysisError(f'{rule}: TreeTransform.output_keys no longer resets the tracking at a record-replacing operator')
  for cls in ['TreeFn'] + replacing:
    n += 1
    covered = (cls, 'exact') in resets or (cls, 'isinstance') in resets
    if covered:
      ctx.ok(rule, ok_prop, f'output_keys resets at {cls}', ok_prop.node)
    else:
      ctx.fail(rule, ok_prop, f'TreeTransform.output_keys resets the tracked keys at the record-replacing operator {cls}',
               f'{cls} replaces the record by its own outputs (it inherits TreeFn.iterate), but output_keys only resets'
               f' the tracked set for {sorted(r_[0] for r_ in resets)}: keys assigned before a {cls.lower()}() are still'
               ' believed to exist — batch() then routes a missing column (KeyError at run time) and a'
               ' re-assignment of such a key is rejected as duplicate', node=ok_prop.node)
  ctx.floor(rule, 4, n)


def r15(ctx: Ctx):
  rule = 'R-C08-15'
  ctx.rule(rule, '"select ... routes data exactly as a reference interpreter": the function an operator'
           ' without fn runs (select, fn-less apply/assign) is the identity on its argument TUPLE:'
           ' `_identity_fn(*x)` returns `x` itself on every path — no unwrapping of a single'
           ' element, no conversion. _normalize_outputs treats any tuple a function returns as'
           ' several outputs, so an unwrapped 1-tuple VALUE `(5,)` would be routed as `5`, `()` would'
           ' raise, and a tuple-typed column would be split')
  fi = ctx.repo.module('chainables.tree_fns').functions.get('_identity_fn')
  if fi is None:
    raise AnalysisError(f'{rule}: _identity_fn not found')
  va = fi.node.args.vararg.arg if fi.node.args.vararg else None
  rets = [x for x in walk_no_nested(fi.node) if isinstance(x, ast.Return)]
  if va is None or not rets:
    raise AnalysisError(f'{rule}: _identity_fn(*x) with a return expected')
  bad = [r_ for r_ in rets if not (isinstance(r_.value, ast.Name) and r_.value.id == va)]
  rebinds = [x for x in walk_no_nested(fi.node) if isinstance(x, (ast.Assign, ast.AugAssign)) and any(
      isinstance(t, ast.Name) and t.id == va for t in (x.targets if isinstance(x, ast.Assign) else [x.target]))]
  if bad or rebinds:
    b = (bad or rebinds)[0]
    ctx.fail(rule, fi, '_identity_fn returns its argument tuple unchanged',
             f'`{unparse(b)[:60]}`: the fn-less operators no longer hand their selected inputs on as the tuple'
             ' they were given — a single selected value that is itself a tuple is unwrapped and then'
             ' re-interpreted as several outputs', node=b)
  else:
    ctx.ok(rule, fi, f'_identity_fn(*{va}) returns {va}', rets[0])
  ctx.floor(rule, 1)


def r16(ctx: Ctx):
  rule = 'R-C08-16'
  ctx.rule(rule, '"all key shapes (... literal)": a Key.Literal input contributes its constant WITHOUT looking into the record —'
           ' in the getter of the tree view the `isinstance(k, Literal)` test comes before anything that depends on the kind'
           ' of the current node (the Mapping / array test, the subscript, the KeyError for non-containers): every such node'
           ' is dominated by the Literal test. Otherwise `apply(pow, (SELF, Literal(2)))` on a stream of ints, or any literal'
           ' on str / dataclass records, raises KeyError instead of passing the constant')
  repo = ctx.repo
  ci = repo.cls('chainables.tree', 'TreeMapView')
  cands = [m for m in ci.methods.values() if any(
      isinstance(c, ast.Call) and unparse(c.func) == 'isinstance' and len(c.args) == 2 and unparse(c.args[1]) == 'Literal'
      for c in ast.walk(m.node))]
  if not cands:
    raise AnalysisError(f'{rule}: no TreeMapView method tests for a Literal key')
  n = 0
  for fi in cands:
    g = cfgm.cfg_of(fi.node)
    lit = [nd for nd in g.nodes if nd.kind == 'cond' and any(
        isinstance(c, ast.Call) and unparse(c.func) == 'isinstance' and len(c.args) == 2 and unparse(c.args[1]) == 'Literal'
        for c in ast.walk(nd.ast))]
    if not lit:
      continue
    keyvar = next(unparse(c.args[0]) for nd in lit for c in ast.walk(nd.ast)
                  if isinstance(c, ast.Call) and unparse(c.func) == 'isinstance' and unparse(c.args[1]) == 'Literal')
    loops = [l for l in walk_no_nested(fi.node) if isinstance(l, ast.For) and unparse(l.target) == keyvar]
    if not loops:
      continue
    inloop = {id(y) for l in loops for y in ast.walk(l)}
    dep = []
    for nd in g.nodes:
      if nd.ast is None or id(nd.ast) not in inloop or nd in lit or nd.kind == 'for_iter':
        continue
      exprs = cfgm.node_exprs(nd)
      uses_node_kind = isinstance(nd.ast, ast.Raise) or any(
          (isinstance(y, ast.Subscript) and isinstance(y.slice, ast.Name) and y.slice.id == keyvar)
          or (isinstance(y, ast.Call) and unparse(y.func) in ('isinstance', 'types.is_array_like') and y.args
              and unparse(y.args[0]) != keyvar and unparse(y.args[-1]) != 'Literal'
              and not (unparse(y.func) == 'isinstance' and unparse(y.args[0]) == keyvar))
          for x in exprs for y in ast.walk(x))
      if uses_node_kind:
        dep.append(nd)
    for nd in dep:
      n += 1
      w = g.dominates(lambda a: a in lit, nd)
      what = f'{fi.qualname}: `{nd.text()[:50]}` only after the Literal test'
      if w is None:
        ctx.ok(rule, fi, what, nd.ast)
      else:
        ctx.fail(rule, fi, f'{fi.qualname}: the Literal test precedes every test of the node kind',
                 f'`{nd.text()[:70]}` (line {nd.lineno}) can run before `isinstance({keyvar}, Literal)` is tested: a literal'
                 ' key then depends on the record being a container — on int / str / object records it raises KeyError'
                 ' instead of contributing its constant', node=nd.ast)
  ctx.floor(rule, 2, n)


def r18(ctx: Ctx):
  rule = 'R-C08-18'
  ctx.rule(rule, '"all key shapes (single, ... index ...)": Key.Index(0) (an int subclass), the dict key 0 and the key \'\' are'
           ' FALSY valid keys. In the operator builders of TreeTransform a parameter that takes raw keys (annotated'
           ' TreeMapKey / TreeMapKeys) is never used in a truth position (`x or default`, `if x`, `not x`) before it is'
           ' normalised into a tuple: a missing key is detected with `is None` / `== ()`. `output_keys or input_keys` routes'
           ' select(\'a\', output_keys=Index(0)) under \'a\' instead of position 0 — silently mis-routed — and'
           ' `assign_keys or output_keys` rejects assign(0, ...) as having no keys')
  from mlmverif.props.c17 import _truth_positions
  ci = ctx.repo.cls('chainables.transform', 'TreeTransform')
  n = 0
  for name, fi in ci.methods.items():
    a = fi.node.args
    keyparams = {p.arg for p in a.args + a.kwonlyargs if p.annotation is not None and 'TreeMapKey' in unparse(p.annotation)}
    if not keyparams:
      continue
    n += 1
    # a parameter re-bound to a normalised tuple is fine from then on
    normalised_at = {}
    for x in walk_no_nested(fi.node):
      if isinstance(x, ast.Assign) and isinstance(x.value, ast.Call) and unparse(x.value.func).endswith(('normalize_keys', 'tuple')):
        for t in x.targets:
          if isinstance(t, ast.Name) and t.id in keyparams:
            normalised_at[t.id] = min(normalised_at.get(t.id, 10**9), x.lineno)
    bad = None
    for t in _truth_positions(fi.node):
      if isinstance(t, ast.Name) and t.id in keyparams and t.lineno <= normalised_at.get(t.id, 10**9):
        bad = bad or t
    what = f'TreeTransform.{name}: raw key parameters {sorted(keyparams)} are not tested by truth'
    if bad is None:
      ctx.ok(rule, fi, what, fi.node)
    else:
      ctx.fail(rule, fi, what,
               f'`{bad.id}` (line {bad.lineno}) is used in a truth position in TreeTransform.{name}: the valid keys Index(0), 0'
               ' and \'\' are falsy, so they are taken for "no key given" — the operator silently routes to its default key'
               ' or rejects the key', node=bad)
  ctx.floor(rule, 4, n)


def r19(ctx: Ctx):
  rule = 'R-C08-19'
  ctx.rule(rule, '"apply replaces the record ... exactly as a reference interpreter": the operator runs the function it was GIVEN.'
           ' The identity function (select semantics) is substituted only when NO function was given: wherever the operator'
           ' code installs `_identity_fn`, the guarding test compares the function with None (`fn is None`) — a truth test'
           ' also replaces a callable that happens to be falsy (a lookup table that subclasses dict and is still empty when'
           ' the pipeline is built, a callable with __len__): the pipeline then silently passes its inputs through')
  repo = ctx.repo
  mi = repo.module('chainables.tree_fns')
  fns = list(mi.functions.values()) + [m_ for c in mi.classes.values() for m_ in c.methods.values()]
  n = 0
  for fi in fns:
    pm = None
    for x in ast.walk(fi.node):
      installs = (isinstance(x, ast.Name) and x.id == '_identity_fn' and isinstance(x.ctx, ast.Load))
      if not installs:
        continue
      pm = pm or parent_map(fi.node)
      # only stores / setattr of the identity (not comparisons `self.fn is _identity_fn`)
      par = pm.get(x)
      if isinstance(par, ast.Compare):
        continue
      n += 1
      q, guard = x, None
      while q in pm:
        par = pm[q]
        if isinstance(par, ast.If) and any(y is q for b in par.body for y in ast.walk(b)):
          guard = par.test
          break
        q = par
      what = f'{fi.qualname}: the identity replaces a function only when none was given'
      is_none = guard is not None and isinstance(guard, ast.Compare) and len(guard.ops) == 1 and isinstance(
          guard.ops[0], ast.Is) and isinstance(guard.comparators[0], ast.Constant) and guard.comparators[0].value is None and (
              'fn' in unparse(guard.left))
      if is_none:
        ctx.ok(rule, fi, what, x)
      else:
        ctx.fail(rule, fi, what,
                 f'`_identity_fn` is installed in {fi.qualname} under `{unparse(guard)[:50] if guard is not None else "no guard"}`:'
                 ' not a comparison of the given function with None. A falsy callable (an empty dict-subclass lookup table, an'
                 ' object with __len__) is then silently replaced by the identity and the operator passes its inputs through',
                 node=x)
  ctx.floor(rule, 1, n)



def _c18_shared(sub):
  from mlmverif.props import c18
  sub.guard(c18.r1)
  sub.guard(c18.r2)


def _view_vars(fn: ast.AST) -> set[str]:
  out = set()
  for x in walk_no_nested(fn):
    if isinstance(x, ast.Assign) and isinstance(x.targets[0], ast.Name):
      v = unparse(x.value)
      if 'TreeMapView(' in v or 'TreeMapView.as_view(' in v or '.copy_and_set(' in v or (
          '.copy_and_update(' in v):
        out.add(x.targets[0].id)
  return out


def _inplace_sites(fn: ast.AST):
  views = _view_vars(fn)
  bad = []
  for x in walk_no_nested(fn):
    if isinstance(x, ast.Call) and isinstance(x.func, ast.Attribute) and x.func.attr == 'set':
      recv = x.func.value
      is_view = (isinstance(recv, ast.Name) and recv.id in views) or 'TreeMapView' in unparse(recv)
      ip = kwarg(x, 'in_place')
      if is_view and not (isinstance(ip, ast.Constant) and ip.value is False):
        bad.append((x, 'TreeMapView.set without in_place=False'))
    if isinstance(x, (ast.Assign, ast.AugAssign)):
      tg = x.targets if isinstance(x, ast.Assign) else [x.target]
      for t in tg:
        if isinstance(t, ast.Subscript) and isinstance(t.value, ast.Name) and t.value.id in views:
          bad.append((x, 'subscript store on a TreeMapView (in-place __setitem__)'))
  return bad


def r1(ctx: Ctx):
  rule = 'R-C08-1'
  ctx.rule(rule, 'copy-only API: operator code never uses the in-place tree'
           ' setters and never mutates an object owned by the records it is'
           ' given; results are built with copy_and_set/copy_and_update')
  repo = ctx.repo
  # positive control
  ctl = ast.parse(_CONTROL)
  fn = [s for s in ctl.body if isinstance(s, ast.FunctionDef)][0]
  if len(_inplace_sites(fn)) != 2:
    raise AnalysisError(f'{rule}: positive control not detected (checker defect)')
  n = 0
  for mod in (TF, TR):
    mi = repo.module(mod)
    for fi in list(mi.functions.values()) + [m for c in mi.classes.values() for m in c.methods.values()]:
      sites = _inplace_sites(fi.node)
      n += 1
      for node, why in sites:
        ctx.fail(rule, fi, node, f'{why}: the caller\'s input record is modified'
                 ' by a pipeline operator', node=node)
  ctx.ok(rule, None, f'{n} operator functions scanned: no in-place tree setter', where=f'{TF},{TR}',
         nontrivial=True)
  eff = Effects(repo)
  targets = [
      (TF, 'TreeFn._get_inputs', 'inputs'), (TF, 'TreeFn._get_outputs', 'inputs'),
      (TF, 'TreeFn._get_outputs', 'outputs'), (TF, 'TreeFn._apply_masks', 'items'),
      (TF, 'TreeFn._normalize_outputs', 'outputs'),
      (TF, 'TreeAggregateFn.update_state', 'inputs'),
      (TF, 'Slicer.iterate_and_slice', 'inputs'),
      (TT, 'apply_mask', 'items'), (TR, 'TransformRunner.update_state', 'inputs'),
      (TR, 'TransformRunner.get_result', 'state'),
  ]
  for mod, qn, param in targets:
    fi = repo.func(mod, qn)
    if param not in fi.params():
      raise AnalysisError(f'{rule}: {qn} has no parameter {param}')
    muts = eff.mutations(fi, {param: DIRECT})
    if muts:
      mu = muts[0]
      ctx.fail(rule, mu.fi, mu.node, f'{qn}: {mu.how} on `{mu.target}`, which is'
               f' owned by the `{param}` record: the caller\'s objects are'
               ' modified while routing data', node=mu.node)
    else:
      ctx.ok(rule, fi, f'{qn} leaves `{param}` untouched', fi.node)
  go = repo.func(TF, 'TreeFn._get_outputs')
  sets = [c for c in walk_no_nested(go.node) if isinstance(c, ast.Call) and isinstance(c.func, ast.Attribute)
          and c.func.attr in ('copy_and_set', 'copy_and_update')]
  if len(sets) >= 2:
    ctx.ok(rule, go, f'_get_outputs builds its result with {len(sets)} copy_and_set calls', go.node)
  else:
    ctx.fail(rule, go, '_get_outputs: result.copy_and_set(keys, output)',
             'outputs are not written through the copying API', node=go.node)
  ctx.floor(rule, 10)


def r2(ctx: Ctx):
  rule = 'R-C08-2'
  ctx.rule(rule, 'validation dominates construction: assign and'
           ' _maybe_new_agg_transform call _check_assign_keys before every'
           ' non-raising return that builds a transform; the check raises on'
           ' duplicate keys and on SELF mixed with other keys; chain rejects'
           ' duplicate names and duplicate aggregate output keys')
  repo = ctx.repo
  for qn, arg_must in (('TreeTransform.assign', None),
                       ('TreeTransform._maybe_new_agg_transform', 'self.agg_output_keys')):
    fi = repo.func(TR, qn)
    g = cfgm.cfg_of(fi.node)
    chk = lambda n: any(isinstance(x, ast.Call) and unparse(x.func) == 'self._check_assign_keys'
                        for x in cfgm.node_exprs(n))
    rets = [n for n in g.nodes if isinstance(n.ast, ast.Return) and n.ast.value is not None
            and unparse(n.ast.value) != 'self']
    bad = [r for r in rets if g.dominates(chk, r, cfgm.only_normal) is not None]
    cks = [x for n in g.nodes if chk(n) for x in cfgm.node_exprs(n)
           if isinstance(x, ast.Call) and unparse(x.func) == 'self._check_assign_keys']
    if not rets or bad or not cks:
      ctx.fail(rule, fi, f'{qn}: self._check_assign_keys(...) before building the transform',
               'a transform can be built without validating its output keys:'
               ' conflicting keys are silently mis-routed at run time',
               node=fi.node)
    else:
      c = cks[0]
      ok = 'output_keys' in unparse(c.args[0])
      if arg_must:
        ok = ok and len(c.args) > 1 and unparse(c.args[1]) == arg_must
      if ok:
        ctx.ok(rule, fi, f'{qn}: {unparse(c)} dominates construction', c)
      else:
        ctx.fail(rule, fi, c, f'{qn} validates `{unparse(c)}` — not the new'
                 ' function\'s output keys against the right existing keys')
  ck = repo.func(TR, 'TreeTransform._check_assign_keys')
  g = cfgm.cfg_of(ck.node)
  raises = [n for n in g.nodes if isinstance(n.ast, ast.Raise)]
  inter = [c for c in g.nodes if c.kind == 'cond' and 'intersection' in unparse(c.ast)]
  selfmix = [c for c in g.nodes if c.kind == 'cond' and 'SELF' in unparse(c.ast) and 'len(' in unparse(c.ast)]
  ok = (inter and selfmix and len({id(r.ast) for r in raises}) >= 2
        and all(any(isinstance(s.ast, ast.Raise) for s, lab in c.succ if lab == 'true') for c in inter + selfmix))
  dflt = any(isinstance(x, ast.Assign) and 'self.output_keys' in unparse(x.value) for x in walk_no_nested(ck.node))
  # ... for every call: no early return on the way to the two tests (a check that is
  # skipped when nothing was assigned before misses SELF mixed with keys of the SAME call)
  if ok:
    for c_ in inter + selfmix:
      w_ = g.must_pass(g.entry, [g.exit_ret], lambda nd, c_=c_: nd is c_, cfgm.only_normal)
      if w_ is not None:
        ok = False
        ctx.fail(rule, ck, '_check_assign_keys: both tests run on every call',
                 f'_check_assign_keys can return without evaluating `{c_.text()[:50]}` (path: '
                 + ' -> '.join(x_.split(':', 2)[-1][:30] for x_ in w_[-4:]) + '): an invalid key combination inside'
                 ' one assign()/aggregate() call — e.g. (\'a\', Key.SELF) as the first assignment — is accepted'
                 ' at build time and silently replaces the record at run time', node=c_.ast)
        break
  if ok and dflt:
    ctx.ok(rule, ck, '_check_assign_keys raises on duplicates and on SELF mixed with keys', ck.node)
  elif not ok and any(f_.rule == rule and '_check_assign_keys: both tests' in f_.construct for f_ in ctx.findings):
    pass
  else:
    ctx.fail(rule, ck, '_check_assign_keys: raise KeyError on duplicate keys / SELF mixed with keys',
             'invalid key combinations are no longer rejected at build time',
             node=ck.node)
  ch = repo.func(TR, 'TreeTransform.chain')
  from mlmverif import pat
  child = ch.params()[1]
  g_ = cfgm.cfg_of(ch.node)
  name_dup = [c for c in g_.nodes if c.kind == 'cond' and pat.match(f'{child}.name in $names', c.ast)]
  key_dup = [c for c in g_.nodes if c.kind == 'cond' and any(
      isinstance(x, ast.Call) and isinstance(x.func, ast.Attribute) and x.func.attr == 'intersection'
      and 'agg_output_keys' in unparse(x.func.value) for x in cfgm.node_exprs(c))]
  raising = lambda cs: cs and all(any(isinstance(s_.ast, ast.Raise) for s_, lab in c.succ if lab == 'true') for c in cs)
  n_raise = len({id(n.ast) for n in g_.nodes if isinstance(n.ast, ast.Raise)})
  if raising(name_dup) and raising(key_dup) and n_raise >= 3:
    ctx.ok(rule, ch, 'chain rejects duplicate names / aggregate keys / pre-wired children', ch.node)
  else:
    ctx.fail(rule, ch, 'chain: duplicate transform names and aggregate keys raise ValueError',
             'chaining accepts conflicting stages', node=ch.node)
  ag = repo.func(TR, 'TreeTransform._maybe_new_transform')
  if 'if self.agg_fns' in unparse(ag.node) and 'raise ValueError' in unparse(ag.node):
    ctx.ok(rule, ag, 'operators after an aggregate are rejected', ag.node)
  else:
    ctx.fail(rule, ag, '_maybe_new_transform: aggregation has to be the last node',
             'an operator can be appended after an aggregate', node=ag.node)
  ctx.floor(rule, 5)


def r3(ctx: Ctx):
  rule = 'R-C08-3'
  ctx.rule(rule, 'sink pairing: Sink.iterate closes the sink on every exit'
           ' (exhaustion, error, generator close) and writes each record'
           ' through the wrapped sink')
  repo = ctx.repo
  fi = repo.func(TF, 'Sink.iterate')
  g = cfgm.cfg_of(fi.node)
  close = lambda n: any(isinstance(x, ast.Call) and isinstance(x.func, ast.Attribute)
                        and x.func.attr == 'close' for x in cfgm.node_exprs(n))
  ys = [n for n in g.nodes if any(isinstance(x, (ast.Yield, ast.YieldFrom)) for x in cfgm.node_exprs(n))]
  if not ys:
    raise AnalysisError(f'{rule}: Sink.iterate no longer yields')
  bad = None
  for y in ys:
    w = g.must_pass(y, g.exits, close, None)
    if w is not None:
      bad = w
  w0 = g.must_pass(g.entry, g.exits, close, lambda a, b, lab: True)
  if bad or w0:
    ctx.fail(rule, fi, 'Sink.iterate: finally: self._actual_fn.close()',
             'a path leaves the sink iteration (error, early close of the'
             ' pipeline, or exhaustion) without closing the sink',
             node=fi.node, witness=(bad or w0)[-8:])
  else:
    ctx.ok(rule, fi, 'close() on every exit incl. generator close', fi.node)
  cs = repo.cls(TF, '_CallableSink')
  w = unparse(cs.methods['__call__'].node)
  c = unparse(cs.methods['close'].node)
  if 'self._sink.write(*data)' in w and 'self._sink.close()' in c:
    ctx.ok(rule, cs.methods['__call__'], '_CallableSink forwards write/close', cs.node)
  else:
    ctx.fail(rule, cs.methods['__call__'], '_CallableSink: write(*data) / close()',
             'the sink wrapper does not forward write/close', node=cs.node)
  ctx.floor(rule, 2)


def r4(ctx: Ctx):
  rule = 'R-C08-4'
  ctx.rule(rule, 'emptiness consistency: an operator constructed with a'
           ' possibly empty key tuple (tuple(<set-valued property>) without a'
           ' non-empty fallback) must not reach a method that reads'
           ' self.output_keys[0] / self.input_keys[0] without a truthiness guard')
  repo = ctx.repo
  base = repo.cls(TF, 'TreeFn')
  family = [base] + repo.subclasses(base)
  # unguarded [0] reads per (class, method)
  unguarded = {}
  for ci in family:
    for name, m in ci.methods.items():
      for x in walk_no_nested(m.node):
        if isinstance(x, ast.Subscript) and is_self_attr(x.value) and x.value.attr in (
            'output_keys', 'input_keys') and isinstance(x.slice, ast.Constant) and x.slice.value == 0:
          fld = x.value.attr
          if not _guarded(m.node, x, fld):
            unguarded.setdefault((ci.name, name), []).append((x, fld))
  tt = repo.cls(TR, 'TreeTransform')
  n = 0
  # builder methods that forward a key parameter straight to a constructor
  forward = {}
  for name, m in tt.methods.items():
    for c in walk_no_nested(m.node):
      if isinstance(c, ast.Call) and unparse(c.func).startswith('tree_fns.'):
        for k in c.keywords:
          if k.arg in ('output_keys', 'input_keys') and isinstance(k.value, ast.Name) and (
              k.value.id in m.params()) and _last_assign(m.node, k.value.id) is None:
            forward[(name, k.value.id)] = (unparse(c.func).split('.')[-1], k.arg)
  for name, m in tt.methods.items():
    for c in walk_no_nested(m.node):
      if not isinstance(c, ast.Call):
        continue
      if unparse(c.func).startswith('tree_fns.'):
        cls = unparse(c.func).split('.')[-1]
        kws = [(k.arg, k.value) for k in c.keywords]
      elif isinstance(c.func, ast.Attribute) and is_self_attr(c.func) and any(
          (c.func.attr, k.arg) in forward for k in c.keywords):
        kws = []
        cls = None
        for k in c.keywords:
          if (c.func.attr, k.arg) in forward:
            cls, fld = forward[(c.func.attr, k.arg)]
            kws.append((fld, k.value))
      else:
        continue
      for karg, kval in kws:
        k = type('K', (), {'arg': karg, 'value': kval})
        if k.arg not in ('output_keys', 'input_keys'):
          continue
        v = k.value
        if isinstance(v, ast.Name):
          v = _last_assign(m.node, v.id) or v
        maybe_empty = (isinstance(v, ast.Call) and unparse(v.func) == 'tuple' and v.args
                       and is_self_attr(v.args[0]) and v.args[0].attr in ('output_keys', 'agg_output_keys'))
        if not maybe_empty:
          continue
        n += 1
        ci = repo.cls(TF, cls)
        # methods of that class (through the MRO) with an unguarded [0] on this field
        hit = None
        for cc in repo.mro(ci):
          for (cn, mn), sites in unguarded.items():
            if cn == cc.name and any(f == k.arg for _, f in sites):
              if mn in ('__post_init__',) and cn != ci.name and '__post_init__' in ci.methods:
                pass
              hit = (cn, mn, [s for s, f in sites if f == k.arg][0])
        if hit:
          cn, mn, site = hit
          ctx.fail(rule, m, f'{name}: tree_fns.{cls}({k.arg}={unparse(k.value)}) -> {cn}.{mn} reads self.{k.arg}[0]',
                   f'TreeTransform.{name}() builds tree_fns.{cls} with'
                   f' {k.arg}={unparse(k.value)}, which is () for a transform'
                   f' without output keys; {cn}.{mn} then reads'
                   f' self.{k.arg}[0] unguarded -> IndexError (e.g.'
                   f' TreeTransform().{name}(...) as the first operator)',
                   node=c)
        else:
          ctx.ok(rule, m, f'{name}: possibly empty {k.arg} only reaches guarded reads', c)
  sanit = [x for m in tt.methods.values() for x in walk_no_nested(m.node)
           if isinstance(x, ast.BoolOp) and isinstance(x.op, ast.Or)
           and isinstance(x.values[0], ast.Call) and unparse(x.values[0].func) == 'tuple']
  for s in sanit:
    ctx.ok(rule, tt.methods['batch'], f'sanitised: {unparse(s)}', s)
    n += 1
  ctx.floor(rule, 2, n)


def _last_assign(fn, name):
  v = None
  for x in walk_no_nested(fn):
    if isinstance(x, ast.Assign) and isinstance(x.targets[0], ast.Name) and x.targets[0].id == name:
      v = x.value
  return v


def _guarded(fn, sub, fld) -> bool:
  """Is the `[0]` read dominated by a truthiness test of the same field?"""
  from mlmverif.core import parent_map
  pm = parent_map(fn)
  cur = sub
  while cur in pm:
    par = pm[cur]
    if isinstance(par, ast.BoolOp) and isinstance(par.op, ast.And):
      idx = [i for i, v in enumerate(par.values) if any(y is cur for y in ast.walk(v))]
      if idx:
        for v in par.values[:idx[0]]:
          if is_self_attr(v, fld) or (isinstance(v, ast.Call) and unparse(v.func) in ('len', 'bool')
                                      and v.args and is_self_attr(v.args[0], fld)):
            return True
    if isinstance(par, ast.If) and any(cur is b or any(y is cur for y in ast.walk(b)) for b in par.body):
      if any(is_self_attr(y, fld) for y in ast.walk(par.test)) and not any(
          y is sub for y in ast.walk(par.test)):
        return True
    if isinstance(par, ast.IfExp) and any(y is cur for y in ast.walk(par.body)):
      if any(is_self_attr(y, fld) for y in ast.walk(par.test)):
        return True
    cur = par
  return False


def _is_dict_test(t: ast.AST) -> str | None:
  """Name tested to be a dict by `isinstance(n, dict)` / `_is_dict(n)`."""
  if isinstance(t, ast.Call) and t.args and isinstance(t.args[0], ast.Name):
    fn = unparse(t.func)
    if fn == '_is_dict' and len(t.args) == 1:
      return t.args[0].id
    if fn == 'isinstance' and len(t.args) == 2 and unparse(t.args[1]) == 'dict':
      return t.args[0].id
  return None


def r8(ctx: Ctx):
  rule = 'R-C08-8'
  ctx.rule(rule, 'key-spec flattening agrees everywhere: a dict entry of an'
           ' output/assign key specification contributes its KEYS (the'
           ' assigned names) — every site of transform.py that tells dict'
           ' entries apart (build-time key sets, the assign-key validity'
           ' check, the runner\'s aggregate keys) iterates the dict itself and'
           ' none projects it through .values()/.items(); otherwise invalid'
           ' key combinations pass the build-time check and are mis-routed')
  mi = ctx.repo.module(TR)
  fns = list(mi.functions.values()) + [m for c in mi.classes.values() for m in c.methods.values()]
  n = 0
  for fi in fns:
    dict_vars: set[str] = set()      # a name bound to one dict entry
    dict_colls: set[str] = set()     # a name bound to an iterable of dict entries
    for x in ast.walk(fi.node):
      if isinstance(x, (ast.IfExp, ast.If)):
        v = _is_dict_test(x.test)
        if v:
          dict_vars.add(v)
      if isinstance(x, ast.comprehension):
        for c in x.ifs:
          v = _is_dict_test(c)
          if v:
            dict_vars.add(v)
      if isinstance(x, ast.Assign) and isinstance(x.value, ast.Call) and unparse(
          x.value.func).endswith('partition') and x.value.args and unparse(
              x.value.args[0]) == '_is_dict' and isinstance(x.targets[0], ast.Tuple) and len(
                  x.targets[0].elts) == 2 and isinstance(x.targets[0].elts[1], ast.Name):
        dict_colls.add(x.targets[0].elts[1].id)
    if not dict_vars and not dict_colls:
      continue
    # loop variables over a dict collection are dict entries
    for x in ast.walk(fi.node):
      if isinstance(x, (ast.For, ast.comprehension)) and isinstance(x.iter, ast.Name) and (
          x.iter.id in dict_colls) and isinstance(x.target, ast.Name):
        dict_vars.add(x.target.id)
    n += 1
    bad = None
    used = False
    for x in ast.walk(fi.node):
      if isinstance(x, ast.Call) and isinstance(x.func, ast.Attribute) and x.func.attr in (
          'values', 'items') and isinstance(x.func.value, ast.Name) and x.func.value.id in dict_vars:
        bad = x
      if isinstance(x, ast.Name) and isinstance(x.ctx, ast.Load) and (
          x.id in dict_vars or x.id in dict_colls):
        used = True
    if bad is not None:
      ctx.fail(rule, fi, f'{fi.qualname}: dict key entries contribute their keys',
               f'{fi.qualname} projects a dict key entry through `{unparse(bad)}`: its'
               ' key set lists the names inside the function output instead of'
               ' the assigned keys, so the build-time checks accept colliding'
               ' assignments and reject valid ones', node=bad)
    elif used:
      ctx.ok(rule, fi, f'{fi.qualname}: dict entries flattened by iteration (keys)', fi.node)
    else:
      raise AnalysisError(f'{rule}: cannot see how {fi.qualname} uses its dict entries')
  ctx.floor(rule, 4, n)


def r9(ctx: Ctx):
  rule = 'R-C08-9'
  ctx.rule(rule, '"invalid key combinations are rejected when the pipeline is'
           ' built": in the constructors that normalise key specifications'
           ' (TreeFn.__post_init__ and overrides), a local tested by a raising'
           ' guard is not (re)assigned on any path AFTER that guard — a check'
           ' placed before the normalisation that fills the variable tests a'
           ' stale value and lets the invalid combination through')
  n = 0
  mi = ctx.repo.module(TF)
  for ci in mi.classes.values():
    fi = ci.methods.get('__post_init__')
    if fi is None:
      continue
    g = cfgm.cfg_of(fi.node)
    for c in g.nodes:
      if c.kind != 'cond':
        continue
      raises = [s_ for s_, lab in c.succ if lab == 'true' and s_.kind == 'stmt' and isinstance(s_.ast, ast.Raise)]
      if not raises:
        continue
      tested = {y.id for y in ast.walk(c.ast) if isinstance(y, ast.Name)} - {'self'}
      locals_ = {t.id for x in walk_no_nested(fi.node) if isinstance(x, ast.Assign)
                 for tt in x.targets for t in ast.walk(tt) if isinstance(t, ast.Name)}
      tested &= locals_
      if not tested:
        continue
      n += 1
      after = g.reachable([s_ for s_, lab in c.succ if lab == 'false'], edge_ok=cfgm.only_normal, include_src=True)
      stale = None
      for nd in after:
        if nd.kind == 'stmt' and isinstance(nd.ast, ast.Assign):
          tg = {t.id for tt in nd.ast.targets for t in ast.walk(tt) if isinstance(t, ast.Name)}
          if tg & tested:
            stale = (nd, sorted(tg & tested))
      if stale:
        nd, vs = stale
        ctx.fail(rule, fi, f'{ci.name}.__post_init__: `{unparse(c.ast)[:50]}` validates the final value',
                 f'the guard `if {unparse(c.ast)[:60]}: raise` tests `{vs[0]}` before'
                 f' `{nd.text()[:60]}` assigns it: the invalid specification is only'
                 ' produced by that later normalisation, passes the build-time'
                 ' check and fails (or is silently skipped) at run time',
                 node=c.ast)
      else:
        ctx.ok(rule, fi, f'{ci.name}.__post_init__: `{unparse(c.ast)[:50]}` tests the final value', c.ast)
  ctx.floor(rule, 1, n)


def r20(ctx: Ctx):
  rule = 'R-C08-20'
  ctx.rule(rule, '"invalid key/argument combinations are rejected, not silently mis-routed": where OUTPUT keys are paired with the'
           ' values to store under them, the pairing is strict — every `zip(...)` of tree_fns.py / tree.py one of whose'
           ' operands is the output keys (`self.output_keys`, or `keys` next to `values`/`outputs`) carries strict=True. A'
           ' function that returns more or fewer values than there are output keys is then an error; a lenient zip routes'
           ' the first min(#keys, #values) and drops the rest without a word')
  n = 0
  for mod in (TF, TT):
    mi = ctx.repo.module(mod)
    fns = list(mi.functions.values()) + [m_ for c in mi.classes.values() for m_ in c.methods.values()]
    for fi in fns:
      for c in ast.walk(fi.node):
        if not (isinstance(c, ast.Call) and unparse(c.func) == 'zip' and len(c.args) >= 2
                and not any(isinstance(a, ast.Starred) for a in c.args)):
          continue
        texts = [unparse(a) for a in c.args]
        keyish = [t for t in texts if t.endswith('output_keys') or t in ('keys', 'key_paths', 'output_keys')]
        valish = [t for t in texts if t in ('values', 'outputs', 'output', 'results') or t.endswith('outputs')]
        if not keyish or not valish:
          continue
        n += 1
        strict = kwarg(c, 'strict')
        what = f'{fi.qualname}: `zip({", ".join(texts)})` pairs output keys and values strictly'
        if isinstance(strict, ast.Constant) and strict.value is True:
          ctx.ok(rule, fi, what, c)
        else:
          ctx.fail(rule, fi, what,
                   f'`{unparse(c)[:70]}` in {fi.qualname} is not strict: when the function returns a different number of values than'
                   f' there are output keys, the surplus values (or keys) are dropped silently instead of being rejected', node=c)
  ctx.floor(rule, 2, n)


def r21(ctx: Ctx):
  rule = 'R-C08-21'
  ctx.rule(rule, '"invalid key/argument combinations are rejected at build, not silently mis-routed": the batch-size configuration'
           ' of an operator is VALIDATED, never repaired. TreeFn.__post_init__ raises for `fn_batch_size` without `batch_size`'
           ' (a guard whose test reads both fields and whose body raises) and stores neither field itself'
           ' (`object.__setattr__(self, \'batch_size\', ...)`): an operator that re-batches its function calls but not its'
           ' outputs pairs output batches with input records holding other rows')
  fi = ctx.repo.func(TF, 'TreeFn.__post_init__')
  n = 2
  guards = [x for x in ast.walk(fi.node) if isinstance(x, ast.If) and any(isinstance(y, ast.Raise) for b in x.body for y in ast.walk(b))
            and {'fn_batch_size', 'batch_size'} <= {y.attr for y in ast.walk(x.test) if is_self_attr(y)}
            and any(isinstance(y, ast.UnaryOp) and isinstance(y.op, ast.Not) for y in ast.walk(x.test))]
  what = 'TreeFn.__post_init__: fn_batch_size without batch_size is rejected'
  if guards:
    ctx.ok(rule, fi, what, guards[0])
  else:
    ctx.fail(rule, fi, what,
             'no guard of __post_init__ raises for `fn_batch_size and not batch_size`: the combination is accepted at build and'
             ' the operator attaches re-batched outputs to input records of other rows (or fails mid-stream)', node=fi.node)
  stores = [c for c in ast.walk(fi.node) if isinstance(c, ast.Call) and unparse(c.func).endswith('__setattr__') and len(c.args) >= 2
            and isinstance(c.args[1], ast.Constant) and c.args[1].value in ('batch_size', 'fn_batch_size')]
  what = 'TreeFn.__post_init__: the configured batch sizes are not rewritten'
  if stores:
    ctx.fail(rule, fi, what,
             f'`{unparse(stores[0])[:70]}` repairs the configuration instead of rejecting it: the caller\'s invalid combination is'
             ' silently turned into another operator', node=stores[0])
  else:
    ctx.ok(rule, fi, what, fi.node)
  ctx.floor(rule, 2, n)


def r23(ctx: Ctx):
  rule = 'R-C08-23'
  ctx.rule(rule, '"route data exactly as a reference interpreter": whether a function returned SEVERAL values is decided with'
           ' isinstance(<outputs>, tuple) — a named tuple IS a tuple of outputs and is spread over the output keys. tree_fns.py'
           ' contains no exact-type test against tuple (`type(x) is tuple` / `is not tuple`): a function returning a named'
           ' tuple for two output keys would be wrapped as ONE output and fail the strict pairing at run time')
  mi = ctx.repo.module(TF)
  fns = list(mi.functions.values()) + [m_ for c in mi.classes.values() for m_ in c.methods.values()]
  n = 0
  for fi in fns:
    iso = [c for c in ast.walk(fi.node) if isinstance(c, ast.Call) and unparse(c.func) == 'isinstance' and len(c.args) == 2
           and any(isinstance(y, ast.Name) and y.id == 'tuple' for y in ast.walk(c.args[1]))]
    exact = [c for c in ast.walk(fi.node) if isinstance(c, ast.Compare) and isinstance(c.left, ast.Call) and unparse(c.left.func) == 'type'
             and any(isinstance(o, (ast.Is, ast.IsNot, ast.Eq, ast.NotEq)) for o in c.ops)
             and any(isinstance(x, ast.Name) and x.id == 'tuple' for x in c.comparators)]
    for c in iso:
      n += 1
      ctx.ok(rule, fi, f'{fi.qualname}: `{unparse(c)[:40]}` includes tuple subclasses', c)
    for c in exact:
      n += 1
      ctx.fail(rule, fi, f'{fi.qualname}: tuple-ness is tested with isinstance',
               f'`{unparse(c)}` is an exact-type test: a named tuple returned by the function is not recognised as several outputs', node=c)
  ctx.floor(rule, 2, n)


def r24(ctx: Ctx):
  rule = 'R-C08-24'
  ctx.rule(rule, '"invalid key/argument combinations are rejected at build, not silently mis-routed at run time" — and valid ones are'
           ' accepted: Key.SKIP ("write this output nowhere") is a placeholder, not a key. Every method of TreeTransform that'
           ' collects OUTPUT keys into a set (the build-time key tracking: `output_keys`, `_check_assign_keys`) takes SKIP'
           ' out of it — otherwise two assigns that each skip an output are refused as "duplicate", and batch() tries to'
           ' read a column named SKIP at run time. And `_check_assign_keys` rejects a key that occurs twice WITHIN one'
           ' assign (a guard comparing the number of keys with the number of distinct keys), as it rejects one that an'
           ' earlier operator already assigned')
  ci = ctx.repo.cls(TR, 'TreeTransform')
  n = 0
  for name in ('output_keys', '_check_assign_keys'):
    fi = ci.methods.get(name)
    if fi is None:
      raise AnalysisError(f'{rule}: TreeTransform.{name} not found')
    n += 1
    what = f'TreeTransform.{name}: Key.SKIP is not tracked as an output key'
    if any(isinstance(y, ast.Attribute) and y.attr == 'SKIP' for y in ast.walk(fi.node)):
      ctx.ok(rule, fi, what, fi.node)
    else:
      ctx.fail(rule, fi, what,
               f'TreeTransform.{name} collects the output keys without taking Key.SKIP out: the placeholder is treated as a real'
               ' key — valid pipelines are refused as duplicates and batch() reads a column that does not exist', node=fi.node)
  chk = ci.methods['_check_assign_keys']
  n += 1
  dup = [x for x in ast.walk(chk.node) if isinstance(x, ast.If) and any(isinstance(r_, ast.Raise) for b in x.body for r_ in ast.walk(b))
         and sum(1 for c in ast.walk(x.test) if isinstance(c, ast.Call) and unparse(c.func) == 'len') >= 2]
  what = 'TreeTransform._check_assign_keys: a key repeated within one assign is rejected'
  if dup:
    ctx.ok(rule, chk, what, dup[0])
  else:
    ctx.fail(rule, chk, what,
             '_check_assign_keys builds a SET of the new keys and never compares its size with the number of keys given:'
             ' `assign((\'x\', \'x\'), ...)` is accepted and silently keeps the last value', node=chk.node)
  ctx.floor(rule, 3, n)


from mlmverif.selfcheck import B, OK  # noqa: E402

_F = 'chainables/tree_fns.py'
_T = 'chainables/transform.py'
VARIANTS = [
    OK('pending-sizes-through-a-local', 'utils/iter_utils.py',
       "      batch_sizes += [_batch_size(column) for column in batch]", "      sizes_of_this_batch = [_batch_size(column) for column in batch]\n      batch_sizes += sizes_of_this_batch"),
    OK('copy-and-set-through-a-local', 'chainables/tree.py',
       "    return self.set(keys, values, in_place=False)", "    updated = self.set(keys, values, in_place=False)\n    return updated"),
    OK('outputs-view-through-a-local', 'chainables/tree_fns.py',
       "    result = tree.TreeMapView(inputs)\n", "    view = tree.TreeMapView(inputs)\n    result = view\n"),
    OK('setter-copy-as-statement', 'chainables/tree.py',
       "      result = tree if in_place else copy.copy(tree)", "      if in_place:\n        result = tree\n      else:\n        result = copy.copy(tree)"),
    B('none-parent-taken-for-a-missing-key', 'chainables/tree.py',
      "          result[key] = self._set_by_path(\n              result.get(key, NullMap()), Key(rest_keys), value, in_place\n          )",
      "          if (child := result.get(key)) is None:\n            child = NullMap()\n          result[key] = self._set_by_path(\n              child, Key(rest_keys), value, in_place\n          )", 'R-C08-25'),
    B('revert-skip-tracked-as-an-output-key', 'chainables/transform.py',
      "    # A skipped output is written nowhere, SKIP is a placeholder and no key.\n    result.discard(tree.Key.SKIP)\n", "", 'R-C08-24'),
    B('revert-repeated-key-within-one-assign-accepted', 'chainables/transform.py',
      "    if len(new_keys) != len(flat_keys):\n      raise KeyError(f'Duplicate output_keys within {assign_keys}.')\n", "", 'R-C08-24'),
    B('multiple-outputs-only-for-plain-tuples', 'chainables/tree_fns.py',
      "    if not isinstance(outputs, tuple):\n      outputs = (outputs,)", "    if type(outputs) is not tuple:\n      outputs = (outputs,)", 'R-C08-23'),
    B('tuple-record-rebuilt-with-its-own-type', 'chainables/tree.py',
      "        container_maker = tuple\n", "        container_maker = type(tree)\n", 'R-C08-22'),
    OK('batch-size-guard-de-morgan', 'chainables/tree_fns.py',
       "    if self.fn_batch_size and not self.batch_size:\n      raise ValueError(\n          'fn_batch_size should be used with batch_size, got'",
       "    if not (not self.fn_batch_size or self.batch_size):\n      raise ValueError(\n          'fn_batch_size should be used with batch_size, got'"),
    B('fn-batch-size-alone-is-repaired', 'chainables/tree_fns.py',
      "    if self.fn_batch_size and not self.batch_size:\n      raise ValueError(\n          'fn_batch_size should be used with batch_size, got'\n          f' {self.fn_batch_size=} and {self.batch_size=}.'\n      )\n",
      "    if self.fn_batch_size and not self.batch_size:\n      object.__setattr__(self, 'batch_size', self.fn_batch_size)\n", 'R-C08-21'),
    B('outputs-zipped-leniently-with-their-keys', 'chainables/tree_fns.py',
      "    for keys, output in zip(self.output_keys, outputs, strict=True):", "    for keys, output in zip(self.output_keys, outputs):", 'R-C08-20'),
    B('setter-zips-keys-and-values-leniently', 'chainables/tree.py',
      "          for key, value in zip(keys, values, strict=True):", "          for key, value in zip(keys, values):", 'R-C08-20'),
    OK('outputs-zipped-strictly-through-a-local', 'chainables/tree_fns.py',
       "    for keys, output in zip(self.output_keys, outputs, strict=True):", "    pairs = zip(self.output_keys, outputs, strict=True)\n    for keys, output in pairs:"),
    B('identity-substituted-for-a-falsy-callable', 'chainables/tree_fns.py',
      "    if self.fn is None:\n      if input_argkeys:", "    if not self.fn:\n      if input_argkeys:", 'R-C08-19'),
    B('revert-select-defaults-output-key-by-truth', 'chainables/transform.py',
      "    if output_keys is None or output_keys == ():  # pylint: disable=g-explicit-bool-comparison\n      output_keys = input_keys\n",
      "    output_keys = output_keys or input_keys\n", 'R-C08-18'),
    OK('select-defaults-only-none', 'chainables/transform.py',
       "    if output_keys is None or output_keys == ():  # pylint: disable=g-explicit-bool-comparison\n      output_keys = input_keys\n",
       "    if output_keys is None:\n      output_keys = input_keys\n"),
    B('literal-after-the-container-check', 'chainables/tree.py',
      "      if isinstance(k, Literal):\n        return k.value\n      if types.is_array_like(data) or isinstance(data, Mapping):\n        data = data[k]\n      else:\n        raise KeyError(",
      "      if not (types.is_array_like(data) or isinstance(data, Mapping)):\n        raise KeyError('not a container')\n      if isinstance(k, Literal):\n        return k.value\n      if True:\n        data = data[k]\n      else:\n        raise KeyError(",
      'R-C08-16'),
    OK('literal-test-first-then-self', 'chainables/tree.py',
       "      if _is_key(k, Key.SELF):\n        return self._maybe_map(data)\n      if isinstance(k, Literal):\n        return k.value\n",
       "      if isinstance(k, Literal):\n        return k.value\n      if _is_key(k, Key.SELF):\n        return self._maybe_map(data)\n"),
    B('identity-fn-unwraps-single-value', 'chainables/tree_fns.py',
      'def _identity_fn(*x):\n  return x', 'def _identity_fn(*x):\n  return x[0] if len(x) == 1 else x', 'R-C08-15'),
    B('assign-key-check-skipped-when-nothing-assigned', 'chainables/transform.py',
      '    if exisiting_keys is None:\n      exisiting_keys = self.output_keys\n    if conflicting_keys',
      '    if exisiting_keys is None:\n      exisiting_keys = self.output_keys\n    if not exisiting_keys:\n      return\n    if conflicting_keys',
      'R-C08-2'),
    B('revert-sink-adds-no-tracked-key', 'chainables/transform.py',
      '      if isinstance(fn, tree_fns.Sink):\n        # A sink forwards the records unchanged, it adds no key.\n        continue\n',
      '', 'R-C08-13'),
    B('revert-select-resets-tracked-keys', 'chainables/transform.py',
      '      if type(fn) is tree_fns.TreeFn or isinstance(fn, tree_fns.Select):  # pylint: disable=unidiomatic-typecheck',
      '      if type(fn) is tree_fns.TreeFn:  # pylint: disable=unidiomatic-typecheck', 'R-C08-13'),
    B('filter-builder-drops-tracked-keys', 'chainables/transform.py',
      '        fn=fn, input_keys=input_keys, output_keys=tuple(self.output_keys)\n',
      '        fn=fn, input_keys=input_keys\n', 'R-C08-13'),
    B('filter-keeps-only-literal-true', 'chainables/tree_fns.py',
      '    return (elem for (value,), elem in it_ if value)', '    return (elem for (value,), elem in it_ if value == True)', 'R-C08-10'),
    B('filter-inverted', 'chainables/tree_fns.py',
      '    return (elem for (value,), elem in it_ if value)', '    return (elem for (value,), elem in it_ if not value)', 'R-C08-10'),
    OK('filter-as-loop', 'chainables/tree_fns.py',
       '    return (elem for (value,), elem in it_ if value)', '    for (value,), elem in it_:\n      if bool(value):\n        yield elem'),
    B('select-kwargs-check-before-unpacking', _F,
      '    input_keys, output_keys = self.input_keys, self.output_keys\n',
      '    input_keys, output_keys = self.input_keys, self.output_keys\n    if self.fn is None:\n      if input_argkeys:\n        raise ValueError(f\'Select Op cannot have kwargs, got {input_keys=}\')\n',
      'R-C08-9'),
    B('output-keys-from-dict-values', _T,
      '        result = set()\n      result.update(itertools.chain(non_dict_keys, *dict_keys))\n    # A skipped output is written nowhere, SKIP is a placeholder and no key.\n    result.discard(tree.Key.SKIP)\n    return result\n\n  @property\n  def agg_output_keys',
      '        result = set()\n      for key in fn.output_keys:\n        result.update(key.values() if _is_dict(key) else (key,))\n    result.discard(tree.Key.SKIP)\n    return result\n\n  @property\n  def agg_output_keys',
      'R-C08-8'),
    OK('output-keys-explicit-loop', _T,
       '        result = set()\n      result.update(itertools.chain(non_dict_keys, *dict_keys))\n    # A skipped output is written nowhere, SKIP is a placeholder and no key.\n    result.discard(tree.Key.SKIP)\n    return result\n\n  @property\n  def agg_output_keys',
       '        result = set()\n      for key in fn.output_keys:\n        result.update(key if _is_dict(key) else (key,))\n    result.discard(tree.Key.SKIP)\n    return result\n\n  @property\n  def agg_output_keys'),
    B('check-assign-keys-from-items', _T,
      '        for key in itertools.chain(non_dict_keys, *dict_keys)\n        if key != tree.Key.SKIP\n',
      '        for key in itertools.chain(non_dict_keys, *(d.values() for d in dict_keys))\n        if key != tree.Key.SKIP\n', 'R-C08-8'),
    B('revert-normalize-guard', _F,
      '        bool(self.output_keys) and self.output_keys[0] == tree.Key.SELF\n',
      '        self.output_keys[0] == tree.Key.SELF\n', 'R-C08-4'),
    OK('guard-via-len', _F,
      '        bool(self.output_keys) and self.output_keys[0] == tree.Key.SELF\n',
      '        len(self.output_keys) and self.output_keys[0] == tree.Key.SELF\n'),
    B('outputs-set-in-place', _F, '        result = result.copy_and_set(keys, output)',
      '        result.set(keys, output)', 'R-C08-1'),
    B('mask-in-place', 'chainables/tree.py',
      '      if mask == True:  # pylint: disable=singleton-comparison\n        result[key] = value',
      '      if mask == True:  # pylint: disable=singleton-comparison\n        items[key] = value\n        result[key] = value',
      'R-C08-1'),
    B('assign-skips-validation', _T, '    self._check_assign_keys(fn.output_keys)\n    return self._maybe_new_transform(fn)',
      '    return self._maybe_new_transform(fn)', 'R-C08-2'),
    B('agg-validates-against-fn-keys', _T,
      '    self._check_assign_keys(fn.output_keys, self.agg_output_keys)',
      '    self._check_assign_keys(fn.output_keys, self.output_keys)', 'R-C08-2'),
    B('check-compares-with-itself', _T,
      '    if conflicting_keys := new_keys.intersection(exisiting_keys):',
      '    if conflicting_keys := new_keys.difference(new_keys):', 'R-C08-2'),
    B('sink-close-on-success-only', _F,
      '      yield from (elem for _, elem in it_)\n    finally:\n      self._actual_fn.close()',
      '      yield from (elem for _, elem in it_)\n    except KeyboardInterrupt:\n      raise\n    self._actual_fn.close()',
      'R-C08-3'),
]
