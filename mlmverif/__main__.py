"""CLI: python -m mlmverif <property-id> {quick|thorough} [--replay PATH]."""
from __future__ import annotations

import argparse
import hashlib
import importlib
import json
import os
import sys
import time
import traceback

from mlmverif import core
from mlmverif.core import AnalysisError, Ctx, Repo

ASSUMPTIONS_COMMON = [
    'Python stdlib ast parses the sources exactly as the interpreter does'
    ' (checker runs under /venv/bin/python 3.12, the repository interpreter).',
    'Callee resolution is the repository-specific resolver of'
    ' mlmverif/core.py (self.m, super().m, module functions, import aliases,'
    ' linearised bases); unresolved calls are treated conservatively.',
    'Dynamic features (getattr with computed names, user callables, courier,'
    ' queue.Queue, threading primitives) behave as documented.',
    'The check decides the named structural clauses, not the behavioural'
    ' statement of the property (see coverage.explanation).',
]


def _evidence_path(pid: str) -> str:
  return os.path.join(core.VERIF_ROOT, 'evidence', f'{pid}.json')


def _write_evidence(pid, tier, seed, ctx: Ctx | None, wall, violations,
                    known_lines, corpus, error: str | None, mod):
  os.makedirs(os.path.join(core.VERIF_ROOT, 'evidence'), exist_ok=True)
  insts = ctx.instances if ctx else []
  decided = [i for i in insts if i.verdict in ('holds', 'violated')]
  held = [i for i in decided if i.verdict == 'holds']
  distinct = {(i.rule, i.where, i.what) for i in decided if i.nontrivial}
  samples = []
  per_rule_seen: dict[str, int] = {}
  for i in insts:
    if per_rule_seen.get(i.rule, 0) >= 4 and i.verdict == 'holds':
      continue
    per_rule_seen[i.rule] = per_rule_seen.get(i.rule, 0) + 1
    samples.append({
        'rule': i.rule, 'where': i.where, 'construct': i.what,
        'verdict': i.verdict, 'detail': i.detail,
    })
  if not samples:
    samples = [{'note': 'no instance analysed', 'error': error}]
  rules = ctx.rules if ctx else {}
  expl = getattr(mod, 'EXPLANATION', '') if mod else ''
  cov = {
      'explanation': (
          (expl + ' ' if expl else '')
          + 'Rules applied: '
          + '; '.join(f'{k}: {v}' for k, v in sorted(rules.items()))
          + ('' if not error else f' ANALYSIS-ERROR: {error}')
      ).strip() or 'static analysis (see rules)',
      'obligations': len(decided),
      'discharged': len(held),
      'evaluations': max(len(decided), 0),
      'distinct_nontrivial': len(distinct),
      'rule': 'one evaluation = one rule instance (a call site, statement,'
              ' path obligation or table row found in /repo\'s current source);'
              ' distinct = distinct (rule, file:line, construct); non-trivial ='
              ' the rule examined at least one path, comparison or table row'
              ' for it',
      'samples': samples[:60],
      'exhaustive': True,
      'rules': rules,
      'instances_per_rule': {
          r: sum(1 for i in insts if i.rule == r) for r in sorted(rules)
      },
      'floors': {k: {'minimum': v[0], 'analysed': v[1]}
                 for k, v in (ctx.floors.items() if ctx else [])},
      'functions_analysed': sorted(ctx.functions_analysed) if ctx else [],
      'modules_parsed': len(ctx.repo.modules) if ctx else 0,
      'source_digest': ctx.repo.digest() if ctx else '',
      'unresolved_calls': sorted(set(ctx.unresolved))[:50] if ctx else [],
      'known_findings': known_lines,
      'new_findings': [f.to_json() for f in (ctx.findings if ctx else [])
                       if f.key not in {k.split(' ', 1)[0] for k in []}][:50],
      'notes': ctx.notes if ctx else [],
      'checker_cmd': f'./check {pid} {tier}',
      'trusted_base': ['python ast', 'mlmverif resolver/CFG/lock engines',
                       'frozen protocol and formula tables in the rule modules'],
  }
  if corpus is not None:
    cov['self_validation'] = corpus
  ev = {
      'property_id': pid,
      'tier': tier,
      'seed': seed,
      'level': 'other',
      'coverage': cov,
      'assumptions': ASSUMPTIONS_COMMON + list(getattr(mod, 'ASSUMPTIONS', [])
                                               if mod else []),
      'wall_s': round(wall, 3),
      'violations': violations,
  }
  with open(_evidence_path(pid), 'w', encoding='utf-8') as fh:
    json.dump(ev, fh, indent=1, sort_keys=False, default=str)


def run_property(pid: str, repo: Repo, tier: str = 'quick') -> Ctx:
  mod = importlib.import_module(f'mlmverif.props.{pid.lower()}')
  ctx = Ctx(pid, repo, tier)
  mod.run(ctx)
  return ctx


def main(argv=None) -> int:
  ap = argparse.ArgumentParser(prog='check')
  ap.add_argument('pid')
  ap.add_argument('tier', nargs='?', default='quick',
                  choices=['quick', 'thorough'])
  ap.add_argument('--replay', default=None)
  ap.add_argument('--root', default=None)
  ap.add_argument('--no-evidence', action='store_true')
  ap.add_argument('--json', action='store_true')
  args = ap.parse_args(argv)
  pid = args.pid.upper()
  tier = os.environ.get('VERIF_TIER') or args.tier
  if tier not in ('quick', 'thorough'):
    tier = args.tier
  try:
    seed = int(os.environ.get('VERIF_SEED', '0'))
  except ValueError:
    seed = 0
  t0 = time.time()
  ctx = None
  mod = None
  try:
    mod = importlib.import_module(f'mlmverif.props.{pid.lower()}')
    repo = Repo(args.root)
    ctx = Ctx(pid, repo, tier)
    mod.run(ctx)
    known = core.load_known()
    kn, new = core.triage(ctx.findings, known)
    if args.replay:
      with open(args.replay, encoding='utf-8') as fh:
        want = json.load(fh).get('key')
      new = [f for f in new if f.key == want]
      kn = [(f, k) for f, k in kn if f.key == want]
    corpus = None
    if tier == 'thorough' and not args.replay:
      from mlmverif import selfcheck
      corpus = selfcheck.run_corpus(pid, repo, seed)
    known_lines = []
    for f, k in kn:
      line = (f'KNOWN-FINDING: property={pid} {f.rule} {f.module}.'
              f'{f.qualname}: {k.get("what", f.message)} [{f.loc}]')
      known_lines.append(line)
      print(line)
    print(f'[{pid}] tier={tier} rules={len(ctx.rules)} '
          f'instances={len(ctx.instances)} '
          f'functions={len(ctx.functions_analysed)} '
          f'findings={len(ctx.findings)} (known={len(kn)}, new={len(new)})')
    for r in sorted(ctx.rules):
      n = sum(1 for i in ctx.instances if i.rule == r)
      nv = sum(1 for i in ctx.instances if i.rule == r and i.verdict == 'violated')
      fl = ctx.floors.get(r)
      print(f'  {r}: {n} instance(s), {nv} violated'
            + (f', floor {fl[0]}' if fl else ''))
    rc = 0
    for e in ctx.errors:
      print(f'  analysis-error: {e}')
    if ctx.errors and not new:
      print(f'ANALYSIS-ERROR property={pid} ' + ' | '.join(ctx.errors)[:600])
      rc = 2
    if new:
      os.makedirs(os.path.join(core.VERIF_ROOT, 'evidence', 'replay'),
                  exist_ok=True)
      for f in new:
        h = hashlib.sha1(f.key.encode()).hexdigest()[:10]
        rp = os.path.join(core.VERIF_ROOT, 'evidence', 'replay',
                          f'{pid}-{h}.json')
        with open(rp, 'w', encoding='utf-8') as fh:
          json.dump(f.to_json(), fh, indent=1, default=str)
        print(f'  {f.loc}: [{f.rule}] {f.module}.{f.qualname}: {f.message}')
        print(f'    construct: {f.construct}')
        if f.witness:
          w = f.witness if isinstance(f.witness, list) else [f.witness]
          for step in w[:25]:
            print(f'      | {step}')
        print(f'VIOLATION property={pid} replay={rp}')
      rc = 1
    if corpus is not None:
      print(f'  self-validation: {corpus["variants"]} variants, '
            f'{corpus["breaking_detected"]}/{corpus["breaking"]} breaking '
            f'detected, {corpus["benign_silent"]}/{corpus["benign"]} benign '
            f'silent, skipped {corpus["skipped"]}')
      if corpus['failures']:
        for x in corpus['failures'][:20]:
          print(f'  CORPUS-FAILURE: {x}')
        if rc == 0:
          print(f'ANALYSIS-ERROR property={pid} self-validation corpus failed'
                ' (checker defect, not a verdict about /repo)')
          rc = 2
    if not args.no_evidence:
      _write_evidence(pid, tier, seed, ctx, time.time() - t0, len(new),
                      known_lines, corpus,
                      ' | '.join(ctx.errors) if ctx.errors else None, mod)
    return rc
  except AnalysisError as e:
    print(f'ANALYSIS-ERROR property={pid} {e}')
    if not args.no_evidence:
      _write_evidence(pid, tier, seed, ctx, time.time() - t0, 0, [], None,
                      str(e), mod)
    return 2
  except Exception as e:  # pylint: disable=broad-exception-caught
    traceback.print_exc()
    print(f'ANALYSIS-ERROR property={pid} internal error: {type(e).__name__}: {e}')
    if not args.no_evidence:
      try:
        _write_evidence(pid, tier, seed, ctx, time.time() - t0, 0, [], None,
                        f'internal: {e}', mod)
      except Exception:  # pylint: disable=broad-exception-caught
        pass
    return 2


if __name__ == '__main__':
  rc = main()
  sys.stdout.flush()
  os._exit(rc)
