"""E5(d): piecewise-affine integer terms, loop acceleration, region enumeration.

Values are polynomials (``sym.Poly``) over variables plus three kinds of
special atoms:
  ('min', (k1, k2, ...))   minimum of affine terms (canonical keys)
  ('lt', a, b)             Iverson bracket [a < b] of affine terms
  ('br', t)                loop bracket [i < t] for the current loop variable
Loops ``for i in range(N): x = f(i); s += g(i)`` whose per-iteration values are
step functions of ``i`` are accelerated exactly:
  sum_{i<N} c * prod_j [i < t_j] = c * min(N, t_1, ..., t_m)   (t_j >= 0, N >= 0)
Identities are decided by enumerating the finitely many relative positions of
the two integer parameters that occur in min/bracket atoms (difference classes
d = b - a in {<= -C, -C+1, ..., C-1, >= C}); inside a class every atom is
affine, so equality is coefficient comparison.  Exhaustive and exact.
"""
from __future__ import annotations

import ast
from fractions import Fraction
from typing import Any

from mlmverif.core import AnalysisError, unparse
from mlmverif.sym import Poly

C = 6  # half-width of the explicit difference classes


class AffUnsupported(AnalysisError):
  pass


def V(name: str) -> Poly:
  return Poly.atom(('var', name))


def K(c) -> Poly:
  return Poly.const(c)


def pkey(p: Poly):
  return p.key()


_KEY2POLY: dict = {}


def reg(p: Poly):
  k = pkey(p)
  _KEY2POLY[k] = p
  return k


def MIN(*ps: Poly) -> Poly:
  ps = list(ps)
  flat = []
  for p in ps:
    # flatten nested single-atom mins
    if len(p.t) == 1:
      (m, c), = p.t.items()
      if c == 1 and len(m) == 1 and m[0][1] == 1 and m[0][0][0] == 'min':
        flat.extend(_KEY2POLY[k] for k in m[0][0][1])
        continue
    flat.append(p)
  keys = sorted({reg(p) for p in flat}, key=repr)
  if len(keys) == 1:
    return _KEY2POLY[keys[0]]
  return Poly.atom(('min', tuple(keys)))


def LT(a: Poly, b: Poly) -> Poly:
  d = b - a
  if d.is_const():
    return K(1 if d.const_value() > 0 else 0)
  return Poly.atom(('lt', reg(a), reg(b)))


def BR(t: Poly) -> Poly:
  return Poly.atom(('br', reg(t)))


def has_atom(p: Poly, kind: str) -> bool:
  return any(a[0] == kind for m in p.t for a, _ in m)


def vars_of(p: Poly) -> set[str]:
  out = set()
  for m in p.t:
    for a, _ in m:
      if a[0] == 'var':
        out.add(a[1])
      elif a[0] == 'min':
        for k in a[1]:
          out |= vars_of(_KEY2POLY[k])
      elif a[0] == 'lt':
        out |= vars_of(_KEY2POLY[a[1]]) | vars_of(_KEY2POLY[a[2]])
      elif a[0] == 'br':
        out |= vars_of(_KEY2POLY[a[1]])
  return out


def subst(p: Poly, mapping: dict[str, Poly]) -> Poly:
  """Substitutes variables (also inside min / lt atoms)."""
  out = Poly()
  for m, c in p.t.items():
    term = Poly.const(c)
    for a, e in m:
      if a[0] == 'var':
        base = mapping.get(a[1], Poly.atom(a))
      elif a[0] == 'min':
        base = MIN(*[subst(_KEY2POLY[k], mapping) for k in a[1]])
      elif a[0] == 'lt':
        base = LT(subst(_KEY2POLY[a[1]], mapping), subst(_KEY2POLY[a[2]], mapping))
      elif a[0] == 'br':
        base = BR(subst(_KEY2POLY[a[1]], mapping))
      else:
        base = Poly.atom(a)
      for _ in range(e):
        term = term * base
    out = out + term
  return out


def sum_over_loop(p: Poly, n: Poly) -> Poly:
  """sum_{i=0}^{n-1} p(i) where p depends on i only through 'br' atoms."""
  out = Poly()
  for m, c in p.t.items():
    brs = [a for a, e in m if a[0] == 'br']
    rest = tuple((a, e) for a, e in m if a[0] != 'br')
    coef = Poly({rest: c})
    if brs:
      bound = MIN(n, *[_KEY2POLY[a[1]] for a in brs])
    else:
      bound = n
    out = out + coef * bound
  return out


def at_iteration(p: Poly, i_val: Poly) -> Poly:
  """p with every loop bracket [i < t] replaced by [i_val < t]."""
  out = Poly()
  for m, c in p.t.items():
    term = Poly.const(c)
    for a, e in m:
      base = LT(i_val, _KEY2POLY[a[1]]) if a[0] == 'br' else Poly.atom(a)
      # brackets are idempotent
      term = term * base
      for _ in range(e - 1 if a[0] != 'br' else 0):
        term = term * base
    out = out + term
  return out


# ---------------------------------------------------------------------------
# Region enumeration over two integer parameters a, b (difference d = b - a)


def regions():
  yield ('le', -C)
  for d in range(-C + 1, C):
    yield ('eq', d)
  yield ('ge', C)


def _affine_in(p: Poly, a: str, b: str):
  """p = ca*a + cb*b + rest(no a,b) ; returns (ca, cb, rest) or None."""
  ca = cb = Fraction(0)
  rest = Poly()
  for m, c in p.t.items():
    names = [x[1] for x, e in m if x[0] == 'var']
    if m == ((('var', a), 1),):
      ca += c
    elif m == ((('var', b), 1),):
      cb += c
    elif a in names or b in names:
      return None
    else:
      rest = rest + Poly({m: c})
  return ca, cb, rest


# Facts about single variables (set by equal_everywhere_nonneg while it works
# through its cases): name -> lower bound (the variable is an integer >= bound).
_LOWER: dict[str, int] = {}


def _sign_by_bounds(d: Poly) -> str | None:
  """'+', '-', '0+' (>= 0), '0-' (<= 0) for d = c*v + k0 with v >= _LOWER[v]; else None."""
  if d.is_const():
    v = d.const_value()
    return '+' if v > 0 else '-' if v < 0 else '0+'
  vs = vars_of(d)
  if len(vs) != 1 or has_atom(d, 'min') or has_atom(d, 'lt') or has_atom(d, 'br'):
    return None
  v = next(iter(vs))
  if v not in _LOWER:
    return None
  c = k0 = Fraction(0)
  for m, co in d.t.items():
    if m == ((('var', v), 1),):
      c += co
    elif m == ():
      k0 += co
    else:
      return None
  lo = c * _LOWER[v] + k0          # value at the lower bound
  if c > 0:
    return '+' if lo > 0 else '0+' if lo == 0 else None
  if c < 0:
    return '-' if lo < 0 else '0-' if lo == 0 else None
  return None


def _cmp_in_region(x: Poly, y: Poly, a: str, b: str, region, weak: bool = False) -> int | None:
  """sign of (x - y) in the region, or None if not decided.

  With `weak`, a difference known to be >= 0 (<= 0) counts as 1 (-1): enough
  to pick a minimum, not enough for a strict comparison.
  """
  r0 = _cmp_in_region0(x, y, a, b, region)
  if r0 is not None or not _LOWER:
    return r0
  d = x - y
  if region[0] == 'eq' and b in vars_of(d):
    d = subst(d, {b: V(a) + K(region[1])})
  sg = _sign_by_bounds(d)
  if sg == '+':
    return 1
  if sg == '-':
    return -1
  if weak and sg == '0+':
    return 1
  if weak and sg == '0-':
    return -1
  return None


def _cmp_in_region0(x: Poly, y: Poly, a: str, b: str, region) -> int | None:
  d = x - y
  if has_atom(d, 'min') or has_atom(d, 'lt') or has_atom(d, 'br'):
    return None
  kind, dv = region
  if kind == 'eq':
    d = subst(d, {b: V(a) + K(dv)})
    if d.is_const():
      v = d.const_value()
      return (v > 0) - (v < 0)
    return None
  r = _affine_in(d, a, b)
  if r is None:
    return None
  ca, cb, rest = r
  if not rest.is_const():
    return None
  k0 = rest.const_value()
  # d = ca*a + cb*b + k0 with b = a + t, t >= C (ge) or t <= -C (le)
  if ca + cb != 0:
    return None
  # d = cb*t + k0
  if cb == 0:
    return (k0 > 0) - (k0 < 0)
  if abs(k0) >= abs(cb) * C:
    return None
  t_sign = 1 if kind == 'ge' else -1
  s = t_sign * (1 if cb > 0 else -1)
  return s


def eval_region(p: Poly, a: str, b: str, region) -> Poly:
  """Replaces every min/lt atom by its affine value inside the region."""
  for _ in range(6):
    if not (has_atom(p, 'min') or has_atom(p, 'lt')):
      break
    out = Poly()
    for m, c in p.t.items():
      term = Poly.const(c)
      for at, e in m:
        if at[0] == 'min':
          args = [eval_region(_KEY2POLY[k], a, b, region) for k in at[1]]
          best = args[0]
          for x in args[1:]:
            s = _cmp_in_region(x, best, a, b, region, weak=True)
            if s is None:
              raise AffUnsupported(
                  f'cannot order {x!r} and {best!r} in region {region}')
            if s < 0:
              best = x
          base = best
        elif at[0] == 'lt':
          x = eval_region(_KEY2POLY[at[1]], a, b, region)
          y = eval_region(_KEY2POLY[at[2]], a, b, region)
          s = _cmp_in_region(x, y, a, b, region)
          if s is None and _LOWER:
            # x - y >= 0 is enough to know that [x < y] is 0
            dd = x - y
            if region[0] == 'eq' and b in vars_of(dd):
              dd = subst(dd, {b: V(a) + K(region[1])})
            if _sign_by_bounds(dd) == '0+':
              s = 1
          if s is None:
            raise AffUnsupported(
                f'cannot decide [{x!r} < {y!r}] in region {region}')
          base = K(1 if s < 0 else 0)
        else:
          base = Poly.atom(at)
        n = 1 if at[0] == 'lt' else e
        for _ in range(n):
          term = term * base
      out = out + term
    p = out
  kind, dv = region
  if kind == 'eq':
    p = subst(p, {b: V(a) + K(dv)})
  return p


def equal_everywhere(x: Poly, y: Poly, a: str, b: str, allowed=None,
                     post: dict | None = None):
  """None if x == y in every region (optionally filtered), else the region.

  `post` is a substitution applied after the region evaluation (used to
  instantiate a parameter once the region fixes the shape of the terms).
  """
  for reg_ in regions():
    if allowed is not None and not allowed(reg_):
      continue
    ex = eval_region(x, a, b, reg_)
    ey = eval_region(y, a, b, reg_)
    if post:
      ex, ey = subst(ex, post), subst(ey, post)
      if reg_[0] == 'eq':
        # b was eliminated as a + d; re-express through the instantiated a
        pass
    if not (ex - ey).is_zero():
      return reg_, ex, ey
  return None


def equal_everywhere_nonneg(x: Poly, y: Poly, a: str, b: str):
  """equal_everywhere for non-negative integers a, b, additionally split on b == 0 / b >= 1.

  Needed when a term tests b against a constant (truthiness of a remainder):
  the (a, b) regions only order a and b relative to each other.  Returns None
  or (case, region, ex, ey).
  """
  global _LOWER
  # terms that only order a and b relative to each other are decided by the
  # plain enumeration; the split is for terms that test b (or a) against a constant
  try:
    bad = equal_everywhere(x, y, a, b)
    return None if bad is None else ('any remainder',) + tuple(bad)
  except AffUnsupported:
    pass
  saved = dict(_LOWER)
  try:
    # case b == 0 (a >= 0)
    _LOWER = {a: 0}
    x0, y0 = subst(x, {b: K(0)}), subst(y, {b: K(0)})
    bad = equal_everywhere(x0, y0, a, b, allowed=lambda rg: rg == ('eq', 0))
    if bad is not None:
      return (f'{b} == 0',) + tuple(bad)
    # case b >= 1 (a >= 0)
    _LOWER = {a: 0, b: 1}
    bad = equal_everywhere(x, y, a, b)
    if bad is not None:
      return (f'{b} >= 1',) + tuple(bad)
    return None
  finally:
    _LOWER = saved


# ---------------------------------------------------------------------------
# A small evaluator for integer expressions / accelerated loops


class AffEval:

  def __init__(self, names: dict[str, Poly], loop_var: str | None = None):
    self.env = dict(names)
    self.loop_var = loop_var
    self.used_truthiness = False

  def expr(self, e: ast.AST) -> Poly:
    if isinstance(e, ast.Constant) and isinstance(e.value, int) and not isinstance(
        e.value, bool):
      return K(e.value)
    if isinstance(e, ast.Name):
      if e.id == self.loop_var:
        raise AffUnsupported('loop variable used outside a comparison')
      if e.id in self.env:
        return self.env[e.id]
      raise AffUnsupported(f'unknown name {e.id}')
    if isinstance(e, ast.Attribute):
      txt = unparse(e)
      if txt in self.env:
        return self.env[txt]
      raise AffUnsupported(f'unknown attribute {txt}')
    if isinstance(e, ast.BinOp):
      l, r = self.expr(e.left), self.expr(e.right)
      if isinstance(e.op, ast.Add):
        return l + r
      if isinstance(e.op, ast.Sub):
        return l - r
      if isinstance(e.op, ast.Mult):
        return l * r
      raise AffUnsupported(f'operator {type(e.op).__name__}')
    if isinstance(e, ast.UnaryOp) and isinstance(e.op, ast.USub):
      return -self.expr(e.operand)
    if isinstance(e, ast.IfExp):
      g = self.guard(e.test)
      return g * self.expr(e.body) + (K(1) - g) * self.expr(e.orelse)
    if isinstance(e, ast.Call):
      fn = unparse(e.func)
      if fn in ('min', 'np.minimum') and not e.keywords:
        return MIN(*[self.expr(a) for a in e.args])
      if fn == 'int' and len(e.args) == 1:
        return self.expr(e.args[0])
      if fn == 'len':
        txt = unparse(e)
        if txt in self.env:
          return self.env[txt]
    raise AffUnsupported(f'expression {unparse(e)[:60]}')

  def guard(self, t: ast.AST) -> Poly:
    """Iverson bracket of a comparison."""
    if isinstance(t, ast.Compare) and len(t.ops) == 1:
      op = t.ops[0]
      l, r = t.left, t.comparators[0]
      lv = isinstance(l, ast.Name) and l.id == self.loop_var
      rv = isinstance(r, ast.Name) and r.id == self.loop_var
      if lv and not rv:
        b = self.expr(r)
        if isinstance(op, ast.Lt):
          return BR(b)
        if isinstance(op, ast.LtE):
          return BR(b + K(1))
        if isinstance(op, ast.GtE):
          return K(1) - BR(b)
        if isinstance(op, ast.Gt):
          return K(1) - BR(b + K(1))
      elif rv and not lv:
        a = self.expr(l)
        if isinstance(op, ast.Gt):
          return BR(a)
        if isinstance(op, ast.GtE):
          return BR(a + K(1))
        if isinstance(op, ast.LtE):
          return K(1) - BR(a)
        if isinstance(op, ast.Lt):
          return K(1) - BR(a + K(1))
      elif not lv and not rv:
        a, b = self.expr(l), self.expr(r)
        if isinstance(op, ast.Lt):
          return LT(a, b)
        if isinstance(op, ast.LtE):
          return LT(a, b + K(1))
        if isinstance(op, ast.Gt):
          return LT(b, a)
        if isinstance(op, ast.GtE):
          return LT(b, a + K(1))
    # truthiness of a NON-NEGATIVE integer expression (a remainder, a length):
    # `x` is [0 < x]; `not x` its complement; x != 0 / x > 0 / x == 0 likewise
    neg = False
    while isinstance(t, ast.UnaryOp) and isinstance(t.op, ast.Not):
      t, neg = t.operand, not neg
    if isinstance(t, (ast.Name, ast.Attribute, ast.BinOp)):
      self.used_truthiness = True
      g = LT(K(0), self.expr(t))
      return K(1) - g if neg else g
    raise AffUnsupported(f'guard {unparse(t)}')

  def assign(self, tgt: ast.AST, val: ast.AST):
    if isinstance(tgt, ast.Tuple) and isinstance(val, ast.Tuple) and len(
        tgt.elts) == len(val.elts):
      vals = [self.expr(v) for v in val.elts]
      for t, v in zip(tgt.elts, vals):
        if not isinstance(t, ast.Name):
          raise AffUnsupported(f'target {unparse(t)}')
        self.env[t.id] = v
      return
    if isinstance(tgt, ast.Name):
      self.env[tgt.id] = self.expr(val)
      return
    raise AffUnsupported(f'target {unparse(tgt)}')

  def run_loop(self, loop: ast.For):
    """Accelerates `for i in range(N)` (N >= 1 assumed by the caller)."""
    if not (isinstance(loop.iter, ast.Call) and unparse(loop.iter.func) == 'range'
            and len(loop.iter.args) == 1 and isinstance(loop.target, ast.Name)
            and not loop.orelse):
      raise AffUnsupported(f'loop shape {unparse(loop.iter)}')
    n = self.expr(loop.iter.args[0])
    inner = AffEval(self.env, loop.target.id)
    # names (re)assigned in the body are not visible before their assignment
    # in the same iteration (a read would see the previous iteration's value)
    for s in ast.walk(ast.Module(body=loop.body, type_ignores=[])):
      if isinstance(s, (ast.Assign, ast.AugAssign, ast.AnnAssign)):
        tg = s.targets if isinstance(s, ast.Assign) else [s.target]
        for t in tg:
          for x in ast.walk(t):
            if isinstance(x, ast.Name):
              inner.env.pop(x.id, None)
    per_iter: dict[str, Poly] = {}   # value computed in iteration i
    accum: dict[str, Poly] = {}      # increment added in iteration i
    for s in loop.body:
      if isinstance(s, ast.Expr) and isinstance(s.value, ast.Constant):
        continue
      if isinstance(s, ast.Assign) and len(s.targets) == 1 and isinstance(
          s.targets[0], ast.Name):
        name = s.targets[0].id
        v = s.value
        # x = x + g(i)
        if isinstance(v, ast.BinOp) and isinstance(v.op, ast.Add) and isinstance(
            v.left, ast.Name) and v.left.id == name and name not in per_iter:
          inc = inner.expr(v.right)
          accum[name] = accum.get(name, Poly()) + inc
          continue
        if name in accum:
          raise AffUnsupported(f'{name} is both accumulated and assigned')
        val = inner.expr(v)
        per_iter[name] = val
        inner.env[name] = val
        continue
      if isinstance(s, ast.AugAssign) and isinstance(s.target, ast.Name) and isinstance(
          s.op, (ast.Add, ast.Sub)):
        name = s.target.id
        if name in per_iter:
          raise AffUnsupported(f'{name} is both assigned and accumulated')
        inc = inner.expr(s.value)
        if isinstance(s.op, ast.Sub):
          inc = -inc
        accum[name] = accum.get(name, Poly()) + inc
        continue
      if isinstance(s, ast.If) and not s.orelse and len(s.body) == 1 and isinstance(
          s.body[0], ast.AugAssign) and isinstance(s.body[0].target, ast.Name):
        g = inner.guard(s.test)
        a = s.body[0]
        inc = g * inner.expr(a.value)
        if isinstance(a.op, ast.Sub):
          inc = -inc
        accum[a.target.id] = accum.get(a.target.id, Poly()) + inc
        continue
      raise AffUnsupported(f'loop statement {unparse(s)[:60]}')
    # an accumulated variable must not feed a per-iteration value
    for name in accum:
      for v in list(per_iter.values()) + list(accum.values()):
        if name in vars_of(v) and self.env.get(name) is not None and (
            ('var', name) in [a for m in v.t for a, _ in m]):
          pass
    last = n - K(1)
    for name, val in per_iter.items():
      self.env[name] = at_iteration(val, last)
    for name, inc in accum.items():
      if name not in self.env:
        raise AffUnsupported(f'{name} accumulated before initialisation')
      self.env[name] = self.env[name] + sum_over_loop(inc, n)
