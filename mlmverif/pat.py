"""Structural AST patterns with metavariables (rename-robust matching).

Pattern syntax is Python with:
  $x     a metavariable that matches any *Name* (bound consistently)
  $$x    a metavariable that matches any expression (bound consistently,
         compared by ast.dump)
  ___    inside an argument / element / statement list: matches any remaining
         items (only as the last element)
Keyword arguments of the pattern must be present in the node (extra keyword
arguments of the node are allowed).  Expression contexts are ignored.

Used by the rules instead of comparing `ast.unparse` text, so that renaming a
local variable in the library does not change a verdict.
"""
from __future__ import annotations

import ast
import re
from typing import Iterator

from mlmverif.core import walk_no_nested

_MV = '__MV_'
_MX = '__MX_'
_REST = '___'

_cache: dict[str, ast.AST] = {}


def compile_pattern(p: str) -> ast.AST:
  if p in _cache:
    return _cache[p]
  src = re.sub(r'\$\$(\w+)', _MX + r'\1', p)
  src = re.sub(r'\$(\w+)', _MV + r'\1', src)
  mod = ast.parse(src.strip())
  if len(mod.body) != 1:
    raise ValueError(f'pattern must be one statement or expression: {p}')
  from mlmverif.canon import canonical
  mod = canonical(mod)
  node = mod.body[0]
  if isinstance(node, ast.Expr):
    node = node.value
  _cache[p] = node
  return node


def _is_rest(n) -> bool:
  return isinstance(n, ast.Name) and n.id == _REST or (
      isinstance(n, ast.Expr) and isinstance(n.value, ast.Name) and n.value.id == _REST) or (
          isinstance(n, ast.Starred) and isinstance(n.value, ast.Name) and n.value.id == _REST and False)


def _match_list(pl: list, nl: list, b: dict) -> bool:
  if pl and _is_rest(pl[-1]):
    head = pl[:-1]
    if len(nl) < len(head):
      return False
    return all(_match(p, n, b) for p, n in zip(head, nl))
  if len(pl) != len(nl):
    return False
  return all(_match(p, n, b) for p, n in zip(pl, nl))


def _match(p, n, b: dict) -> bool:
  if isinstance(p, ast.Name):
    if p.id.startswith(_MV):
      if not isinstance(n, ast.Name):
        return False
      k = p.id[len(_MV):]
      if k in b:
        return b[k] == n.id
      b[k] = n.id
      return True
    if p.id.startswith(_MX):
      k = '$' + p.id[len(_MX):]
      d = ast.dump(n) if isinstance(n, ast.AST) else repr(n)
      if k in b:
        return b[k][0] == d
      b[k] = (d, n)
      return True
    return isinstance(n, ast.Name) and n.id == p.id
  if isinstance(p, ast.AST):
    if type(p) is not type(n):
      return False
    if isinstance(p, ast.Call):
      if not _match(p.func, n.func, b):
        return False
      if not _match_list(p.args, n.args, b):
        return False
      nk = {k.arg: k.value for k in n.keywords}
      for k in p.keywords:
        if k.arg is None:
          if not any(kk.arg is None and _match(k.value, kk.value, b) for kk in n.keywords):
            return False
        elif k.arg not in nk or not _match(k.value, nk[k.arg], b):
          return False
      return True
    for f, pv in ast.iter_fields(p):
      if f in ('ctx', 'lineno', 'col_offset', 'end_lineno', 'end_col_offset',
               'type_comment', 'kind'):
        continue
      nv = getattr(n, f, None)
      if isinstance(pv, list):
        if not isinstance(nv, list) or not _match_list(pv, nv, b):
          return False
      elif isinstance(pv, ast.AST):
        if not isinstance(nv, ast.AST) or not _match(pv, nv, b):
          return False
      else:
        if isinstance(pv, str) and pv.startswith(_MV) and isinstance(nv, str):
          # identifiers stored as plain strings (e.g. except ... as NAME)
          k = pv[len(_MV):]
          if k in b and b[k] != nv:
            return False
          b[k] = nv
          continue
        if pv != nv:
          return False
    return True
  return p == n


def match(pattern: str, node: ast.AST, binds: dict | None = None) -> dict | None:
  b = dict(binds or {})
  if _match(compile_pattern(pattern), node, b):
    return b
  return None


def search(root: ast.AST, pattern: str, binds: dict | None = None,
           nested: bool = False) -> list[tuple[ast.AST, dict]]:
  pat = compile_pattern(pattern)
  out = []
  it = ast.walk(root) if nested else walk_no_nested(root)
  for n in it:
    if type(n) is type(pat):
      b = dict(binds or {})
      if _match(pat, n, b):
        out.append((n, b))
  return out


def has(root: ast.AST, pattern: str, binds: dict | None = None, nested: bool = False) -> bool:
  return bool(search(root, pattern, binds, nested))


def first(root: ast.AST, pattern: str, binds: dict | None = None, nested: bool = False):
  r = search(root, pattern, binds, nested)
  return r[0] if r else (None, None)


def bound_expr(b: dict, name: str) -> ast.AST | None:
  v = b.get('$' + name)
  return v[1] if v else None
