"""E3: context-sensitive lockset analysis over the CFGs of E2.

Locks are discovered from constructor assignments
(``self.X = threading.Lock()/RLock()/Condition()``).  The lock multiset is
propagated through every CFG path of a method, through ``with``,
``acquire()/release()`` and through resolved callees (methods of the same
object, module-level helpers that receive locks as arguments, and methods of
attributes whose class is fixed by an annotation or constructor assignment).
Each callee is analysed once per (entry lockset, lock-argument binding).

Outputs: lock events (wait/notify/acquire/release with the lockset before
them and the calling context), the lock-order graph, balance of every
analysed context, and per-node locksets for rule-specific queries.
"""
from __future__ import annotations

import ast
import dataclasses as dc
from typing import Iterable

from mlmverif import cfg as cfgm
from mlmverif.core import (AnalysisError, ClassInfo, FuncInfo, Repo, attr_chain,
                           unparse, walk_no_nested)

LS = tuple  # sorted tuple of (lock_id, count)
MAX_COUNT = 4
MAX_DEPTH = 8

LOCK_CTORS = {
    'threading.Lock': ('lock', False),
    'threading.RLock': ('rlock', True),
    'threading.Condition': ('condition', True),  # default RLock inside
    'asyncio.Lock': ('alock', False),
}


def ls_add(ls: LS, lock: str) -> LS:
  d = dict(ls)
  d[lock] = d.get(lock, 0) + 1
  if d[lock] > MAX_COUNT:
    raise AnalysisError(f'lockset: {lock} acquired more than {MAX_COUNT} times'
                        ' on one path (unbounded acquisition in a loop?)')
  return tuple(sorted(d.items()))


def ls_sub(ls: LS, lock: str) -> tuple[LS, bool]:
  d = dict(ls)
  if d.get(lock, 0) <= 0:
    return ls, False
  d[lock] -= 1
  if d[lock] == 0:
    del d[lock]
  return tuple(sorted(d.items())), True


def ls_has(ls: LS, lock: str) -> bool:
  return dict(ls).get(lock, 0) > 0


def ls_str(ls: LS) -> str:
  return '{' + ', '.join(f'{k}x{v}' if v > 1 else k for k, v in ls) + '}'


@dc.dataclass
class Event:
  kind: str  # wait | notify | acquire | release | unbalanced | order
  lock: str
  fi: FuncInfo
  node: ast.AST
  before: LS
  chain: tuple[str, ...]
  extra: str = ''

  @property
  def held(self) -> bool:
    return ls_has(self.before, self.lock)


@dc.dataclass
class Summary:
  normal: frozenset
  exc: frozenset


class LockEngine:

  def __init__(self, repo: Repo):
    self.repo = repo
    self.events: list[Event] = []
    self.order: dict[tuple[str, str], Event] = {}
    self._memo: dict = {}
    self._in_progress: set = set()
    self.node_states: dict = {}  # (fi, entry, binding) -> {node: set[LS]}
    self.contexts: list[tuple[FuncInfo, LS, tuple[str, ...]]] = []
    self.unknown_lock_exprs: set[str] = set()
    self._lock_tables: dict = {}
    self._attr_classes: dict = {}

  # -- discovery

  def lock_table(self, ci: ClassInfo) -> dict[str, tuple[str, str, bool]]:
    """attr -> (lock id, kind, reentrant) over the MRO of ci."""
    key = (ci.module.name, ci.name)
    if key in self._lock_tables:
      return self._lock_tables[key]
    out: dict[str, tuple[str, str, bool]] = {}
    for c in reversed(self.repo.mro(ci)):
      init = c.methods.get('__init__')
      bodies = [init.node] if init else []
      for fn in bodies:
        for n in ast.walk(fn):
          if isinstance(n, ast.Assign) and len(n.targets) == 1:
            t = n.targets[0]
            if (isinstance(t, ast.Attribute) and isinstance(t.value, ast.Name)
                and t.value.id == 'self' and isinstance(n.value, ast.Call)):
              ctor = unparse(n.value.func)
              if ctor in LOCK_CTORS:
                kind, re = LOCK_CTORS[ctor]
                if kind == 'condition' and n.value.args:
                  # Condition(lock): reentrancy follows the wrapped lock
                  inner = unparse(n.value.args[0])
                  re = 'RLock' in inner
                out[t.attr] = (f'{c.name}.{t.attr}', kind, re)
    self._lock_tables[key] = out
    return out

  def attr_class(self, ci: ClassInfo, attr: str) -> ClassInfo | None:
    """Class of `self.<attr>` when fixed by annotation or ctor assignment."""
    key = (ci.module.name, ci.name, attr)
    if key in self._attr_classes:
      return self._attr_classes[key]
    res = None
    for c in self.repo.mro(ci):
      for stmt in c.node.body:
        if (isinstance(stmt, ast.AnnAssign) and isinstance(stmt.target, ast.Name)
            and stmt.target.id == attr):
          ann = unparse(stmt.annotation).replace('| None', '').strip()
          res = self.repo.resolve_class(c.module, ann.split('|')[0].strip())
      if res is None:
        for m in c.methods.values():
          for n in ast.walk(m.node):
            if isinstance(n, ast.Assign) and len(n.targets) == 1:
              t = n.targets[0]
              if (isinstance(t, ast.Attribute) and t.attr == attr
                  and isinstance(t.value, ast.Name) and t.value.id == 'self'
                  and isinstance(n.value, ast.Call)):
                r = self.repo.resolve_class(c.module, unparse(n.value.func))
                if r is not None:
                  res = r
            if isinstance(n, ast.AnnAssign) and isinstance(n.target, ast.Attribute):
              t = n.target
              if (t.attr == attr and isinstance(t.value, ast.Name)
                  and t.value.id == 'self'):
                ann = unparse(n.annotation).replace('| None', '').strip()
                r = self.repo.resolve_class(c.module, ann.split('|')[0].strip())
                if r is not None:
                  res = r
      if res is not None:
        break
    self._attr_classes[key] = res
    return res

  # -- resolution of lock expressions and callees

  def lock_id(self, expr: ast.AST, fi: FuncInfo, binding: dict[str, str]
              ) -> str | None:
    if isinstance(expr, ast.Name):
      return binding.get(expr.id)
    ch = attr_chain(expr)
    if ch and ch[0] == 'self' and fi.cls is not None:
      if len(ch) == 2:
        t = self.lock_table(fi.cls).get(ch[1])
        return t[0] if t else None
      if len(ch) == 3:
        ac = self.attr_class(fi.cls, ch[1])
        if ac is not None:
          t = self.lock_table(ac).get(ch[2])
          return t[0] if t else None
    return None

  def reentrant(self, lock: str) -> bool:
    cname, attr = lock.split('.', 1)
    for ci in self.repo.all_classes():
      if ci.name == cname:
        t = self.lock_table(ci).get(attr)
        if t:
          return t[2]
    return True

  def lock_kind(self, lock: str) -> str:
    cname, attr = lock.split('.', 1)
    for ci in self.repo.all_classes():
      if ci.name == cname:
        t = self.lock_table(ci).get(attr)
        if t:
          return t[1]
    return 'unknown'

  def resolve_call(self, call: ast.Call, fi: FuncInfo
                   ) -> tuple[FuncInfo, ClassInfo | None] | None:
    f = call.func
    repo = self.repo
    if isinstance(f, ast.Name):
      if f.id in fi.module.functions:
        return fi.module.functions[f.id], None
      tgt = fi.module.imports.get(f.id)
      if tgt and '.' in tgt:
        m, n = tgt.rsplit('.', 1)
        if m in repo.modules and n in repo.modules[m].functions:
          return repo.modules[m].functions[n], None
      return None
    ch = attr_chain(f)
    if not ch:
      # super().m(...)
      if (isinstance(f, ast.Attribute) and isinstance(f.value, ast.Call)
          and unparse(f.value.func) == 'super' and fi.cls is not None):
        mro = repo.mro(fi.cls)
        for c in mro[1:]:
          if f.attr in c.methods:
            return c.methods[f.attr], fi.cls
      return None
    if ch[0] == 'self' and fi.cls is not None:
      if len(ch) == 2:
        m = repo.find_method(fi.cls, ch[1])
        if m is not None:
          return m, fi.cls
      elif len(ch) == 3:
        ac = self.attr_class(fi.cls, ch[1])
        if ac is not None:
          m = repo.find_method(ac, ch[2])
          if m is not None:
            return m, ac
      return None
    if len(ch) == 2:
      mod = repo.resolve_module_alias(fi.module, ch[0])
      if mod is not None and ch[1] in mod.functions:
        return mod.functions[ch[1]], None
    return None

  # -- analysis

  def analyze(self, fi: FuncInfo, entry: LS = (), binding: dict | None = None,
              chain: tuple[str, ...] = (), self_cls: ClassInfo | None = None
              ) -> Summary:
    binding = binding or {}
    self_cls = self_cls or fi.cls
    key = (fi.module.name, fi.qualname, entry,
           tuple(sorted(binding.items())),
           (self_cls.module.name, self_cls.name) if self_cls else None)
    if key in self._memo:
      return self._memo[key]
    if key in self._in_progress or len(chain) > MAX_DEPTH:
      # recursion: assume balanced (checked when the outer call finishes)
      return Summary(frozenset([entry]), frozenset([entry]))
    self._in_progress.add(key)
    # a method found through the MRO runs with `self` of the dynamic class
    eff = fi if self_cls is fi.cls or self_cls is None else FuncInfo(
        fi.module, fi.qualname, fi.node, self_cls)
    g = cfgm.cfg_of(fi.node)
    here = chain + (f'{fi.qualname}',)
    self.contexts.append((fi, entry, chain))
    IN: dict[cfgm.Node, set] = {g.entry: {entry}}
    work = [g.entry]
    while work:
      n = work.pop()
      for ls in list(IN.get(n, ())):
        normal, exc = self._transfer(n, ls, eff, binding, here)
        for m, lab in n.succ:
          outs = exc if lab in ('exc', 'close') else normal
          if n.kind == 'cond' and lab in ('true', 'false'):
            outs = self._cond_out(n, ls, eff, binding, here, lab, normal)
          tgt = IN.setdefault(m, set())
          before = len(tgt)
          tgt |= outs
          if len(tgt) != before:
            work.append(m)
    self.node_states[key] = IN
    summ = Summary(
        frozenset(IN.get(g.exit_ret, set())),
        frozenset(IN.get(g.exit_exc, set()) | IN.get(g.exit_close, set())),
    )
    for kind, states in (('return', summ.normal), ('raise', summ.exc)):
      for ls in states:
        if ls != entry:
          self.events.append(Event(
              'unbalanced', '', fi, fi.node, entry, here,
              f'on {kind}: entry {ls_str(entry)} exit {ls_str(ls)}'))
    self._in_progress.discard(key)
    self._memo[key] = summ
    return summ

  def states_at(self, fi: FuncInfo) -> list[dict]:
    return [v for k, v in self.node_states.items()
            if k[0] == fi.module.name and k[1] == fi.qualname]

  def _lock_calls(self, n: cfgm.Node) -> list[ast.Call]:
    calls = [x for x in cfgm.node_exprs(n) if isinstance(x, ast.Call)]
    calls.sort(key=lambda c: (getattr(c, 'end_lineno', 0),
                              getattr(c, 'end_col_offset', 0)))
    return calls

  def _cond_out(self, n, ls, fi, binding, here, lab, normal):
    """Branch-sensitive handling of `if [not] L.acquire(...)`."""
    test = n.ast
    acq = [c for c in self._lock_calls(n)
           if isinstance(c.func, ast.Attribute) and c.func.attr == 'acquire'
           and self.lock_id(c.func.value, fi, binding)]
    if not acq:
      return normal
    negated = isinstance(test, ast.UnaryOp) and isinstance(test.op, ast.Not)
    took = (lab == 'true') != negated
    if took:
      return normal
    # acquisition failed (or short-circuited): undo the +1 of _transfer
    out = set()
    for s in normal:
      for c in acq:
        s, _ = ls_sub(s, self.lock_id(c.func.value, fi, binding))
      out.add(s)
    return out

  def _transfer(self, n: cfgm.Node, ls: LS, fi: FuncInfo, binding, here
                ) -> tuple[set, set]:
    """Returns (normal-out states, exceptional-out states)."""
    if n.kind == 'with_enter':
      item = n.with_item
      lock = self.lock_id(item.context_expr, fi, binding)
      if lock is None:
        if self._looks_like_lock(item.context_expr):
          self.unknown_lock_exprs.add(
              f'{fi.qualname}: with {unparse(item.context_expr)}')
        return {ls}, {ls}
      self._acquire_event(lock, ls, fi, n.ast, here, 'with')
      return {ls_add(ls, lock)}, {ls}
    if n.kind == 'with_exit':
      item = n.with_item
      lock = self.lock_id(item.context_expr, fi, binding)
      if lock is None:
        return {ls}, {ls}
      new, ok = ls_sub(ls, lock)
      return {new}, {new}
    if n.kind in ('entry', 'resume', 'handler', 'def', 'exit_ret', 'exit_exc',
                  'exit_close'):
      return {ls}, {ls}
    cur = {ls}
    exc_out = set()
    for call in self._lock_calls(n):
      nxt = set()
      for s in cur:
        a, b = self._call(call, s, fi, binding, here)
        nxt |= a
        exc_out |= b
      cur = nxt
    # non-call constructs that may raise (subscripts, arithmetic, raise, ...)
    if n.ast is not None and any(
        isinstance(x, (ast.Subscript, ast.BinOp, ast.Raise, ast.Assert,
                       ast.Yield, ast.YieldFrom, ast.Await, ast.For))
        for x in cfgm.node_exprs(n)) or n.kind == 'for_iter':
      exc_out |= {ls} | cur
    return cur, exc_out

  def _looks_like_lock(self, e: ast.AST) -> bool:
    s = unparse(e)
    return 'lock' in s.lower() and 'patch' not in s

  def _acquire_event(self, lock, ls, fi, node, here, how):
    self.events.append(Event('acquire', lock, fi, node, ls, here, how))
    for held, cnt in ls:
      if held == lock:
        continue
      ev = Event('order', lock, fi, node, ls, here, held)
      self.order.setdefault((held, lock), ev)

  def _call(self, call: ast.Call, ls: LS, fi: FuncInfo, binding, here
            ) -> tuple[set, set]:
    f = call.func
    if isinstance(f, ast.Attribute) and f.attr in (
        'acquire', 'release', 'wait', 'wait_for', 'notify', 'notify_all'):
      lock = self.lock_id(f.value, fi, binding)
      if lock is None:
        if self._looks_like_lock(f.value):
          self.unknown_lock_exprs.add(f'{fi.qualname}: {unparse(call)}')
        return {ls}, {ls}
      if f.attr == 'acquire':
        self._acquire_event(lock, ls, fi, call, here, 'acquire')
        return {ls_add(ls, lock)}, set()
      if f.attr == 'release':
        self.events.append(Event('release', lock, fi, call, ls, here))
        new, ok = ls_sub(ls, lock)
        return {new}, set()
      kind = 'wait' if f.attr.startswith('wait') else 'notify'
      self.events.append(Event(kind, lock, fi, call, ls, here, f.attr))
      return {ls}, set()
    # thread / executor spawns: the target runs with an empty lockset
    target = self._spawn_target(call)
    if target is not None:
      r = self.resolve_call(ast.Call(func=target, args=[], keywords=[]), fi)
      if r is not None:
        self.analyze(r[0], (), {}, here + ('<spawn>',), r[1])
      return {ls}, {ls}
    r = self.resolve_call(call, fi)
    if r is None:
      return {ls}, {ls}
    callee, self_cls = r
    if callee.is_property:
      return {ls}, {ls}
    if any(isinstance(x, (ast.Yield, ast.YieldFrom))
           for x in walk_no_nested(callee.node)):
      return {ls}, {ls}  # generator object creation runs nothing
    # bind lock-valued arguments to the callee's parameters
    cb: dict[str, str] = {}
    params = [a.arg for a in callee.node.args.posonlyargs + callee.node.args.args]
    if callee.cls is not None and params and params[0] in ('self', 'cls'):
      params = params[1:]
    for p, a in zip(params, call.args):
      lid = self.lock_id(a, fi, binding)
      if lid:
        cb[p] = lid
    for k in call.keywords:
      if k.arg:
        lid = self.lock_id(k.value, fi, binding)
        if lid:
          cb[k.arg] = lid
    if not self._has_lock_ops(callee, set()):
      return {ls}, {ls}
    summ = self.analyze(callee, ls, cb, here, self_cls)
    # an unbalanced callee is reported once (event 'unbalanced'); the caller
    # continues with the entry lockset so the imbalance is not compounded
    normal = {ls} if summ.normal else set()
    exc = {ls}
    if not normal:
      # callee never returns normally
      return set(), exc
    return normal, exc

  def _spawn_target(self, call: ast.Call) -> ast.AST | None:
    name = unparse(call.func)
    if name.endswith('.run_in_executor') and len(call.args) >= 2:
      return call.args[1]
    if name.endswith('.submit') and call.args:
      return call.args[0]
    if name in ('threading.Thread',):
      for k in call.keywords:
        if k.arg == 'target':
          return k.value
    return None

  def _has_lock_ops(self, fi: FuncInfo, seen: set) -> bool:
    k = (fi.module.name, fi.qualname)
    if k in seen:
      return False
    seen.add(k)
    cache = getattr(self, '_hlo', None)
    if cache is None:
      cache = self._hlo = {}
    if k in cache:
      return cache[k]
    res = False
    for n in walk_no_nested(fi.node):
      if isinstance(n, (ast.With, ast.AsyncWith)):
        for it in n.items:
          if self._looks_like_lock(it.context_expr) or self.lock_id(
              it.context_expr, fi, {}):
            res = True
      if isinstance(n, ast.Call):
        if isinstance(n.func, ast.Attribute) and n.func.attr in (
            'acquire', 'release', 'wait', 'notify', 'notify_all'):
          res = True
        else:
          r = self.resolve_call(n, fi)
          if r is not None and self._has_lock_ops(r[0], seen):
            res = True
      if res:
        break
    cache[k] = res
    return res

  # -- graph queries

  def order_cycles(self) -> list[list[str]]:
    graph: dict[str, set[str]] = {}
    for (a, b) in self.order:
      graph.setdefault(a, set()).add(b)
      graph.setdefault(b, set())
    cycles = []
    # small graphs: DFS for simple cycles
    def dfs(start, cur, path, seen):
      for nx in sorted(graph.get(cur, ())):
        if nx == start:
          cycles.append(path + [nx])
        elif nx not in seen and nx > start:
          dfs(start, nx, path + [nx], seen | {nx})
    for s in sorted(graph):
      dfs(s, s, [s], {s})
    return cycles
