"""Canonical form of the parsed library (analysis modulo benign rewrites).

Every module is rewritten into a canonical AST right after parsing, so that
behaviour-preserving variations of the source give the SAME tree to the rules
(tools/twins.py applies the inverse rewrites to the whole repository and
requires identical verdicts):

  * `if not c: A else: B`      -> `if c: B else: A`   (also conditional
    expressions; elif chains and tests containing a walrus are left alone)
  * single comparisons are oriented: a constant operand goes to the right
    (`1 < x` -> `x > 1`); with two non-constant operands `>`/`>=` keep their
    operator only if ... no: the operands are ordered by their source text, so
    `b > a` and `a < b` are the same node
  * `t = <expr>; return t` (t a local used nowhere else) -> `return <expr>`
Source positions are kept (copy_location), so messages still point at the
original lines.
"""
from __future__ import annotations

import ast

_FLIP = {ast.Lt: ast.Gt, ast.Gt: ast.Lt, ast.LtE: ast.GtE, ast.GtE: ast.LtE,
         ast.Eq: ast.Eq, ast.NotEq: ast.NotEq}


def _has_walrus(e: ast.AST) -> bool:
  return any(isinstance(x, ast.NamedExpr) for x in ast.walk(e))


class _Canon(ast.NodeTransformer):

  def visit_If(self, n: ast.If):
    self.generic_visit(n)
    if (n.orelse and not (len(n.orelse) == 1 and isinstance(n.orelse[0], ast.If))
        and isinstance(n.test, ast.UnaryOp) and isinstance(n.test.op, ast.Not)
        and not _has_walrus(n.test)):
      return ast.copy_location(ast.If(test=n.test.operand, body=n.orelse, orelse=n.body), n)
    return n

  def visit_IfExp(self, n: ast.IfExp):
    self.generic_visit(n)
    if isinstance(n.test, ast.UnaryOp) and isinstance(n.test.op, ast.Not) and not _has_walrus(n.test):
      return ast.copy_location(ast.IfExp(test=n.test.operand, body=n.orelse, orelse=n.body), n)
    return n

  def visit_Compare(self, n: ast.Compare):
    self.generic_visit(n)
    if len(n.ops) != 1 or type(n.ops[0]) not in _FLIP:
      return n
    l, r = n.left, n.comparators[0]
    if _has_walrus(l) or _has_walrus(r):
      return n
    lc, rc = isinstance(l, ast.Constant), isinstance(r, ast.Constant)
    swap = False
    if lc and not rc:
      swap = True
    elif not lc and not rc and type(n.ops[0]) in (ast.Gt, ast.GtE):
      # two non-constant operands: only `<` / `<=` are kept
      swap = True
    if swap:
      return ast.copy_location(ast.Compare(left=r, ops=[_FLIP[type(n.ops[0])]()], comparators=[l]), n)
    return n

  def _inline_return_temps(self, fn):
    uses: dict[str, int] = {}
    for x in ast.walk(fn):
      if isinstance(x, ast.Name):
        uses[x.id] = uses.get(x.id, 0) + 1
      elif isinstance(x, (ast.Global, ast.Nonlocal)):
        for nm in x.names:
          uses[nm] = uses.get(nm, 0) + 10

    def blocks():
      seen = set()
      for x in ast.walk(fn):
        for f in ('body', 'orelse', 'finalbody'):
          b = getattr(x, f, None)
          if isinstance(b, list) and b and isinstance(b[0], ast.stmt) and id(b) not in seen:
            seen.add(id(b))
            yield b

    def is_pair(s, nxt):
      return (isinstance(s, ast.Assign) and len(s.targets) == 1 and isinstance(s.targets[0], ast.Name)
              and isinstance(nxt, ast.Return) and isinstance(nxt.value, ast.Name)
              and nxt.value.id == s.targets[0].id)

    pairs: dict[str, int] = {}
    for b in blocks():
      for s, nxt in zip(b, b[1:]):
        if is_pair(s, nxt):
          pairs[s.targets[0].id] = pairs.get(s.targets[0].id, 0) + 1
    # a temp is inlined only if every occurrence of the name belongs to such a pair
    inlinable = {nm for nm, k in pairs.items() if uses.get(nm, 0) == 2 * k}

    def fix(body):
      out = []
      i = 0
      while i < len(body):
        s = body[i]
        nxt = body[i + 1] if i + 1 < len(body) else None
        if is_pair(s, nxt) and s.targets[0].id in inlinable:
          out.append(ast.copy_location(ast.Return(value=s.value), s))
          i += 2
          continue
        out.append(s)
        i += 1
      return out

    for x in ast.walk(fn):
      for f in ('body', 'orelse', 'finalbody'):
        b = getattr(x, f, None)
        if isinstance(b, list) and b and isinstance(b[0], ast.stmt):
          setattr(x, f, fix(b))

  def visit_FunctionDef(self, n):
    self.generic_visit(n)
    self._inline_return_temps(n)
    return n

  visit_AsyncFunctionDef = visit_FunctionDef


def canonical(tree: ast.Module) -> ast.Module:
  tree = _Canon().visit(tree)
  ast.fix_missing_locations(tree)
  return tree
