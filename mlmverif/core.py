"""E1: program index, resolver, findings, evidence and verdict protocol.

Everything here works on source text parsed with the stdlib ``ast`` module.
Nothing in ``ml_metrics`` is imported or executed.
"""
from __future__ import annotations

import ast
import dataclasses as dc
import hashlib
import json
import os
import re
import sys
import time
from typing import Any, Callable, Iterable, Iterator

REPO_ROOT = os.environ.get('MLMVERIF_REPO', '/repo')
VERIF_ROOT = os.path.dirname(os.path.dirname(os.path.abspath(__file__)))
PKG = 'ml_metrics'


from mlmverif.canon import canonical  # noqa: E402


class AnalysisError(Exception):
  """The checker cannot analyse what it must (exit 2, never a violation)."""


# ---------------------------------------------------------------------------
# Source model


@dc.dataclass
class FuncInfo:
  module: 'ModuleInfo'
  qualname: str
  node: ast.FunctionDef | ast.AsyncFunctionDef
  cls: 'ClassInfo | None' = None

  @property
  def name(self) -> str:
    return self.node.name

  @property
  def decorators(self) -> list[str]:
    return [unparse(d) for d in self.node.decorator_list]

  @property
  def is_property(self) -> bool:
    return any(
        d in ('property', 'functools.cached_property', 'cached_property')
        for d in self.decorators
    )

  @property
  def is_cached_property(self) -> bool:
    return any(d.endswith('cached_property') for d in self.decorators)

  def params(self) -> list[str]:
    a = self.node.args
    return [x.arg for x in a.posonlyargs + a.args + a.kwonlyargs]

  def loc(self, node: ast.AST | None = None) -> str:
    n = node or self.node
    return f'{self.module.relpath}:{getattr(n, "lineno", 0)}'

  def __hash__(self):
    return hash((self.module.name, self.qualname))

  def __eq__(self, other):
    return (
        isinstance(other, FuncInfo)
        and self.module.name == other.module.name
        and self.qualname == other.qualname
    )


@dc.dataclass
class FieldInfo:
  name: str
  annotation: str
  default: ast.expr | None
  init: bool = True
  kw_only: bool = False
  default_factory: ast.expr | None = None


@dc.dataclass
class ClassInfo:
  module: 'ModuleInfo'
  name: str
  node: ast.ClassDef
  bases: list[str]
  methods: dict[str, FuncInfo] = dc.field(default_factory=dict)
  fields: list[FieldInfo] = dc.field(default_factory=list)
  is_dataclass: bool = False
  dataclass_kw: dict[str, Any] = dc.field(default_factory=dict)

  def __hash__(self):
    return hash((self.module.name, self.name))

  def __eq__(self, other):
    return (
        isinstance(other, ClassInfo)
        and self.module.name == other.module.name
        and self.name == other.name
    )


@dc.dataclass
class ModuleInfo:
  name: str
  relpath: str
  src: str
  tree: ast.Module
  imports: dict[str, str] = dc.field(default_factory=dict)  # alias -> target
  classes: dict[str, ClassInfo] = dc.field(default_factory=dict)
  functions: dict[str, FuncInfo] = dc.field(default_factory=dict)
  assigns: dict[str, ast.expr] = dc.field(default_factory=dict)

  def segment(self, node: ast.AST) -> str:
    return ast.get_source_segment(self.src, node) or ''


def is_increment(s: ast.AST, name: str | None = None) -> bool:
  """`n += 1` or `n = n + 1` / `n = 1 + n` on a plain name (optionally a given one)."""
  if isinstance(s, ast.AugAssign) and isinstance(s.op, ast.Add) and isinstance(s.target, ast.Name) and (
      isinstance(s.value, ast.Constant) and s.value.value == 1):
    return name is None or s.target.id == name
  if isinstance(s, ast.Assign) and len(s.targets) == 1 and isinstance(s.targets[0], ast.Name) and isinstance(
      s.value, ast.BinOp) and isinstance(s.value.op, ast.Add):
    t = s.targets[0].id
    l, r = s.value.left, s.value.right
    if (isinstance(l, ast.Name) and l.id == t and isinstance(r, ast.Constant) and r.value == 1) or (
        isinstance(r, ast.Name) and r.id == t and isinstance(l, ast.Constant) and l.value == 1):
      return name is None or t == name
  return False


def increment_target(s: ast.AST) -> str | None:
  if is_increment(s):
    return s.target.id if isinstance(s, ast.AugAssign) else s.targets[0].id
  return None


def cnorm(text: str) -> str:
  """Canonical spelling of an expression/statement given as source text."""
  from mlmverif.canon import canonical
  return ast.unparse(canonical(ast.parse(text))).strip()


def unparse(node: ast.AST | None) -> str:
  if node is None:
    return ''
  try:
    return ast.unparse(node)
  except Exception:  # pragma: no cover
    return '<unparse-failed>'


def norm(node: ast.AST | str) -> str:
  """Normalised construct text (whitespace/comment free, single line)."""
  s = node if isinstance(node, str) else unparse(node)
  s = re.sub(r'\s+', ' ', s).strip()
  return s if len(s) <= 160 else s[:157] + '...'


def _dataclass_deco(node: ast.ClassDef) -> tuple[bool, dict[str, Any]]:
  for d in node.decorator_list:
    f = d.func if isinstance(d, ast.Call) else d
    name = unparse(f)
    if name.split('.')[-1] == 'dataclass':
      kw = {}
      if isinstance(d, ast.Call):
        for k in d.keywords:
          if k.arg and isinstance(k.value, ast.Constant):
            kw[k.arg] = k.value.value
      return True, kw
  return False, {}


def _field_info(stmt: ast.AnnAssign, cls_kw_only: bool) -> FieldInfo | None:
  if not isinstance(stmt.target, ast.Name):
    return None
  ann = unparse(stmt.annotation)
  if 'ClassVar' in ann:
    return None
  fi = FieldInfo(stmt.target.id, ann, stmt.value, kw_only=cls_kw_only)
  v = stmt.value
  if isinstance(v, ast.Call) and unparse(v.func).split('.')[-1] == 'field':
    fi.default = None
    for k in v.keywords:
      if k.arg == 'default':
        fi.default = k.value
      elif k.arg == 'default_factory':
        fi.default_factory = k.value
      elif k.arg == 'init' and isinstance(k.value, ast.Constant):
        fi.init = bool(k.value.value)
      elif k.arg == 'kw_only' and isinstance(k.value, ast.Constant):
        fi.kw_only = bool(k.value.value)
  return fi


class Repo:
  """Parsed view of ml_metrics' non-test sources (optionally with overlay)."""

  def __init__(
      self,
      root: str | None = None,
      overlay: dict[str, str] | None = None,
  ):
    self.root = root or REPO_ROOT
    self.overlay = dict(overlay or {})
    self.modules: dict[str, ModuleInfo] = {}
    self.parse_errors: list[str] = []
    self._load()

  # -- loading

  def _iter_files(self) -> Iterator[str]:
    base = os.path.join(self.root, PKG)
    if not os.path.isdir(base):
      raise AnalysisError(f'package directory missing: {base}')
    for d, dirs, files in os.walk(base):
      dirs[:] = sorted(x for x in dirs if x != '__pycache__')
      for f in sorted(files):
        if f.endswith('.py') and not f.endswith('_test.py'):
          yield os.path.relpath(os.path.join(d, f), self.root)

  def _load(self):
    rels = set(self._iter_files()) | set(self.overlay)
    for rel in sorted(rels):
      if rel in self.overlay:
        src = self.overlay[rel]
      else:
        with open(os.path.join(self.root, rel), encoding='utf-8') as fh:
          src = fh.read()
      try:
        tree = canonical(ast.parse(src, filename=rel))
      except SyntaxError as e:
        self.parse_errors.append(f'{rel}: {e}')
        continue
      modname = rel[:-3].replace(os.sep, '.')
      if modname.endswith('.__init__'):
        modname = modname[: -len('.__init__')]
      mi = ModuleInfo(modname, rel, src, tree)
      self._index_module(mi)
      self.modules[modname] = mi
    if self.parse_errors:
      raise AnalysisError('syntax errors: ' + '; '.join(self.parse_errors))

  def _index_module(self, mi: ModuleInfo):
    for stmt in mi.tree.body:
      if isinstance(stmt, ast.Import):
        for a in stmt.names:
          mi.imports[a.asname or a.name.split('.')[0]] = (
              a.name if a.asname else a.name.split('.')[0]
          )
      elif isinstance(stmt, ast.ImportFrom):
        for a in stmt.names:
          mi.imports[a.asname or a.name] = f'{stmt.module}.{a.name}'
      elif isinstance(stmt, (ast.FunctionDef, ast.AsyncFunctionDef)):
        mi.functions[stmt.name] = FuncInfo(mi, stmt.name, stmt)
      elif isinstance(stmt, ast.ClassDef):
        self._index_class(mi, stmt)
      elif isinstance(stmt, ast.Assign) and len(stmt.targets) == 1:
        t = stmt.targets[0]
        if isinstance(t, ast.Name):
          mi.assigns[t.id] = stmt.value
          # a module-level tuple of exception classes is an alias a handler may name (`except _ERRORS:`)
          if isinstance(stmt.value, ast.Tuple) and stmt.value.elts and all(
              isinstance(e, (ast.Name, ast.Attribute)) for e in stmt.value.elts):
            from mlmverif import cfg as _cfg
            _cfg.EXC_ALIASES[t.id] = tuple(ast.unparse(e) for e in stmt.value.elts)
      elif isinstance(stmt, ast.AnnAssign) and stmt.value is not None:
        if isinstance(stmt.target, ast.Name):
          mi.assigns[stmt.target.id] = stmt.value

  def _index_class(self, mi: ModuleInfo, node: ast.ClassDef):
    is_dc, kw = _dataclass_deco(node)
    ci = ClassInfo(
        mi,
        node.name,
        node,
        [unparse(b) for b in node.bases],
        is_dataclass=is_dc,
        dataclass_kw=kw,
    )
    for stmt in node.body:
      if isinstance(stmt, (ast.FunctionDef, ast.AsyncFunctionDef)):
        fi = FuncInfo(mi, f'{node.name}.{stmt.name}', stmt, ci)
        if any(d.split('.')[-1] == 'overload' for d in fi.decorators):
          continue  # typing stubs, not the implementation
        # keep the getter for properties with setters
        if stmt.name in ci.methods and any(
            d.endswith('.setter') for d in fi.decorators
        ):
          ci.methods[stmt.name + '.setter'] = fi
        else:
          ci.methods[stmt.name] = fi
      elif isinstance(stmt, ast.AnnAssign):
        f = _field_info(stmt, bool(kw.get('kw_only')))
        if f is not None:
          ci.fields.append(f)
    mi.classes[node.name] = ci

  def derive(self, overlay: dict[str, str]) -> 'Repo':
    """A copy of this repository with some files replaced (in memory)."""
    r = Repo.__new__(Repo)
    r.root = self.root
    r.overlay = dict(self.overlay)
    r.overlay.update(overlay)
    r.modules = dict(self.modules)
    r.parse_errors = []
    for rel, src in overlay.items():
      tree = canonical(ast.parse(src, filename=rel))
      modname = rel[:-3].replace(os.sep, '.')
      if modname.endswith('.__init__'):
        modname = modname[: -len('.__init__')]
      mi = ModuleInfo(modname, rel, src, tree)
      r._index_module(mi)
      r.modules[modname] = mi
    return r

  # -- lookup (anchors by name; a vanished anchor is an AnalysisError)

  def module(self, name: str) -> ModuleInfo:
    full = name if name.startswith(PKG) else f'{PKG}._src.{name}'
    if full not in self.modules:
      raise AnalysisError(f'anchor module missing: {full}')
    return self.modules[full]

  def cls(self, module: str, name: str) -> ClassInfo:
    mi = self.module(module)
    if name not in mi.classes:
      raise AnalysisError(f'anchor class missing: {mi.name}.{name}')
    return mi.classes[name]

  def func(self, module: str, qualname: str) -> FuncInfo:
    mi = self.module(module)
    if '.' in qualname:
      c, m = qualname.split('.', 1)
      ci = self.cls(module, c)
      if m not in ci.methods:
        raise AnalysisError(f'anchor method missing: {mi.name}.{qualname}')
      return ci.methods[m]
    if qualname not in mi.functions:
      raise AnalysisError(f'anchor function missing: {mi.name}.{qualname}')
    return mi.functions[qualname]

  def try_func(self, module: str, qualname: str) -> FuncInfo | None:
    try:
      return self.func(module, qualname)
    except AnalysisError:
      return None

  def resolve_class(self, mi: ModuleInfo, expr: str) -> ClassInfo | None:
    """Resolves a (possibly dotted / aliased) class expression."""
    expr = expr.split('[')[0].strip().strip("'\"")
    parts = expr.split('.')
    if len(parts) == 1:
      if parts[0] in mi.classes:
        return mi.classes[parts[0]]
      tgt = mi.imports.get(parts[0])
      if tgt and '.' in tgt:
        m, c = tgt.rsplit('.', 1)
        if m in self.modules and c in self.modules[m].classes:
          return self.modules[m].classes[c]
      # module-level alias: Name = mod.Class
      if parts[0] in mi.assigns:
        a = unparse(mi.assigns[parts[0]])
        if a != expr and re.fullmatch(r'[\w.]+', a):
          return self.resolve_class(mi, a)
      return None
    head, rest = parts[0], parts[1:]
    tgt = mi.imports.get(head)
    if tgt and tgt in self.modules and len(rest) == 1:
      m = self.modules[tgt]
      if rest[0] in m.classes:
        return m.classes[rest[0]]
      if rest[0] in m.assigns:
        return self.resolve_class(m, unparse(m.assigns[rest[0]]))
    return None

  def resolve_module_alias(self, mi: ModuleInfo, alias: str) -> ModuleInfo | None:
    tgt = mi.imports.get(alias)
    if tgt and tgt in self.modules:
      return self.modules[tgt]
    return None

  def mro(self, ci: ClassInfo) -> list[ClassInfo]:
    """Simple left-to-right depth-first linearisation (dedup, keep first)."""
    out: list[ClassInfo] = []
    seen = set()

    def walk(c: ClassInfo):
      if (c.module.name, c.name) in seen:
        return
      seen.add((c.module.name, c.name))
      out.append(c)
      for b in c.bases:
        bc = self.resolve_class(c.module, b)
        if bc is not None:
          walk(bc)

    walk(ci)
    return out

  def find_method(self, ci: ClassInfo, name: str) -> FuncInfo | None:
    for c in self.mro(ci):
      if name in c.methods:
        return c.methods[name]
    return None

  def all_fields(self, ci: ClassInfo) -> list[FieldInfo]:
    out: dict[str, FieldInfo] = {}
    for c in reversed(self.mro(ci)):
      for f in c.fields:
        out[f.name] = f
    return list(out.values())

  def all_classes(self) -> Iterator[ClassInfo]:
    for m in self.modules.values():
      yield from m.classes.values()

  def all_functions(self) -> Iterator[FuncInfo]:
    for m in self.modules.values():
      yield from m.functions.values()
      for c in m.classes.values():
        yield from c.methods.values()

  def subclasses(self, ci: ClassInfo) -> list[ClassInfo]:
    return [c for c in self.all_classes() if c != ci and ci in self.mro(c)]

  def digest(self) -> str:
    h = hashlib.sha256()
    for name in sorted(self.modules):
      h.update(name.encode())
      h.update(self.modules[name].src.encode())
    return h.hexdigest()[:16]


# ---------------------------------------------------------------------------
# Small AST helpers used by many rules


def walk_no_nested(node: ast.AST) -> Iterator[ast.AST]:
  """ast.walk that does not descend into nested function/class/lambda bodies."""
  stack = [node]
  first = True
  while stack:
    n = stack.pop()
    if not first and isinstance(
        n, (ast.FunctionDef, ast.AsyncFunctionDef, ast.ClassDef, ast.Lambda)
    ):
      continue
    first = False
    yield n
    stack.extend(reversed(list(ast.iter_child_nodes(n))))


def plain_copies(fn: ast.AST, name: str) -> set[str]:
  """`name` and every local that is bound to it by a plain copy (`b = a`, transitively, two levels)."""
  same = {name}
  for _ in range(2):
    for x in walk_no_nested(fn):
      if isinstance(x, ast.Assign) and len(x.targets) == 1 and isinstance(x.targets[0], ast.Name) and isinstance(x.value, ast.Name) \
          and x.value.id in same:
        same.add(x.targets[0].id)
  return same


def calls_in(node: ast.AST, nested: bool = False) -> list[ast.Call]:
  it = ast.walk(node) if nested else walk_no_nested(node)
  return [n for n in it if isinstance(n, ast.Call)]


def call_name(call: ast.Call) -> str:
  return unparse(call.func)


def attr_chain(node: ast.AST) -> list[str] | None:
  """`a.b.c` -> ['a','b','c']; None when not a pure name/attribute chain."""
  out = []
  while isinstance(node, ast.Attribute):
    out.append(node.attr)
    node = node.value
  if isinstance(node, ast.Name):
    out.append(node.id)
    return list(reversed(out))
  return None


def is_self_attr(node: ast.AST, attr: str | None = None) -> bool:
  return (
      isinstance(node, ast.Attribute)
      and isinstance(node.value, ast.Name)
      and node.value.id == 'self'
      and (attr is None or node.attr == attr)
  )


def kwarg(call: ast.Call, name: str) -> ast.expr | None:
  for k in call.keywords:
    if k.arg == name:
      return k.value
  return None


def const_value(node: ast.AST | None, default=None):
  if isinstance(node, ast.Constant):
    return node.value
  return default


def nested_functions(fn: ast.AST) -> dict[str, ast.FunctionDef]:
  out = {}
  for n in ast.walk(fn):
    if n is not fn and isinstance(n, (ast.FunctionDef, ast.AsyncFunctionDef)):
      out[n.name] = n
  return out


def parent_map(root: ast.AST) -> dict[ast.AST, ast.AST]:
  pm = {}
  for p in ast.walk(root):
    for c in ast.iter_child_nodes(p):
      pm[c] = p
  return pm


# ---------------------------------------------------------------------------
# Findings, instances and the per-check context


@dc.dataclass
class Finding:
  property_id: str
  rule: str
  module: str
  qualname: str
  construct: str
  message: str
  loc: str
  witness: Any = None

  @property
  def key(self) -> str:
    return f'{self.rule}|{self.module}|{self.qualname}|{self.construct}'

  def to_json(self) -> dict[str, Any]:
    d = dc.asdict(self)
    d['key'] = self.key
    return d


@dc.dataclass
class Instance:
  rule: str
  where: str
  what: str
  verdict: str  # 'holds' | 'violated' | 'info'
  nontrivial: bool = True
  detail: str = ''


class Ctx:
  """Collects rule instances, findings and notes for one property check."""

  def __init__(self, property_id: str, repo: Repo, tier: str = 'quick'):
    self.pid = property_id
    self.repo = repo
    self.tier = tier
    self.instances: list[Instance] = []
    self.findings: list[Finding] = []
    self.notes: list[str] = []
    self.floors: dict[str, tuple[int, int]] = {}
    self.rules: dict[str, str] = {}
    self.unresolved: list[str] = []
    self.functions_analysed: set[str] = set()
    self.errors: list[str] = []

  def guard(self, rulefn, *args):
    """Runs one rule; an AnalysisError is deferred so other rules still run."""
    try:
      rulefn(self, *args)
    except AnalysisError as e:
      self.errors.append(f'{getattr(rulefn, "__name__", "rule")}: {e}')

  def rule(self, rule_id: str, text: str):
    self.rules[rule_id] = text

  def analysed(self, fi: FuncInfo | str):
    self.functions_analysed.add(
        fi if isinstance(fi, str) else f'{fi.module.name}.{fi.qualname}'
    )

  def ok(self, rule: str, fi: FuncInfo | None, what: str, node=None,
         detail: str = '', nontrivial: bool = True, where: str | None = None):
    if fi is not None:
      self.analysed(fi)
    w = where or (fi.loc(node) if fi else '')
    self.instances.append(Instance(rule, w, norm(what), 'holds', nontrivial, detail))

  def info(self, rule: str, fi: FuncInfo | None, what: str, node=None,
           detail: str = ''):
    w = fi.loc(node) if fi else ''
    self.instances.append(Instance(rule, w, norm(what), 'info', False, detail))

  def fail(self, rule: str, fi: FuncInfo, construct: ast.AST | str,
           message: str, node: ast.AST | None = None, witness: Any = None):
    self.analysed(fi)
    if node is None and isinstance(construct, ast.AST):
      node = construct
    f = Finding(
        self.pid,
        rule,
        fi.module.name.replace(f'{PKG}._src.', ''),
        fi.qualname,
        norm(construct),
        message,
        fi.loc(node),
        witness,
    )
    # de-duplicate identical keys (e.g. same construct reached in two contexts)
    if any(x.key == f.key for x in self.findings):
      return
    self.findings.append(f)
    self.instances.append(
        Instance(rule, f.loc, f.construct, 'violated', True, message)
    )

  def floor(self, rule: str, minimum: int, actual: int | None = None):
    if actual is None:
      actual = sum(
          1 for i in self.instances if i.rule == rule and i.verdict != 'info'
      )
    self.floors[rule] = (minimum, actual)
    if actual < minimum:
      self.errors.append(
          f'{rule}: analysed {actual} instance(s), below the confirmed floor'
          f' of {minimum}; the anchor shapes changed and the rule would pass'
          ' vacuously'
      )

  def note(self, s: str):
    self.notes.append(s)

  def include(self, rule: str, text: str, rulefn, *args, min_instances: int = 1):
    """Runs a rule owned by another property and reports it under `rule`.

    Several properties share a mechanism (e.g. the queue's lock order matters
    to C04, C05 and C15); the owning rule is evaluated once more in a
    sub-context and its instances/findings are re-labelled.
    """
    self.rule(rule, text)
    sub = Ctx(self.pid, self.repo, self.tier)
    try:
      rulefn(sub, *args)
    except AnalysisError as e:
      sub.errors.append(str(e))
    for e in sub.errors:
      self.errors.append(f'{rule}: {e}')
    for f in sub.findings:
      f2 = Finding(self.pid, rule, f.module, f.qualname, f.construct,
                   f'[{f.rule}] {f.message}', f.loc, f.witness)
      if not any(x.key == f2.key for x in self.findings):
        self.findings.append(f2)
        self.instances.append(Instance(rule, f.loc, f.construct, 'violated', True, f.message))
    n = 0
    for i in sub.instances:
      if i.verdict == 'holds':
        n += 1
        self.instances.append(Instance(rule, i.where, i.what, 'holds', i.nontrivial,
                                       i.detail))
    self.functions_analysed |= sub.functions_analysed
    self.floor(rule, min_instances)


# ---------------------------------------------------------------------------
# Known findings


def load_known() -> list[dict[str, Any]]:
  p = os.path.join(VERIF_ROOT, 'known_findings.json')
  if not os.path.exists(p):
    return []
  with open(p, encoding='utf-8') as fh:
    data = json.load(fh)
  return data.get('findings', [])


def triage(findings: list[Finding], known: list[dict[str, Any]]):
  """Splits findings into (known, new). 'fixed' entries suppress nothing."""
  known_keys = {
      (k['property'], k['key']): k for k in known if k.get('status') == 'known'
  }
  kn, new = [], []
  for f in findings:
    if (f.property_id, f.key) in known_keys:
      kn.append((f, known_keys[(f.property_id, f.key)]))
    else:
      new.append(f)
  return kn, new
