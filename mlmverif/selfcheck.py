"""Self-validation corpus: the checker is tested both ways on every thorough run.

Each variant is an edit of the *current* tree held in memory (an overlay on
the parsed repository; nothing is written to disk).  Breaking variants must be
reported (a finding that the unmodified tree does not have, with the expected
rule); benign twins must stay silent and analysable.  A variant whose anchor
text no longer exists is skipped and counted.  Corpus failures make the run
exit 2 (checker defect) — they are never a verdict about /repo.
"""
from __future__ import annotations

import dataclasses as dc
import importlib
import random
from typing import Callable

from mlmverif.core import AnalysisError, Ctx, Repo


@dc.dataclass
class Variant:
  name: str
  kind: str  # 'breaking' | 'benign'
  file: str  # path relative to the repo root
  old: str
  new: str
  expect_rule: str | None = None
  count: int = 1  # expected number of occurrences of `old`
  extra: tuple = ()  # further (file, old, new) edits applied together


def B(name, file, old, new, rule=None, **kw) -> Variant:
  return Variant(name, 'breaking', file, old, new, rule, **kw)


def OK(name, file, old, new, **kw) -> Variant:
  return Variant(name, 'benign', file, old, new, None, **kw)


def apply_variant(repo: Repo, v: Variant) -> Repo | None:
  overlay = {}
  for f, old, new in ((v.file, v.old, v.new),) + tuple(v.extra):
    rel = f if f.startswith('ml_metrics/') else f'ml_metrics/_src/{f}'
    mod = None
    for m in repo.modules.values():
      if m.relpath == rel:
        mod = m
    if mod is None:
      return None
    src = overlay.get(rel, mod.src)
    if src.count(old) != (v.count if f == v.file else 1):
      return None
    overlay[rel] = src.replace(old, new)
  try:
    for rel, s in overlay.items():
      compile(s, rel, 'exec')
  except SyntaxError as e:
    raise AnalysisError(f'variant {v.name} does not compile: {e}')
  return repo.derive(overlay)


def _findings(pid: str, repo: Repo):
  mod = importlib.import_module(f'mlmverif.props.{pid.lower()}')
  ctx = Ctx(pid, repo, 'quick')
  mod.run(ctx)
  if ctx.errors and not ctx.findings:
    raise AnalysisError(' | '.join(ctx.errors))
  return ctx.findings


def run_corpus(pid: str, repo: Repo, seed: int = 0) -> dict:
  mod = importlib.import_module(f'mlmverif.props.{pid.lower()}')
  variants: list[Variant] = list(getattr(mod, 'VARIANTS', []))
  rnd = random.Random(seed)
  rnd.shuffle(variants)
  base = {f.key for f in _findings(pid, repo)}
  res = {
      'variants': len(variants), 'breaking': 0, 'breaking_detected': 0,
      'benign': 0, 'benign_silent': 0, 'skipped': 0, 'failures': [],
      'detail': [], 'seed': seed,
  }
  for v in variants:
    try:
      vr = apply_variant(repo, v)
    except AnalysisError as e:
      res['failures'].append(f'{v.name}: {e}')
      continue
    if vr is None:
      res['skipped'] += 1
      res['detail'].append({'variant': v.name, 'result': 'skipped (anchor gone)'})
      continue
    try:
      fs = _findings(pid, vr)
      new = [f for f in fs if f.key not in base]
      err = None
    except AnalysisError as e:
      new, err = [], str(e)
    if v.kind == 'breaking':
      res['breaking'] += 1
      hit = [f for f in new if v.expect_rule is None or f.rule == v.expect_rule]
      if hit:
        res['breaking_detected'] += 1
        res['detail'].append({'variant': v.name, 'result': 'detected',
                              'by': sorted({f.rule for f in hit}),
                              'at': hit[0].loc})
      else:
        res['failures'].append(
            f'breaking variant {v.name} not detected'
            + (f' by {v.expect_rule}' if v.expect_rule else '')
            + (f' (analysis error: {err})' if err else '')
            + (f' (other rules fired: {sorted({f.rule for f in new})})' if new else ''))
    else:
      res['benign'] += 1
      if not new and err is None:
        res['benign_silent'] += 1
        res['detail'].append({'variant': v.name, 'result': 'silent'})
      else:
        res['failures'].append(
            f'benign variant {v.name} raised '
            + (f'analysis error: {err}' if err else
               f'{[(f.rule, f.construct) for f in new][:3]}'))
  return res
