"""E4: effect and alias engine (flow-insensitive per function, interprocedural
through resolvable self-methods / same-module functions).

Taint levels for "owned by a given parameter":
  NONE   – fresh value, or unrelated
  ELEM   – a fresh container whose elements are owned by the parameter
  DIRECT – an object owned by the parameter (the parameter itself, one of its
           attributes/properties, an element of one of its containers)

A *mutation event* is a store/augmented store/delete through, or a call of a
mutator method on, an expression whose level is DIRECT.
"""
from __future__ import annotations

import ast
import re
import dataclasses as dc

from mlmverif.core import (ClassInfo, FuncInfo, Repo, attr_chain, is_self_attr,
                           unparse, walk_no_nested)

NONE, ELEM, DIRECT = 0, 1, 2

MUTATORS = {
    'append', 'extend', 'insert', 'pop', 'remove', 'clear', 'sort', 'reverse',
    'update', 'popitem', 'setdefault', 'add', 'discard', 'fill', 'resize',
    'put', 'move_to_end', 'popleft', 'appendleft', 'extendleft', 'merge',
    '__setitem__', '__delitem__', 'difference_update', 'intersection_update',
    'symmetric_difference_update', 'subtract', 'itemset', 'partition',
    'put_nowait', 'rotate', 'merge_state', 'update_state', 'reset_state',
}
# calls producing a fresh container that still shares its elements
SHALLOW_COPIERS = {'list', 'tuple', 'set', 'dict', 'sorted', 'copy.copy',
                   'frozenset', 'collections.deque', 'collections.Counter',
                   'collections.OrderedDict', 'reversed'}
ITER_WRAPPERS = {'zip', 'enumerate', 'iter', 'itertools.chain', 'itt.chain',
                 'it.chain', 'map', 'filter', 'itertools.chain.from_iterable',
                 'itt.chain.from_iterable', 'mit.flatten', 'itertools.islice'}
ALIASING_CALLS = {'np.asarray', 'np.asanyarray', 'np.ravel', 'np.reshape',
                  'np.squeeze', 'np.atleast_1d', 'np.transpose', 'next'}
ELEM_METHODS = {'items', 'values', 'keys', 'copy', '__iter__'}
DIRECT_METHODS = {'get', 'pop', 'popleft', 'setdefault', 'popitem', 'reshape',
                  'view', 'ravel', 'squeeze', 'transpose', '__getitem__'}


@dc.dataclass
class Mutation:
  fi: FuncInfo
  node: ast.AST
  target: str
  how: str
  chain: tuple[str, ...] = ()


class Effects:

  def __init__(self, repo: Repo, consts: dict[str, bool] | None = None):
    self.repo = repo
    self._env_cache: dict = {}
    # known constant flags (e.g. in_place=False) used to fold `a if flag else b`
    self.consts = dict(consts or {})

  # ---- properties that are plain field views ------------------------------

  def property_field(self, ci: ClassInfo, name: str) -> str | None:
    """`@property def x(self): return self._x` -> '_x'."""
    m = self.repo.find_method(ci, name)
    if m is None or not m.is_property:
      return None
    body = [s for s in m.node.body if not (
        isinstance(s, ast.Expr) and isinstance(s.value, ast.Constant))]
    if len(body) == 1 and isinstance(body[0], ast.Return) and is_self_attr(
        body[0].value):
      return body[0].value.attr
    return None

  def canon_field(self, ci: ClassInfo | None, attr: str) -> str:
    if ci is not None:
      f = self.property_field(ci, attr)
      if f:
        return f
    return attr

  def live(self, root: ast.AST):
    """walk_no_nested that prunes branches decided by self.consts."""
    if not self.consts:
      yield from walk_no_nested(root)
      return
    stack = [root]
    first = True
    while stack:
      n = stack.pop()
      if not first and isinstance(
          n, (ast.FunctionDef, ast.AsyncFunctionDef, ast.ClassDef, ast.Lambda)):
        continue
      first = False
      yield n
      if isinstance(n, ast.If):
        t, neg = n.test, False
        if isinstance(t, ast.UnaryOp) and isinstance(t.op, ast.Not):
          t, neg = t.operand, True
        if isinstance(t, ast.Name) and t.id in self.consts:
          val = bool(self.consts[t.id]) != neg
          stack.extend(reversed(n.body if val else n.orelse))
          continue
      stack.extend(reversed(list(ast.iter_child_nodes(n))))

  # ---- taint ------------------------------------------------------------------

  def env(self, fi: FuncInfo, tainted: dict[str, int]) -> dict[str, int]:
    key = (fi.module.name, fi.qualname, tuple(sorted(tainted.items())),
           tuple(sorted(self.consts.items())))
    if key in self._env_cache:
      return self._env_cache[key]
    env = dict(tainted)
    for _ in range(4):
      before = dict(env)
      for n in self.live(fi.node):
        self._bind(n, env)
      if env == before:
        break
    self._env_cache[key] = env
    return env

  def _join(self, env, name, lvl):
    if lvl > env.get(name, NONE):
      env[name] = lvl

  def _bind_target(self, tgt: ast.AST, value: ast.AST | None, lvl: int, env):
    if isinstance(tgt, ast.Name):
      self._join(env, tgt.id, lvl)
    elif isinstance(tgt, (ast.Tuple, ast.List)):
      if isinstance(value, (ast.Tuple, ast.List)) and len(value.elts) == len(tgt.elts):
        for t, v in zip(tgt.elts, value.elts):
          self._bind_target(t, v, self.level(v, env), env)
      else:
        sub = DIRECT if lvl != NONE else NONE
        for t in tgt.elts:
          self._bind_target(t.value if isinstance(t, ast.Starred) else t, None,
                            sub, env)

  def _bind_loop(self, target: ast.AST, it: ast.AST, env):
    """for target in it"""
    if isinstance(it, ast.Call):
      fn = unparse(it.func)
      if fn == 'zip' and isinstance(target, (ast.Tuple, ast.List)) and len(
          target.elts) == len([a for a in it.args]):
        for t, a in zip(target.elts, it.args):
          lv = self.level(a, env)
          self._bind_target(t, None, DIRECT if lv != NONE else NONE, env)
        return
      if fn == 'enumerate' and isinstance(target, (ast.Tuple, ast.List)) and len(
          target.elts) == 2 and it.args:
        lv = self.level(it.args[0], env)
        inner = target.elts[1]
        a0 = it.args[0]
        if isinstance(a0, ast.Call) and unparse(a0.func) == 'zip' and isinstance(
            inner, (ast.Tuple, ast.List)):
          self._bind_loop(inner, a0, env)
        else:
          self._bind_target(inner, None, DIRECT if lv != NONE else NONE, env)
        return
    lv = self.level(it, env)
    self._bind_target(target, None, DIRECT if lv != NONE else NONE, env)

  def _bind(self, n: ast.AST, env):
    if isinstance(n, ast.Assign):
      lvl = self.level(n.value, env)
      for t in n.targets:
        self._bind_target(t, n.value, lvl, env)
    elif isinstance(n, ast.AnnAssign) and n.value is not None:
      self._bind_target(n.target, n.value, self.level(n.value, env), env)
    elif isinstance(n, ast.NamedExpr):
      self._bind_target(n.target, n.value, self.level(n.value, env), env)
    elif isinstance(n, (ast.For, ast.AsyncFor)):
      self._bind_loop(n.target, n.iter, env)
    elif isinstance(n, ast.comprehension):
      self._bind_loop(n.target, n.iter, env)
    elif isinstance(n, (ast.With, ast.AsyncWith)):
      for it in n.items:
        if it.optional_vars is not None:
          self._bind_target(it.optional_vars, None,
                            self.level(it.context_expr, env), env)

  def level(self, e: ast.AST | None, env: dict[str, int]) -> int:
    if e is None:
      return NONE
    if isinstance(e, ast.Name):
      return env.get(e.id, NONE)
    if isinstance(e, ast.Attribute):
      return DIRECT if self.level(e.value, env) != NONE else NONE
    if isinstance(e, ast.Subscript):
      lv = self.level(e.value, env)
      if lv == NONE:
        return NONE
      if isinstance(e.slice, ast.Slice):
        return ELEM  # slicing copies lists/tuples (numpy views: see DIRECT_METHODS)
      return DIRECT
    if isinstance(e, ast.Starred):
      return self.level(e.value, env)
    if isinstance(e, ast.IfExp):
      t, neg = e.test, False
      if isinstance(t, ast.UnaryOp) and isinstance(t.op, ast.Not):
        t, neg = t.operand, True
      if isinstance(t, ast.Name) and t.id in self.consts:
        val = bool(self.consts[t.id]) != neg
        return self.level(e.body if val else e.orelse, env)
      return max(self.level(e.body, env), self.level(e.orelse, env))
    if isinstance(e, ast.BoolOp):
      return max(self.level(v, env) for v in e.values)
    if isinstance(e, ast.NamedExpr):
      return self.level(e.value, env)
    if isinstance(e, (ast.Tuple, ast.List, ast.Set)):
      return ELEM if any(self.level(x, env) != NONE for x in e.elts) else NONE
    if isinstance(e, ast.Dict):
      return ELEM if any(self.level(x, env) != NONE for x in e.values if x) else NONE
    if isinstance(e, (ast.ListComp, ast.SetComp, ast.GeneratorExp)):
      env2 = dict(env)
      for g in e.generators:
        self._bind_loop(g.target, g.iter, env2)
      return ELEM if self.level(e.elt, env2) != NONE else NONE
    if isinstance(e, ast.DictComp):
      env2 = dict(env)
      for g in e.generators:
        self._bind_loop(g.target, g.iter, env2)
      return ELEM if self.level(e.value, env2) != NONE else NONE
    if isinstance(e, ast.Await):
      return self.level(e.value, env)
    if isinstance(e, ast.Call):
      fn = unparse(e.func)
      args = list(e.args) + [k.value for k in e.keywords]
      amax = max([self.level(a, env) for a in args] + [NONE])
      if fn in SHALLOW_COPIERS:
        return ELEM if amax != NONE else NONE
      if fn in ITER_WRAPPERS:
        return ELEM if amax != NONE else NONE
      if fn in ALIASING_CALLS:
        return DIRECT if amax != NONE else NONE
      if fn in ('getattr',) and args:
        return DIRECT if self.level(args[0], env) != NONE else NONE
      if isinstance(e.func, ast.Attribute):
        rl = self.level(e.func.value, env)
        if rl != NONE:
          if e.func.attr in ELEM_METHODS:
            return ELEM
          if e.func.attr in DIRECT_METHODS:
            return DIRECT
      return NONE
    return NONE

  # ---- mutation events --------------------------------------------------

  def mutations(self, fi: FuncInfo, tainted: dict[str, int], depth: int = 0,
                chain: tuple[str, ...] = (), seen: set | None = None,
                skip_self_init: bool = True) -> list[Mutation]:
    seen = seen if seen is not None else set()
    key = (fi.module.name, fi.qualname, tuple(sorted(tainted.items())))
    if key in seen or depth > 4:
      return []
    seen.add(key)
    env_all = self.env(fi, tainted)
    here = chain + (fi.qualname,)
    out: list[Mutation] = []
    sites = self._assign_sites(fi, env_all)
    params = set(fi.params())

    class _Env(dict):
      pass

    def env_at(node):
      """Line-ordered refinement: a local assigned only *after* this
      statement (and not in a loop shared with it) does not alias yet."""
      ln = getattr(node, 'lineno', 0)
      e = dict(env_all)
      for name, recs in sites.items():
        if name in params or name in tainted:
          continue
        lv = NONE
        for an, alv, loops in recs:
          if an.lineno <= ln or any(l.lineno <= ln <= getattr(l, 'end_lineno', l.lineno)
                                    for l in loops):
            lv = max(lv, alv)
        e[name] = lv
      return e

    env = env_all

    def hit(node, target_expr, how):
      out.append(Mutation(fi, node, unparse(target_expr), how, here))

    for n in self.live(fi.node):
      if isinstance(n, (ast.Assign, ast.AnnAssign, ast.AugAssign, ast.Delete, ast.Call)):
        env = env_at(n)
      if isinstance(n, (ast.Assign, ast.AnnAssign)):
        tg = n.targets if isinstance(n, ast.Assign) else [n.target]
        for t in tg:
          for tt in (t.elts if isinstance(t, (ast.Tuple, ast.List)) else [t]):
            if isinstance(tt, ast.Attribute) and self.level(tt.value, env) == DIRECT:
              hit(n, tt, 'attribute store')
            elif isinstance(tt, ast.Subscript) and self.level(tt.value, env) == DIRECT:
              hit(n, tt, 'item store')
      elif isinstance(n, ast.AugAssign):
        t = n.target
        if isinstance(t, ast.Attribute) and self.level(t.value, env) == DIRECT:
          hit(n, t, 'augmented attribute store')
        elif isinstance(t, ast.Subscript) and self.level(t.value, env) == DIRECT:
          hit(n, t, 'augmented item store')
        elif isinstance(t, ast.Name) and self.level(t, env) == DIRECT and not self._immutable_alias(fi, t.id):
          # `name op= x` on a local alias of an owned object mutates it in
          # place when it is a list/array; locals that provably hold an
          # int/float/bool/str (annotation of the aliased field or property)
          # merely rebind and are not reported
          hit(n, t, 'augmented store through a local alias')
      elif isinstance(n, ast.Delete):
        for t in n.targets:
          if isinstance(t, (ast.Attribute, ast.Subscript)) and self.level(
              t.value, env) == DIRECT:
            hit(n, t, 'delete')
      elif isinstance(n, ast.Call):
        f = n.func
        if isinstance(f, ast.Attribute) and f.attr in MUTATORS:
          if self.level(f.value, env) == DIRECT:
            hit(n, f.value, f'mutator .{f.attr}()')
        if unparse(f) in ('setattr', 'object.__setattr__', 'delattr') and n.args:
          if self.level(n.args[0], env) == DIRECT:
            hit(n, n.args[0], unparse(f))
        # interprocedural: tainted arguments to resolvable callees
        callee = self.resolve(n, fi)
        if callee is not None:
          sub = self._bind_call(n, callee, env)
          if sub:
            out.extend(self.mutations(callee, sub, depth + 1, here, seen))
    return out

  def _assign_sites(self, fi: FuncInfo, env) -> dict:
    """name -> [(assignment node, level of the assigned value, enclosing loops)]."""
    out: dict = {}

    def children(node):
      if isinstance(node, ast.If) and self.consts:
        t, neg = node.test, False
        if isinstance(t, ast.UnaryOp) and isinstance(t.op, ast.Not):
          t, neg = t.operand, True
        if isinstance(t, ast.Name) and t.id in self.consts:
          val = bool(self.consts[t.id]) != neg
          return list(node.body if val else node.orelse)
      return list(ast.iter_child_nodes(node))

    def loop_levels(target, it):
      e3 = dict(env)
      for x in ast.walk(target):
        if isinstance(x, ast.Name):
          e3.pop(x.id, None)
      self._bind_loop(target, it, e3)
      return {x.id: e3.get(x.id, NONE) for x in ast.walk(target) if isinstance(x, ast.Name)}

    def rec(node, loops):
      for ch in children(node):
        if isinstance(ch, (ast.FunctionDef, ast.AsyncFunctionDef, ast.ClassDef, ast.Lambda)):
          continue
        nl = loops + [ch] if isinstance(ch, (ast.For, ast.AsyncFor, ast.While)) else loops
        if isinstance(ch, ast.Assign):
          lv = self.level(ch.value, env)
          for t in ch.targets:
            self._site_targets(t, ch.value, lv, ch, nl, env, out)
        elif isinstance(ch, ast.AnnAssign) and ch.value is not None:
          self._site_targets(ch.target, ch.value, self.level(ch.value, env), ch, nl, env, out)
        elif isinstance(ch, ast.NamedExpr):
          self._site_targets(ch.target, ch.value, self.level(ch.value, env), ch, nl, env, out)
        elif isinstance(ch, (ast.For, ast.AsyncFor)):
          for name, lv in loop_levels(ch.target, ch.iter).items():
            out.setdefault(name, []).append((ch, lv, nl))
        elif isinstance(ch, ast.comprehension):
          for name, lv in loop_levels(ch.target, ch.iter).items():
            out.setdefault(name, []).append((node, lv, nl))
        elif isinstance(ch, (ast.With, ast.AsyncWith)):
          for it in ch.items:
            if it.optional_vars is not None:
              for x in ast.walk(it.optional_vars):
                if isinstance(x, ast.Name):
                  out.setdefault(x.id, []).append((ch, env.get(x.id, NONE), nl))
        elif isinstance(ch, ast.ExceptHandler) and ch.name:
          out.setdefault(ch.name, []).append((ch, NONE, nl))
        rec(ch, nl)

    rec(fi.node, [])
    return out

  def _site_targets(self, tgt, value, lvl, node, loops, env, out):
    if isinstance(tgt, ast.Name):
      out.setdefault(tgt.id, []).append((node, lvl, loops))
    elif isinstance(tgt, (ast.Tuple, ast.List)):
      if isinstance(value, (ast.Tuple, ast.List)) and len(value.elts) == len(tgt.elts):
        for t, v in zip(tgt.elts, value.elts):
          self._site_targets(t, v, self.level(v, env), node, loops, env, out)
      else:
        sub = DIRECT if lvl != NONE else NONE
        for t in tgt.elts:
          self._site_targets(t.value if isinstance(t, ast.Starred) else t, None, sub,
                             node, loops, env, out)

  _IMMUTABLE_ANN = re.compile(r'^(int|float|bool|str|bytes|complex)(\s*\|\s*None)?$')

  def _immutable_alias(self, fi: FuncInfo, name: str) -> bool:
    """Does local `name` provably hold an immutable scalar (by annotation)?"""
    vals = [x.value for x in walk_no_nested(fi.node) if isinstance(x, ast.Assign)
            and any(isinstance(t, ast.Name) and t.id == name for t in x.targets)]
    if not vals:
      return False
    for v in vals:
      if isinstance(v, ast.Constant) and isinstance(v.value, (int, float, bool, str)):
        continue
      if isinstance(v, ast.Call) and unparse(v.func) in ('len', 'int', 'float', 'bool', 'str'):
        continue
      if isinstance(v, ast.Attribute):
        classes = []
        if fi.cls is not None:
          classes.append(fi.cls)
        if isinstance(v.value, ast.Name):
          for a in fi.node.args.posonlyargs + fi.node.args.args + fi.node.args.kwonlyargs:
            if a.arg == v.value.id and a.annotation is not None:
              k = self.repo.resolve_class(fi.module, unparse(a.annotation).strip('\'"'))
              if k is not None:
                classes.append(k)
        ann = None
        for c in classes:
          for cc in self.repo.mro(c):
            for f in cc.fields:
              if f.name == v.attr:
                ann = ann or f.annotation
            m = cc.methods.get(v.attr)
            if m is not None and m.is_property and m.node.returns is not None:
              ann = ann or unparse(m.node.returns)
        if ann is not None and self._IMMUTABLE_ANN.match(ann.strip()):
          continue
      return False
    return True

  def resolve(self, call: ast.Call, fi: FuncInfo) -> FuncInfo | None:
    f = call.func
    if isinstance(f, ast.Name):
      if f.id in fi.module.functions:
        return fi.module.functions[f.id]
      return None
    ch = attr_chain(f)
    if ch and ch[0] == 'self' and len(ch) == 2 and fi.cls is not None:
      m = self.repo.find_method(fi.cls, ch[1])
      if m is not None and not m.is_property:
        return FuncInfo(m.module, m.qualname, m.node, fi.cls) if m.cls is not fi.cls else m
    if (isinstance(f, ast.Attribute) and isinstance(f.value, ast.Call)
        and unparse(f.value.func) == 'super' and fi.cls is not None):
      for c in self.repo.mro(fi.cls)[1:]:
        if f.attr in c.methods:
          return c.methods[f.attr]
    if ch and len(ch) == 2:
      mod = self.repo.resolve_module_alias(fi.module, ch[0])
      if mod is not None and ch[1] in mod.functions:
        return mod.functions[ch[1]]
    return None

  def _bind_call(self, call: ast.Call, callee: FuncInfo, env) -> dict[str, int]:
    a = callee.node.args
    params = [x.arg for x in a.posonlyargs + a.args]
    sub: dict[str, int] = {}
    is_method = callee.cls is not None and params and params[0] in ('self', 'cls')
    if is_method:
      recv = call.func.value if isinstance(call.func, ast.Attribute) else None
      if recv is not None and not (isinstance(recv, ast.Call)):
        lv = self.level(recv, env)
        if lv != NONE:
          sub[params[0]] = lv
      elif recv is not None and isinstance(recv, ast.Call) and unparse(
          recv.func) == 'super':
        if env.get('self', NONE) != NONE:
          sub[params[0]] = env['self']
      params = params[1:]
    for p, arg in zip(params, call.args):
      if isinstance(arg, ast.Starred):
        break
      lv = self.level(arg, env)
      if lv != NONE:
        sub[p] = lv
    if a.vararg and len(call.args) > len(params):
      lv = max([self.level(x, env) for x in call.args[len(params):]] + [NONE])
      if lv != NONE:
        sub[a.vararg.arg] = ELEM
    for k in call.keywords:
      if k.arg:
        lv = self.level(k.value, env)
        if lv != NONE:
          sub[k.arg] = lv
    return sub

  # ---- self field read/write sets -------------------------------------

  def field_writes(self, fi: FuncInfo, depth: int = 0, seen: set | None = None
                   ) -> dict[str, list[tuple[str, ast.AST]]]:
    """self-fields written or mutated by fi (through self-method calls too).

    Returns field -> [(how, node)], how in assign/aug/mutator/delegate/item.
    """
    seen = seen if seen is not None else set()
    k = (fi.module.name, fi.qualname, fi.cls.name if fi.cls else '')
    if k in seen or depth > 4:
      return {}
    seen.add(k)
    out: dict[str, list[tuple[str, ast.AST]]] = {}
    ci = fi.cls
    # local aliases of self fields:  x = self._f ; for s in self._f
    alias: dict[str, str] = {}
    for n in walk_no_nested(fi.node):
      if isinstance(n, ast.Assign) and len(n.targets) == 1 and isinstance(
          n.targets[0], ast.Name):
        b = self._self_field_of(n.value, ci)
        if b:
          alias[n.targets[0].id] = b
      if isinstance(n, (ast.For, ast.comprehension)):
        it = n.iter
        if isinstance(it, ast.Call) and unparse(it.func) == 'zip' and isinstance(
            n.target, (ast.Tuple, ast.List)):
          for t, a in zip(n.target.elts, it.args):
            b = self._self_field_of(a, ci)
            if b and isinstance(t, ast.Name):
              alias[t.id] = b
        else:
          b = self._self_field_of(it, ci)
          if b and isinstance(n.target, ast.Name):
            alias[n.target.id] = b

    def add(field, how, node):
      out.setdefault(self.canon_field(ci, field), []).append((how, node))

    def base_field(e):
      b = self._self_field_of(e, ci)
      if b:
        return b
      if isinstance(e, ast.Name) and e.id in alias:
        return alias[e.id]
      if isinstance(e, ast.Subscript):
        return base_field(e.value)
      return None

    for n in walk_no_nested(fi.node):
      if isinstance(n, (ast.Assign, ast.AnnAssign)):
        tg = n.targets if isinstance(n, ast.Assign) else [n.target]
        flat = []
        for t in tg:
          flat.extend(self._flatten_targets(t))
        for tt in flat:
          if is_self_attr(tt):
            add(tt.attr, 'assign', n)
          elif isinstance(tt, ast.Subscript):
            b = base_field(tt.value)
            if b:
              add(b, 'item', n)
      elif isinstance(n, ast.AugAssign):
        if is_self_attr(n.target):
          add(n.target.attr, 'aug', n)
        elif isinstance(n.target, ast.Subscript):
          b = base_field(n.target.value)
          if b:
            add(b, 'item', n)
        elif isinstance(n.target, ast.Name) and n.target.id in alias:
          add(alias[n.target.id], 'aug', n)
      elif isinstance(n, ast.Call):
        f = n.func
        if unparse(f) == 'object.__setattr__' and len(n.args) >= 2 and isinstance(
            n.args[0], ast.Name) and n.args[0].id == 'self' and isinstance(
                n.args[1], ast.Constant):
          add(n.args[1].value, 'assign', n)
        if isinstance(f, ast.Attribute):
          if f.attr in MUTATORS:
            b = base_field(f.value)
            if b:
              add(b, 'delegate' if f.attr in ('merge', 'add', 'merge_state',
                                              'update_state') else 'mutator', n)
        callee = self.resolve(n, fi)
        if callee is not None and callee.cls is not None and isinstance(
            f, ast.Attribute) and (
                (isinstance(f.value, ast.Name) and f.value.id == 'self')
                or (isinstance(f.value, ast.Call) and unparse(f.value.func) == 'super')):
          sub = self.field_writes(callee, depth + 1, seen)
          for fld, evs in sub.items():
            for how, node in evs:
              out.setdefault(fld, []).append((how, node))
    return out

  def _flatten_targets(self, t):
    if isinstance(t, (ast.Tuple, ast.List)):
      out = []
      for x in t.elts:
        out.extend(self._flatten_targets(x))
      return out
    return [t]

  def _self_field_of(self, e: ast.AST, ci: ClassInfo | None) -> str | None:
    if is_self_attr(e):
      return self.canon_field(ci, e.attr)
    return None

  def field_reads(self, fi: FuncInfo, depth: int = 0, seen: set | None = None
                  ) -> set[str]:
    """self-fields read by fi, through self methods and properties."""
    seen = seen if seen is not None else set()
    k = (fi.module.name, fi.qualname, fi.cls.name if fi.cls else '')
    if k in seen or depth > 5:
      return set()
    seen.add(k)
    out: set[str] = set()
    ci = fi.cls
    for n in walk_no_nested(fi.node):
      if is_self_attr(n) and isinstance(n.ctx, ast.Load):
        m = self.repo.find_method(ci, n.attr) if ci else None
        if m is not None and (m.is_property or True):
          if m.is_property:
            eff = FuncInfo(m.module, m.qualname, m.node, ci)
            out |= self.field_reads(eff, depth + 1, seen)
            out.add('@' + n.attr)
          else:
            eff = FuncInfo(m.module, m.qualname, m.node, ci)
            out |= self.field_reads(eff, depth + 1, seen)
        else:
          out.add(n.attr)
      if isinstance(n, ast.Call) and unparse(n.func) == 'getattr' and n.args and (
          isinstance(n.args[0], ast.Name) and n.args[0].id == 'self'):
        if len(n.args) > 1 and isinstance(n.args[1], ast.Constant):
          out.add(str(n.args[1].value))
        else:
          out.add('@dynamic')
    return out
