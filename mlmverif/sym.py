"""E5(a,b): symbolic extraction and rational-function normal forms.

Straight-line Python (assignments, returns, early-return guards, one level of
if/else) is evaluated into exact rational functions over atoms.  Atoms are
variables or uninterpreted function terms whose arguments are themselves in
canonical form (``SD`` = safe_divide, ``SQRT``, ``MIN``/``MAX`` commutative,
comparisons, subscripts, any other call).  Equality is decided by
cross-multiplication of polynomials with ``fractions.Fraction`` coefficients:
modulo commutativity/associativity, expansion, inlining of helpers and
properties, and renaming of locals.  No solver, no sampling.
"""
from __future__ import annotations

import ast
from fractions import Fraction
from typing import Any, Callable

from mlmverif.core import AnalysisError, ClassInfo, ModuleInfo, Repo, unparse


class SymUnsupported(AnalysisError):
  pass


# ---------------------------------------------------------------------------
# Polynomials: dict[monomial] -> Fraction; monomial = tuple of (atom, exp)


def _akey(a) -> str:
  return repr(a)


_SQRT_ARG: dict = {}    # SQRT atom -> its (polynomial) argument, recorded by RF.fn


def _merge_roots(e: dict) -> dict:
  """sqrt(a) * sqrt(b) = sqrt(a * b) for the non-negative arguments pos_sqrt admits: several
  first-power SQRT atoms of one monomial are folded into one, so a root written as a product of
  roots has the same normal form as the root of the product."""
  roots = [a for a, k in e.items() if k == 1 and a[0] == 'fn' and a[1] == 'SQRT' and a in _SQRT_ARG]
  if len(roots) < 2:
    return e
  prod = RF.const(1)
  for a in roots:
    prod = prod * _SQRT_ARG[a]
  merged = RF.fn('SQRT', [prod])
  if len(merged.n.t) != 1:
    return e
  (mon, c), = merged.n.t.items()
  if c != 1 or len(mon) != 1:
    return e
  out = {a: k for a, k in e.items() if a not in roots}
  out[mon[0][0]] = out.get(mon[0][0], 0) + 1
  return out


class Poly:
  __slots__ = ('t',)

  def __init__(self, terms: dict | None = None):
    self.t = {m: c for m, c in (terms or {}).items() if c != 0}

  @staticmethod
  def const(c) -> 'Poly':
    return Poly({(): Fraction(c)})

  @staticmethod
  def atom(a) -> 'Poly':
    return Poly({((a, 1),): Fraction(1)})

  def __add__(self, o: 'Poly') -> 'Poly':
    d = dict(self.t)
    for m, c in o.t.items():
      d[m] = d.get(m, 0) + c
    return Poly(d)

  def __neg__(self) -> 'Poly':
    return Poly({m: -c for m, c in self.t.items()})

  def __sub__(self, o):
    return self + (-o)

  def __mul__(self, o: 'Poly') -> 'Poly':
    d: dict = {}
    for m1, c1 in self.t.items():
      for m2, c2 in o.t.items():
        e: dict = {}
        for a, k in m1 + m2:
          e[a] = e.get(a, 0) + k
        e = _merge_roots(e)
        m = tuple(sorted(((a, k) for a, k in e.items() if k), key=lambda x: _akey(x[0])))
        d[m] = d.get(m, 0) + c1 * c2
    return Poly(d)

  def is_zero(self) -> bool:
    return not self.t

  def is_const(self) -> bool:
    return all(m == () for m in self.t)

  def const_value(self) -> Fraction:
    return self.t.get((), Fraction(0))

  def key(self):
    return tuple(sorted(((m, str(c)) for m, c in self.t.items()), key=repr))

  def __eq__(self, o):
    return isinstance(o, Poly) and self.t == o.t

  def __hash__(self):
    return hash(self.key())

  def __repr__(self):
    if not self.t:
      return '0'
    parts = []
    for m, c in sorted(self.t.items(), key=lambda x: repr(x[0])):
      mon = '*'.join(
          (atom_str(a) if k == 1 else f'{atom_str(a)}^{k}') for a, k in m)
      if not mon:
        parts.append(str(c))
      elif c == 1:
        parts.append(mon)
      else:
        parts.append(f'{c}*{mon}')
    return ' + '.join(parts)


def atom_str(a) -> str:
  if a[0] == 'var':
    return a[1]
  if a[0] == 'fn':
    return f'{a[1]}({", ".join(arg_str(x) for x in a[2])})'
  return repr(a)


def arg_str(x) -> str:
  if isinstance(x, tuple) and x and x[0] == 'rf':
    return x[1]
  if isinstance(x, tuple) and x and x[0] == 'seq':
    return '[' + ', '.join(arg_str(y) for y in x[1:]) + ']'
  if isinstance(x, tuple) and x and x[0] == 'lit':
    return str(x[1]).strip("'\"")
  return str(x)


class RF:
  """Rational function num/den."""
  __slots__ = ('n', 'd')

  def __init__(self, n: Poly, d: Poly | None = None):
    d = d if d is not None else Poly.const(1)
    if d.is_zero():
      raise SymUnsupported('division by the zero polynomial')
    if d.is_const():
      c = d.const_value()
      n = Poly({m: v / c for m, v in n.t.items()})
      d = Poly.const(1)
    self.n, self.d = n, d

  @staticmethod
  def const(c) -> 'RF':
    return RF(Poly.const(c))

  @staticmethod
  def var(name: str) -> 'RF':
    return RF(Poly.atom(('var', name)))

  @staticmethod
  def fn(name: str, args: list, commutative: bool = False) -> 'RF':
    keys = [canon(a) for a in args]
    if commutative:
      keys = sorted(keys, key=repr)
    atom = ('fn', name, tuple(keys))
    if name == 'SQRT' and len(args) == 1 and isinstance(args[0], RF) and args[0].d.is_const():
      _SQRT_ARG[atom] = args[0]
    return RF(Poly.atom(atom))

  def __add__(self, o):
    return RF(self.n * o.d + o.n * self.d, self.d * o.d)

  def __sub__(self, o):
    return RF(self.n * o.d - o.n * self.d, self.d * o.d)

  def __mul__(self, o):
    return RF(self.n * o.n, self.d * o.d)

  def __neg__(self):
    return RF(-self.n, self.d)

  def div(self, o):
    if o.n.is_zero():
      raise SymUnsupported('division by zero')
    return RF(self.n * o.d, self.d * o.n)

  def pow(self, k: int):
    if k < 0:
      return RF.const(1).div(self.pow(-k))
    r = RF.const(1)
    for _ in range(k):
      r = r * self
    return r

  def equals(self, o: 'RF') -> bool:
    return (self.n * o.d - o.n * self.d).is_zero()

  def __repr__(self):
    if self.d == Poly.const(1):
      return repr(self.n)
    return f'({self.n!r}) / ({self.d!r})'


def canon(x) -> Any:
  """Canonical hashable key for a function-term argument."""
  if isinstance(x, RF):
    n, d = x.n, x.d
    if not d.is_const():
      # normalise the sign/scale by the denominator's first coefficient
      lead = sorted(d.t.items(), key=lambda it: repr(it[0]))[0][1]
      n = Poly({m: c / lead for m, c in n.t.items()})
      d = Poly({m: c / lead for m, c in d.t.items()})
    return ('rf', repr(RF(n, d)), n.key(), d.key())
  if isinstance(x, (list, tuple)):
    return ('seq',) + tuple(canon(y) for y in x)
  if isinstance(x, Cases):
    return ('cases', repr(x))
  return ('lit', repr(x))


class Obj:
  """A symbolic object with fields (e.g. a confusion matrix)."""

  def __init__(self, cls: ClassInfo | None, fields: dict[str, Any], name: str = ''):
    self.cls, self.fields, self.name = cls, fields, name


class Cases:
  """Guarded value: [(guard key or None, value)], first match wins."""

  def __init__(self, cases):
    self.cases = cases

  def __repr__(self):
    return ' | '.join(f'[{g}] {v!r}' for g, v in self.cases)


def values_equal(a, b) -> bool:
  if isinstance(a, RF) and isinstance(b, RF):
    return a.equals(b)
  if isinstance(a, Cases) and isinstance(b, Cases):
    if len(a.cases) != len(b.cases):
      return False
    return all(ga == gb and values_equal(va, vb)
               for (ga, va), (gb, vb) in zip(a.cases, b.cases))
  if isinstance(a, (list, tuple)) and isinstance(b, (list, tuple)):
    return len(a) == len(b) and all(values_equal(x, y) for x, y in zip(a, b))
  if isinstance(a, Obj) and isinstance(b, Obj):
    return a is b
  return type(a) is type(b) and a == b


FN_ALIASES = {
    'math_utils.safe_divide': ('SD', False), 'safe_divide': ('SD', False),
    'math_utils.pos_sqrt': ('SQRT', False), 'pos_sqrt': ('SQRT', False),
    'np.sqrt': ('SQRT', False), 'math.sqrt': ('SQRT', False),
    'np.minimum': ('MIN', True), 'min': ('MIN', True),
    'np.maximum': ('MAX', True), 'max': ('MAX', True),
    'np.abs': ('ABS', False), 'abs': ('ABS', False),
    'np.sum': ('SUM', False), 'sum': ('SUM', False), 'len': ('LEN', False),
}
IDENTITY_METHODS = {'astype', 'item', 'copy'}
FLOAT_DTYPES = {'float', 'np.float64', 'np.double', 'types.DefaultDType', 'agg_types.DefaultDType', 'DefaultDType'}


class SymEval:

  def __init__(self, repo: Repo, module: ModuleInfo, max_depth: int = 12):
    self.repo, self.module, self.max_depth = repo, module, max_depth

  # -- expressions

  def expr(self, e: ast.AST, env: dict[str, Any], depth: int = 0):
    if depth > self.max_depth:
      raise SymUnsupported('inlining depth exceeded')
    if isinstance(e, ast.Constant):
      if isinstance(e.value, bool) or e.value is None or isinstance(e.value, str):
        return RF.fn('LIT', [repr(e.value)])
      if isinstance(e.value, (int,)):
        return RF.const(e.value)
      if isinstance(e.value, float):
        return RF.const(Fraction(e.value).limit_denominator(10**9))
      raise SymUnsupported(f'constant {e.value!r}')
    if isinstance(e, ast.Name):
      if e.id in env:
        return env[e.id]
      return RF.var(e.id)
    if isinstance(e, ast.Attribute):
      base = e.value
      if isinstance(base, ast.Name) and base.id in env and isinstance(env[base.id], Obj):
        return self.attr(env[base.id], e.attr, depth)
      if isinstance(base, ast.Name) and base.id not in env:
        return RF.var(f'{base.id}.{e.attr}')
      b = self.expr(base, env, depth)
      if isinstance(b, Obj):
        return self.attr(b, e.attr, depth)
      if e.attr == 'T':
        return RF.fn('T', [b])
      return RF.fn('ATTR_' + e.attr, [b])
    if isinstance(e, ast.BinOp):
      l = self.expr(e.left, env, depth)
      r = self.expr(e.right, env, depth)
      if not isinstance(l, RF) or not isinstance(r, RF):
        raise SymUnsupported(f'arithmetic on non-scalar: {unparse(e)}')
      if isinstance(e.op, ast.Add):
        return l + r
      if isinstance(e.op, ast.Sub):
        return l - r
      if isinstance(e.op, ast.Mult):
        return l * r
      if isinstance(e.op, ast.Div):
        return l.div(r)
      if isinstance(e.op, ast.Pow):
        if r.d == Poly.const(1) and r.n.is_const() and r.n.const_value().denominator == 1:
          return l.pow(int(r.n.const_value()))
        return RF.fn('POW', [l, r])
      if isinstance(e.op, ast.BitAnd):
        return RF.fn('AND', [l, r], commutative=True)
      if isinstance(e.op, ast.BitOr):
        return RF.fn('OR', [l, r], commutative=True)
      if isinstance(e.op, ast.FloorDiv):
        return RF.fn('FLOORDIV', [l, r])
      if isinstance(e.op, ast.Mod):
        return RF.fn('MOD', [l, r])
      raise SymUnsupported(f'operator {type(e.op).__name__}')
    if isinstance(e, ast.UnaryOp):
      v = self.expr(e.operand, env, depth)
      if isinstance(e.op, ast.USub):
        return -v
      if isinstance(e.op, ast.UAdd):
        return v
      if isinstance(e.op, ast.Invert):
        return RF.fn('INV', [v])
      if isinstance(e.op, ast.Not):
        return RF.fn('NOT', [v])
    if isinstance(e, ast.Compare) and len(e.ops) == 1:
      l = self.expr(e.left, env, depth)
      r = self.expr(e.comparators[0], env, depth)
      op = type(e.ops[0]).__name__
      if op in ('Lt', 'LtE'):
        return RF.fn('CMP_' + {'Lt': 'Gt', 'LtE': 'GtE'}[op], [r, l])
      return RF.fn('CMP_' + op, [l, r], commutative=op in ('Eq', 'NotEq'))
    if isinstance(e, ast.BoolOp):
      vs = [self.expr(v, env, depth) for v in e.values]
      return RF.fn('BOOL_' + type(e.op).__name__, vs)
    if isinstance(e, ast.Tuple) or isinstance(e, ast.List):
      return [self.expr(x, env, depth) for x in e.elts]
    if isinstance(e, ast.Subscript):
      b = self.expr(e.value, env, depth)
      if isinstance(b, list) and isinstance(e.slice, ast.Constant) and isinstance(
          e.slice.value, int):
        return b[e.slice.value]
      return RF.fn('IDX', [b, self._slice(e.slice, env, depth)])
    if isinstance(e, ast.IfExp):
      return RF.fn('IFEXP', [self.expr(e.test, env, depth),
                             self.expr(e.body, env, depth),
                             self.expr(e.orelse, env, depth)])
    if isinstance(e, ast.Call):
      return self.call(e, env, depth)
    if isinstance(e, ast.Starred):
      return RF.fn('STAR', [self.expr(e.value, env, depth)])
    if isinstance(e, ast.JoinedStr):
      return RF.fn('LIT', ['fstring'])
    raise SymUnsupported(f'expression {type(e).__name__}: {unparse(e)[:60]}')

  def _slice(self, s: ast.AST, env, depth):
    if isinstance(s, ast.Slice):
      return ['slice'] + [self.expr(x, env, depth) if x is not None else 'None'
                          for x in (s.lower, s.upper, s.step)]
    if isinstance(s, ast.Tuple):
      return [self._slice(x, env, depth) for x in s.elts]
    return self.expr(s, env, depth)

  def attr(self, o: Obj, name: str, depth: int):
    if name in o.fields:
      return o.fields[name]
    if o.cls is not None:
      m = self.repo.find_method(o.cls, name)
      if m is not None and m.is_property:
        ev = SymEval(self.repo, m.module, self.max_depth)
        return ev.body(m.node.body, {'self': o}, depth + 1)
    return RF.var(f'{o.name}.{name}' if o.name else name)

  def call(self, e: ast.Call, env, depth):
    fn = unparse(e.func)
    args = [self.expr(a, env, depth) for a in e.args]
    kws = [(k.arg, self.expr(k.value, env, depth)) for k in e.keywords]
    if fn in FN_ALIASES and not kws:
      name, comm = FN_ALIASES[fn]
      if name in ('MIN', 'MAX') and len(args) == 1 and isinstance(args[0], list):
        args = args[0]
      return RF.fn(name, args, commutative=comm)
    if fn == 'float' and len(e.args) == 1 and isinstance(e.args[0], ast.Constant):
      return RF.fn('LIT', [repr(str(e.args[0].value).lower())])
    if isinstance(e.func, ast.Attribute) and e.func.attr in IDENTITY_METHODS:
      return self.expr(e.func.value, env, depth)
    # a value-preserving conversion: np.asarray(x) / np.asarray(x, dtype=<floating type>)
    if fn in ('np.asarray', 'np.asanyarray', 'np.array', 'np.float64') and len(e.args) == 1 and all(
        k.arg == 'dtype' and unparse(k.value) in FLOAT_DTYPES for k in e.keywords):
      return args[0]
    # same-module helper functions are inlined
    target = None
    if isinstance(e.func, ast.Name) and e.func.id in self.module.functions:
      target = (self.module, self.module.functions[e.func.id])
    elif isinstance(e.func, ast.Attribute) and isinstance(e.func.value, ast.Name):
      mod = self.repo.resolve_module_alias(self.module, e.func.value.id)
      if mod is not None and e.func.attr in mod.functions and fn not in FN_ALIASES:
        target = (mod, mod.functions[e.func.attr])
    if target is not None:
      mod, fi = target
      a = fi.node.args
      params = [x.arg for x in a.posonlyargs + a.args]
      if (len(args) <= len(params) and not a.vararg and not a.kwarg
          and all(k in params + [x.arg for x in a.kwonlyargs] for k, _ in kws)):
        sub = dict(zip(params, args))
        sub.update({k: v for k, v in kws})
        # defaults are only supported when all parameters are supplied
        missing = [p for p in params if p not in sub]
        if not missing and self._simple_body(fi.node):
          ev = SymEval(self.repo, mod, self.max_depth)
          return ev.body(fi.node.body, sub, depth + 1)
    if isinstance(e.func, ast.Attribute):
      recv = self.expr(e.func.value, env, depth) if not (
          isinstance(e.func.value, ast.Name) and e.func.value.id not in env
      ) else RF.var(e.func.value.id)
      return RF.fn('M_' + e.func.attr, [recv] + args + [[k, v] for k, v in kws])
    return RF.fn('F_' + fn, args + [[k, v] for k, v in kws])

  def _simple_body(self, fn: ast.FunctionDef) -> bool:
    for s in fn.body:
      if isinstance(s, ast.Expr) and isinstance(s.value, ast.Constant):
        continue
      if isinstance(s, (ast.Assign, ast.Return, ast.If, ast.AnnAssign)):
        continue
      return False
    return True

  # -- statements

  def body(self, stmts: list[ast.stmt], env: dict[str, Any], depth: int = 0):
    """Evaluates a straight-line body; returns the returned value.

    Supports `if g: return X` guards and one if/else whose branches assign
    the same names (both evaluated, merged into Cases).
    """
    env = dict(env)
    guards = []
    for i, s in enumerate(stmts):
      if isinstance(s, ast.Expr) and isinstance(s.value, ast.Constant):
        continue
      if isinstance(s, ast.Assign) and len(s.targets) == 1:
        self._assign(s.targets[0], self.expr(s.value, env, depth), env)
        continue
      if isinstance(s, ast.AnnAssign) and s.value is not None:
        self._assign(s.target, self.expr(s.value, env, depth), env)
        continue
      if isinstance(s, ast.Return):
        v = self.expr(s.value, env, depth) if s.value is not None else RF.fn('LIT', ['None'])
        if guards:
          return Cases(guards + [(None, v)])
        return v
      if isinstance(s, ast.If):
        g = canon(self.expr(s.test, env, depth))
        rest = stmts[i + 1:]
        then_ret = self._ends_with_return(s.body)
        if then_ret and not s.orelse:
          v = self.body(s.body, env, depth)
          guards.append((repr(g), v))
          continue
        # if/else: evaluate the remainder under each branch
        v1 = self.body(list(s.body) + list(rest), env, depth)
        v2 = self.body(list(s.orelse) + list(rest), env, depth)
        res = Cases(guards + [(repr(g), v1), (None, v2)])
        return res
      raise SymUnsupported(f'statement {type(s).__name__} at line {s.lineno}')
    raise SymUnsupported('function body does not end in a return')

  def _ends_with_return(self, body) -> bool:
    return bool(body) and isinstance(body[-1], (ast.Return, ast.Raise)) and all(
        isinstance(x, (ast.Assign, ast.Return, ast.Expr, ast.Raise)) for x in body)

  def _assign(self, tgt, val, env):
    if isinstance(tgt, ast.Name):
      env[tgt.id] = val
    elif isinstance(tgt, ast.Tuple) and isinstance(val, list) and len(val) == len(tgt.elts):
      for t, v in zip(tgt.elts, val):
        self._assign(t, v, env)
    else:
      raise SymUnsupported(f'assignment target {unparse(tgt)}')


def eval_reference(repo: Repo, src: str, fn_name: str, env: dict[str, Any],
                   module: ModuleInfo):
  """Evaluates reference formula `fn_name` defined in Python text `src`."""
  tree = ast.parse(src)
  from mlmverif.core import FuncInfo
  mi = ModuleInfo('<reference>', '<reference>', src, tree)
  mi.imports = dict(module.imports)
  for s in tree.body:
    if isinstance(s, ast.FunctionDef):
      mi.functions[s.name] = FuncInfo(mi, s.name, s)
  ev = SymEval(repo, mi)
  return ev.body(mi.functions[fn_name].node.body, env)
