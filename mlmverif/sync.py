"""Shared helpers for the synchronisation rules (C04, C05, C13, C15)."""
from __future__ import annotations

import ast
from typing import Callable

from mlmverif import cfg as cfgm
from mlmverif.core import (AnalysisError, ClassInfo, FuncInfo, Repo, attr_chain,
                           unparse, walk_no_nested)
from mlmverif.locks import LockEngine


def const_env_for_call(call: ast.Call, callee: FuncInfo) -> dict[str, object]:
  """Constant values of the callee's parameters at this call site."""
  env: dict[str, object] = {}
  a = callee.node.args
  pos = [x.arg for x in a.posonlyargs + a.args]
  if callee.cls is not None and pos and pos[0] in ('self', 'cls'):
    pos = pos[1:]
  defaults = a.defaults
  # defaults align to the tail of positional params
  all_pos = [x.arg for x in a.posonlyargs + a.args]
  for name, d in zip(all_pos[len(all_pos) - len(defaults):], defaults):
    if isinstance(d, ast.Constant):
      env[name] = d.value
  for k, d in zip(a.kwonlyargs, a.kw_defaults):
    if isinstance(d, ast.Constant):
      env[k.arg] = d.value
  for name, arg in zip(pos, call.args):
    if isinstance(arg, ast.Constant):
      env[name] = arg.value
    else:
      env.pop(name, None)
  for k in call.keywords:
    if k.arg is None:
      continue
    if isinstance(k.value, ast.Constant):
      env[k.arg] = k.value.value
    else:
      env.pop(k.arg, None)
  return env


def prune_by_consts(env: dict[str, object]) -> Callable:
  """edge_ok that removes branches decided by constant parameters."""

  def ok(n: cfgm.Node, m: cfgm.Node, lab: str) -> bool:
    if n.kind == 'cond' and lab in ('true', 'false'):
      t = n.ast
      neg = False
      if isinstance(t, ast.UnaryOp) and isinstance(t.op, ast.Not):
        t, neg = t.operand, True
      if isinstance(t, ast.Name) and t.id in env:
        val = bool(env[t.id]) != neg
        return (lab == 'true') == val
    return True

  return ok


class Sync:
  """Must-notify / must-call summaries on top of the lock engine."""

  def __init__(self, repo: Repo, eng: LockEngine):
    self.repo = repo
    self.eng = eng
    self._memo: dict = {}

  def direct_notify(self, node: cfgm.Node, fi: FuncInfo, lock: str,
                    binding: dict[str, str] | None = None,
                    need_all: bool = False) -> bool:
    for x in cfgm.node_exprs(node):
      if isinstance(x, ast.Call) and isinstance(x.func, ast.Attribute):
        if x.func.attr == 'notify_all' or (
            x.func.attr == 'notify' and not need_all):
          if self.eng.lock_id(x.func.value, fi, binding or {}) == lock:
            return True
    return False

  def node_notifies(self, node: cfgm.Node, fi: FuncInfo, lock: str,
                    binding: dict[str, str] | None = None,
                    need_all: bool = False, depth: int = 0,
                    assume_true: tuple[str, ...] = ()) -> bool:
    """True if executing `node` normally always notifies `lock`.

    `assume_true` names self-attributes/properties known to be truthy on the
    queried path (e.g. enqueue_done once _exception is set); branches testing
    them are pruned inside callees.
    """
    if self.direct_notify(node, fi, lock, binding, need_all):
      return True
    if depth > 4:
      return False
    for x in cfgm.node_exprs(node):
      if not isinstance(x, ast.Call):
        continue
      r = self.eng.resolve_call(x, fi)
      if r is None:
        continue
      callee, self_cls = r
      if callee.is_property:
        continue
      eff = callee if (self_cls is None or self_cls is callee.cls) else FuncInfo(
          callee.module, callee.qualname, callee.node, self_cls)
      cb: dict[str, str] = {}
      params = [a.arg for a in callee.node.args.posonlyargs + callee.node.args.args]
      if callee.cls is not None and params and params[0] in ('self', 'cls'):
        params = params[1:]
      for p, a in zip(params, x.args):
        lid = self.eng.lock_id(a, fi, binding or {})
        if lid:
          cb[p] = lid
      for k in x.keywords:
        if k.arg:
          lid = self.eng.lock_id(k.value, fi, binding or {})
          if lid:
            cb[k.arg] = lid
      env = const_env_for_call(x, callee)
      if self.fn_must_notify(eff, lock, cb, env, need_all, depth + 1,
                             assume_true):
        return True
    return False

  def fn_must_notify(self, fi: FuncInfo, lock: str, binding: dict[str, str],
                     env: dict[str, object], need_all: bool, depth: int = 0,
                     assume_true: tuple[str, ...] = ()) -> bool:
    key = (fi.module.name, fi.qualname, fi.cls.name if fi.cls else None, lock,
           tuple(sorted(binding.items())),
           tuple(sorted((k, repr(v)) for k, v in env.items())), need_all,
           assume_true)
    if key in self._memo:
      return self._memo[key]
    self._memo[key] = False  # recursion guard
    g = cfgm.cfg_of(fi.node)
    ok_edges = prune_by_consts(env)

    # locals that only ever hold one of the assumed-true attributes
    aliases: dict[str, int] = {}
    alias_ok: set[str] = set()
    if assume_true:
      for x in ast.walk(fi.node):
        if isinstance(x, ast.Assign):
          for t_ in x.targets:
            if isinstance(t_, ast.Name):
              aliases[t_.id] = aliases.get(t_.id, 0) + 1
              v_ = x.value
              if (isinstance(v_, ast.Attribute) and isinstance(v_.value, ast.Name)
                  and v_.value.id == 'self' and v_.attr in assume_true):
                alias_ok.add(t_.id)
      alias_ok = {a for a in alias_ok if aliases.get(a) == 1}

    def edge_ok(n, m, lab):
      if lab in ('exc', 'close') or not ok_edges(n, m, lab):
        return False
      if assume_true and n.kind == 'cond' and lab in ('true', 'false'):
        t, neg = n.ast, False
        if isinstance(t, ast.UnaryOp) and isinstance(t.op, ast.Not):
          t, neg = t.operand, True
        if (isinstance(t, ast.Attribute) and isinstance(t.value, ast.Name)
            and t.value.id == 'self' and t.attr in assume_true):
          return (lab == 'true') != neg
        if isinstance(t, ast.Name) and t.id in alias_ok:
          return (lab == 'true') != neg
      return True

    through = lambda n: self.node_notifies(n, fi, lock, binding, need_all,
                                           depth, assume_true)
    w = g.must_pass(g.entry, [g.exit_ret], through, edge_ok)
    res = w is None
    self._memo[key] = res
    return res


def enclosing_loops(fn: ast.AST, target: ast.AST) -> list[ast.AST]:
  """While/For ancestors of `target` inside `fn` (innermost first)."""
  path: list[ast.AST] = []

  def rec(n, stack):
    if n is target:
      path.extend(reversed([s for s in stack if isinstance(
          s, (ast.While, ast.For, ast.AsyncFor))]))
      return True
    for c in ast.iter_child_nodes(n):
      if isinstance(c, (ast.FunctionDef, ast.AsyncFunctionDef, ast.Lambda)) and c is not fn:
        if rec_nested(c):
          return True
        continue
      if rec(c, stack + [n]):
        return True
    return False

  def rec_nested(n):
    return any(x is target for x in ast.walk(n))

  rec(fn, [])
  return path


def node_of(g: cfgm.CFG, sub: ast.AST) -> list[cfgm.Node]:
  """CFG nodes (all finally copies) whose own expressions contain `sub`."""
  return [n for n in g.nodes if any(x is sub for x in cfgm.node_exprs(n))]


def mentions_attr(node: cfgm.Node, attr: str) -> bool:
  for x in cfgm.node_exprs(node):
    if isinstance(x, ast.Attribute) and x.attr == attr:
      return True
  return False


def calls_method(node: cfgm.Node, name: str, on_self: bool = True) -> list[ast.Call]:
  out = []
  for x in cfgm.node_exprs(node):
    if isinstance(x, ast.Call) and isinstance(x.func, ast.Attribute) and (
        x.func.attr == name or (name in _ATTEMPTS and x.func.attr.lstrip('_') == name)):
      if not on_self or (isinstance(x.func.value, ast.Name)
                         and x.func.value.id == 'self'):
        out.append(x)
  return out


# the non-blocking attempts exist as a public method (which wakes the other side itself) and possibly as
# an internal raw twin (`_put_nowait`) the blocking methods call; both are "the attempt" for the rules
_ATTEMPTS = ('put_nowait', 'get_nowait')
