"""E2: statement-level CFG with exceptional and generator-close edges.

One graph per function.  Nodes are simple statements, branch conditions,
loop heads, with-enter/with-exit markers and handler entries.  Abrupt
completions (return / raise / break / continue / generator close) are routed
through enclosing ``finally`` blocks and ``with`` exits by duplicating the
finally body per continuation (the classic "inline finally" construction), so
path queries see exactly the statements Python would execute.
"""
from __future__ import annotations

import ast
import dataclasses as dc
from typing import Callable, Iterable

from mlmverif.core import AnalysisError, unparse, walk_no_nested

# Callees assumed not to raise (logging and clock reads); everything else may.
NO_RAISE_CALLS = (
    'logging.debug', 'logging.info', 'logging.warning', 'logging.error',
    'logging.exception', 'logging.log_every_n_seconds', 'logging.log',
    'time.time', 'isinstance', 'len', 'id', 'type', 'callable', 'hasattr',
    'set', 'list', 'dict', 'tuple', 'bool', 'str', 'repr', 'is_stop_iteration',
    'iter_utils.is_stop_iteration', 'is_timeout', 'courier_worker.is_timeout',
    'queue.SimpleQueue', 'futures.Future', 'collections.deque',
    'time.sleep', 'random.shuffle', 'random.sample', 'copy.copy', 'sorted',
    'itertools.chain', 'print', 'range', 'enumerate', 'zip', 'frozenset',
)

# Synchronisation primitives: misuse (RuntimeError) is what the lock rules
# detect directly, so these calls carry no exception edge of their own.
NO_RAISE_METHODS = ('acquire', 'release', 'notify', 'notify_all', 'locked',
                    'wait', 'done', 'cancel')

# Builtin exception hierarchy (child -> parent) as far as the repository uses.
EXC_PARENT = {
    'BaseException': None,
    'Exception': 'BaseException',
    'GeneratorExit': 'BaseException',
    'KeyboardInterrupt': 'BaseException',
    'SystemExit': 'BaseException',
    'StopIteration': 'Exception',
    'StopAsyncIteration': 'Exception',
    'ArithmeticError': 'Exception',
    'ZeroDivisionError': 'ArithmeticError',
    'AssertionError': 'Exception',
    'AttributeError': 'Exception',
    'LookupError': 'Exception',
    'IndexError': 'LookupError',
    'KeyError': 'LookupError',
    'LazyObjectMissingError': 'KeyError',
    'OSError': 'Exception',
    'TimeoutError': 'OSError',
    'RuntimeError': 'Exception',
    'NotImplementedError': 'RuntimeError',
    'TypeError': 'Exception',
    'ValueError': 'Exception',
    'ExceptionGroup': 'Exception',
    'queue.Empty': 'Exception',
    'queue.Full': 'Exception',
    'asyncio.QueueEmpty': 'Exception',
    'asyncio.QueueFull': 'Exception',
    'futures.CancelledError': 'BaseException',
    'asyncio.CancelledError': 'BaseException',
}


def exc_is_subclass(child: str, parent: str) -> bool | None:
  """True/False when decidable from the table, None when unknown."""
  if child == parent:
    return True
  if child not in EXC_PARENT or parent not in EXC_PARENT:
    return None
  c = child
  while c is not None:
    if c == parent:
      return True
    c = EXC_PARENT.get(c)
  return False


@dc.dataclass(eq=False)
class Node:
  id: int
  kind: str
  ast: ast.AST | None = None
  label: str = ''
  succ: list[tuple['Node', str]] = dc.field(default_factory=list)
  pred: list[tuple['Node', str]] = dc.field(default_factory=list)
  # copy tag: which abrupt continuation this finally/with-exit copy serves
  via: str = ''
  # handler bookkeeping
  exc_types: tuple[str, ...] | None = None

  @property
  def lineno(self) -> int:
    return getattr(self.ast, 'lineno', 0) if self.ast is not None else 0

  def text(self) -> str:
    if self.label:
      return self.label
    if self.ast is None:
      return self.kind
    s = unparse(self.ast).split('\n')[0]
    return s if len(s) < 100 else s[:97] + '...'

  def __repr__(self):
    return f'<{self.id}:{self.kind}:{self.text()}@{self.lineno}>'


@dc.dataclass(eq=False)
class Frame:
  type: str  # func | finally | try_body | handler | loop | with
  parent: 'Frame | None'
  handlers: list[tuple[tuple[str, ...] | None, Node]] = dc.field(
      default_factory=list
  )
  final_body: list[ast.stmt] | None = None
  with_item: ast.withitem | None = None
  with_stmt: ast.AST | None = None
  brk: Node | None = None
  cont: Node | None = None
  handler_types: tuple[str, ...] | None = None
  handler_name: str | None = None
  copies: dict = dc.field(default_factory=dict)


def _handler_types(h: ast.ExceptHandler) -> tuple[str, ...] | None:
  if h.type is None:
    return None
  if isinstance(h.type, ast.Tuple):
    return tuple(unparse(e) for e in h.type.elts)
  return (unparse(h.type),)


EXC_ALIASES: dict[str, tuple[str, ...]] = {}    # module-level tuples of exception classes, filled by core.Repo


def _expand_alias(t: str) -> tuple[str, ...]:
  if t in EXC_ALIASES:
    return tuple(x for u in EXC_ALIASES[t] for x in (_expand_alias(u) if u != t else (u,)))
  if t == '_IGNORE_ERROR_TYPES':
    return ('ValueError', 'TypeError')
  return (t,)


def handler_type_names(h: ast.ExceptHandler) -> list[str]:
  """The exception types a handler names, module-level tuple aliases expanded."""
  ts = _handler_types(h) or ()
  return [x for t in ts for x in _expand_alias(t)]


def match_handler(
    types: tuple[str, ...] | None, raised: str | None, kind: str
) -> str:
  """'yes' | 'no' | 'maybe': does a handler of `types` catch the exception."""
  if types is None:
    return 'yes'
  types = tuple(x for t in types for x in _expand_alias(t))
  if kind == 'close':
    raised = 'GeneratorExit'
  if 'BaseException' in types:
    return 'yes'
  if raised is None:
    # unknown exception raised by a call: assumed to be an Exception subclass
    return 'yes' if 'Exception' in types else 'maybe'
  res = 'no'
  for t in types:
    r = exc_is_subclass(raised, t)
    if r is True:
      return 'yes'
    if r is None:
      res = 'maybe'
  return res


class CFG:
  """Control-flow graph of one function."""

  def __init__(self, fn: ast.FunctionDef | ast.AsyncFunctionDef,
               may_raise: Callable[[ast.AST], bool] | None = None):
    self.fn = fn
    self.nodes: list[Node] = []
    self._may_raise = may_raise or default_may_raise
    self.entry = self._new('entry')
    self.exit_ret = self._new('exit_ret')
    self.exit_exc = self._new('exit_exc')
    self.exit_close = self._new('exit_close')
    self.is_generator = any(
        isinstance(n, (ast.Yield, ast.YieldFrom)) for n in walk_no_nested(fn)
    )
    self.func_frame = Frame('func', None)
    body_entry = self._block(fn.body, self.exit_ret, self.func_frame)
    self._edge(self.entry, body_entry, 'next')

  # -- construction helpers

  def _new(self, kind: str, node: ast.AST | None = None, label: str = '') -> Node:
    n = Node(len(self.nodes), kind, node, label)
    self.nodes.append(n)
    return n

  def _edge(self, a: Node, b: Node, label: str):
    if (b, label) not in a.succ:
      a.succ.append((b, label))
      b.pred.append((a, label))

  def _route(self, frame: Frame, kind: str, exc_type: str | None = None
             ) -> list[Node]:
    """Targets of an abrupt completion of `kind` raised inside `frame`."""
    f = frame
    if f.type == 'func':
      return [{'ret': self.exit_ret, 'exc': self.exit_exc,
               'close': self.exit_close}.get(kind, self.exit_exc)]
    if f.type in ('finally', 'with'):
      outer = self._route(f.parent, kind, exc_type)
      key = (kind, exc_type, tuple(n.id for n in outer))
      if key not in f.copies:
        resume = self._new('resume', label=f'resume:{kind}')
        resume.via = kind
        lab = {'ret': 'ret', 'exc': 'exc', 'close': 'close', 'brk': 'brk',
               'cont': 'cont'}[kind]
        for o in outer:
          self._edge(resume, o, lab)
        if f.type == 'finally':
          entry = self._block(f.final_body, resume, f.parent, via=kind)
        else:
          entry = self._new('with_exit', f.with_stmt)
          entry.via = kind
          entry.with_item = f.with_item  # type: ignore[attr-defined]
          self._edge(entry, resume, 'next')
        f.copies[key] = entry
      return [f.copies[key]]
    if f.type == 'try_body' and kind in ('exc', 'close'):
      targets: list[Node] = []
      for types, entry in f.handlers:
        m = match_handler(types, exc_type, kind)
        if m != 'no':
          targets.append(entry)
        if m == 'yes':
          return targets
      return targets + self._route(f.parent, kind, exc_type)
    if f.type == 'loop' and kind == 'brk':
      return [f.brk]
    if f.type == 'loop' and kind == 'cont':
      return [f.cont]
    return self._route(f.parent, kind, exc_type)

  def _raise_edges(self, n: Node, frame: Frame, exc_type: str | None = None):
    for t in self._route(frame, 'exc', exc_type):
      self._edge(n, t, 'exc')

  def _maybe_exc(self, n: Node, expr: ast.AST | None, frame: Frame):
    if expr is not None and self._may_raise(expr):
      self._raise_edges(n, frame)
    if expr is not None and any(
        isinstance(x, (ast.Yield, ast.YieldFrom)) for x in walk_no_nested(expr)
    ):
      for t in self._route(frame, 'close'):
        self._edge(n, t, 'close')
      # a generator's consumer can also throw() into it
      self._raise_edges(n, frame)

  def _current_handler(self, frame: Frame) -> Frame | None:
    f = frame
    while f is not None:
      if f.type == 'handler':
        return f
      if f.type == 'func':
        return None
      f = f.parent
    return None

  def _raised_type(self, stmt: ast.Raise, frame: Frame) -> str | None:
    h = self._current_handler(frame)
    if stmt.exc is None:
      if h and h.handler_types and len(h.handler_types) == 1:
        return h.handler_types[0]
      return None
    e = stmt.exc
    if isinstance(e, ast.Call):
      return unparse(e.func)
    if isinstance(e, ast.Name):
      if h and h.handler_name == e.id and h.handler_types and len(
          h.handler_types) == 1:
        return h.handler_types[0]
      if e.id in EXC_PARENT:
        return e.id
    return None

  # -- statements

  def _block(self, stmts: list[ast.stmt], nxt: Node, frame: Frame,
             via: str = '') -> Node:
    cur = nxt
    for s in reversed(stmts):
      cur = self._stmt(s, cur, frame, via)
    return cur

  def _stmt(self, s: ast.stmt, nxt: Node, frame: Frame, via: str) -> Node:
    if isinstance(s, ast.If):
      c = self._new('cond', s.test)
      c.via = via
      c.stmt = s  # type: ignore[attr-defined]
      self._edge(c, self._block(s.body, nxt, frame, via), 'true')
      self._edge(c, self._block(s.orelse, nxt, frame, via), 'false')
      self._maybe_exc(c, s.test, frame)
      return c
    if isinstance(s, ast.While):
      c = self._new('cond', s.test)
      c.via = via
      c.stmt = s  # type: ignore[attr-defined]
      c.is_loop = True  # type: ignore[attr-defined]
      lf = Frame('loop', frame, brk=nxt, cont=c)
      self._edge(c, self._block(s.body, c, lf, via), 'true')
      const_true = isinstance(s.test, ast.Constant) and bool(s.test.value)
      if not const_true:
        self._edge(c, self._block(s.orelse, nxt, frame, via), 'false')
      self._maybe_exc(c, s.test, frame)
      return c
    if isinstance(s, (ast.For, ast.AsyncFor)):
      it = self._new('for_iter', s)
      it.via = via
      it.label = f'for {unparse(s.target)} in {unparse(s.iter)}'
      lf = Frame('loop', frame, brk=nxt, cont=it)
      self._edge(it, self._block(s.body, it, lf, via), 'true')
      self._edge(it, self._block(s.orelse, nxt, frame, via), 'false')
      self._raise_edges(it, frame)
      if isinstance(s, ast.AsyncFor) or any(
          isinstance(x, (ast.Yield, ast.YieldFrom, ast.Await))
          for x in walk_no_nested(s.iter)
      ):
        for t in self._route(frame, 'close'):
          self._edge(it, t, 'close')
      return it
    if isinstance(s, (ast.With, ast.AsyncWith)):
      return self._with(s, list(s.items), nxt, frame, via)
    if isinstance(s, ast.Try) or s.__class__.__name__ == 'TryStar':
      return self._try(s, nxt, frame, via)
    if isinstance(s, ast.Match):
      subj = self._new('cond', s.subject)
      subj.via = via
      subj.stmt = s  # type: ignore[attr-defined]
      has_wild = False
      for case in s.cases:
        self._edge(subj, self._block(case.body, nxt, frame, via), 'case')
        p = case.pattern
        if (isinstance(p, ast.MatchAs) and p.pattern is None
            and case.guard is None):
          has_wild = True
      if not has_wild:
        self._edge(subj, nxt, 'false')
      self._maybe_exc(subj, s.subject, frame)
      return subj
    if isinstance(s, ast.Return):
      n = self._new('stmt', s)
      n.via = via
      for t in self._route(frame, 'ret'):
        self._edge(n, t, 'ret')
      self._maybe_exc(n, s.value, frame)
      return n
    if isinstance(s, ast.Raise):
      n = self._new('stmt', s)
      n.via = via
      self._raise_edges(n, frame, self._raised_type(s, frame))
      return n
    if isinstance(s, ast.Break):
      n = self._new('stmt', s)
      n.via = via
      for t in self._route(frame, 'brk'):
        self._edge(n, t, 'brk')
      return n
    if isinstance(s, ast.Continue):
      n = self._new('stmt', s)
      n.via = via
      for t in self._route(frame, 'cont'):
        self._edge(n, t, 'cont')
      return n
    if isinstance(s, (ast.FunctionDef, ast.AsyncFunctionDef, ast.ClassDef)):
      n = self._new('def', s, label=f'def {s.name}')
      n.via = via
      self._edge(n, nxt, 'next')
      return n
    if isinstance(s, ast.Assert):
      n = self._new('stmt', s)
      n.via = via
      self._edge(n, nxt, 'next')
      self._raise_edges(n, frame, 'AssertionError')
      return n
    if isinstance(s, (ast.Expr, ast.Assign, ast.AugAssign, ast.AnnAssign,
                      ast.Delete, ast.Pass, ast.Global, ast.Nonlocal,
                      ast.Import, ast.ImportFrom)):
      n = self._new('stmt', s)
      n.via = via
      self._edge(n, nxt, 'next')
      # annotations of local variables are never evaluated
      self._maybe_exc(n, s.value if isinstance(s, ast.AnnAssign) else s, frame)
      return n
    raise AnalysisError(
        f'CFG: unsupported statement kind {type(s).__name__} at line'
        f' {getattr(s, "lineno", "?")}'
    )

  def _with(self, s, items, nxt: Node, frame: Frame, via: str) -> Node:
    item, rest = items[0], items[1:]
    enter = self._new('with_enter', s)
    enter.via = via
    enter.with_item = item  # type: ignore[attr-defined]
    enter.label = f'with {unparse(item.context_expr)}'
    wf = Frame('with', frame, with_item=item, with_stmt=s)
    normal_exit = self._new('with_exit', s)
    normal_exit.via = via
    normal_exit.with_item = item  # type: ignore[attr-defined]
    normal_exit.label = f'exit with {unparse(item.context_expr)}'
    self._edge(normal_exit, nxt, 'next')
    if rest:
      body = self._with(s, rest, normal_exit, wf, via)
    else:
      body = self._block(s.body, normal_exit, wf, via)
    self._edge(enter, body, 'next')
    # entering the context manager may itself raise (outside the with frame)
    if self._may_raise(item.context_expr):
      self._raise_edges(enter, frame)
    return enter

  def _try(self, s, nxt: Node, frame: Frame, via: str) -> Node:
    fin_frame = frame
    after = nxt
    if s.finalbody:
      fin_frame = Frame('finally', frame, final_body=s.finalbody)
      after = self._block(s.finalbody, nxt, frame, via or 'fin')
    handlers = []
    for h in s.handlers:
      hn = self._new('handler', h)
      hn.via = via
      types = _handler_types(h)
      hn.exc_types = types
      hn.label = f'except {", ".join(types) if types else ""}'
      hf = Frame('handler', fin_frame, handler_types=types,
                 handler_name=h.name)
      self._edge(hn, self._block(h.body, after, hf, via), 'next')
      handlers.append((types, hn))
    else_entry = self._block(s.orelse, after, fin_frame, via)
    bf = Frame('try_body', fin_frame, handlers=handlers)
    return self._block(s.body, else_entry, bf, via)

  # -- queries

  def stmt_nodes(self, pred: Callable[[Node], bool] | None = None) -> list[Node]:
    return [n for n in self.nodes if pred is None or pred(n)]

  def find(self, pred: Callable[[ast.AST], bool]) -> list[Node]:
    """Nodes whose own (non-nested) AST contains a sub-node satisfying pred."""
    out = []
    for n in self.nodes:
      if n.ast is None or n.kind in ('with_exit', 'def'):
        continue
      if any(pred(x) for x in node_exprs(n)):
        out.append(n)
    return out

  def reachable(
      self,
      srcs: Iterable[Node],
      avoid: Callable[[Node], bool] | None = None,
      edge_ok: Callable[[Node, Node, str], bool] | None = None,
      include_src: bool = False,
  ) -> dict[Node, tuple[Node, str] | None]:
    """Forward reachability; returns node -> (pred, label) for witnesses.

    Nodes satisfying `avoid` are not expanded (nor reported), except sources.
    """
    seen: dict[Node, tuple[Node, str] | None] = {}
    work = []
    for s in srcs:
      if include_src:
        seen[s] = None
      work.append(s)
    started = set()
    while work:
      n = work.pop()
      if n in started:
        continue
      started.add(n)
      for m, lab in n.succ:
        if edge_ok is not None and not edge_ok(n, m, lab):
          continue
        if avoid is not None and avoid(m):
          continue
        if m not in seen:
          seen[m] = (n, lab)
          work.append(m)
    return seen

  def path_to(self, reach: dict, target: Node) -> list[str]:
    out = []
    cur = target
    guard = 0
    while cur is not None and guard < 500:
      guard += 1
      out.append(f'L{cur.lineno}:{cur.kind}:{cur.text()}')
      step = reach.get(cur)
      if step is None:
        break
      cur = step[0]
    return list(reversed(out))

  def must_pass(
      self,
      src: Node,
      exits: Iterable[Node],
      through: Callable[[Node], bool],
      edge_ok: Callable[[Node, Node, str], bool] | None = None,
  ) -> list[str] | None:
    """None if every path src→exits passes a `through` node, else a witness."""
    exits = list(exits)
    reach = self.reachable([src], avoid=through, edge_ok=edge_ok)
    for e in exits:
      if e in reach:
        return self.path_to(reach, e)
    return None

  def dominates(self, a_pred: Callable[[Node], bool], b: Node,
                edge_ok=None) -> list[str] | None:
    """None if every entry→b path passes a node satisfying a_pred."""
    reach = self.reachable([self.entry], avoid=a_pred, edge_ok=edge_ok)
    if b in reach:
      return self.path_to(reach, b)
    return None

  @property
  def exits(self) -> list[Node]:
    return [self.exit_ret, self.exit_exc, self.exit_close]


def node_exprs(n: Node) -> list[ast.AST]:
  """AST sub-nodes evaluated *at* this CFG node (no nested defs/bodies)."""
  a = n.ast
  if a is None:
    return []
  if n.kind == 'for_iter':
    return list(walk_no_nested(a.iter)) + list(walk_no_nested(a.target))
  if n.kind in ('with_enter',):
    item = getattr(n, 'with_item', None)
    return list(walk_no_nested(item.context_expr)) if item else []
  if n.kind == 'with_exit':
    return []
  if n.kind == 'handler':
    return []
  if n.kind == 'def':
    return []
  if isinstance(a, ast.AnnAssign):
    out = list(walk_no_nested(a.target))
    if a.value is not None:
      out += list(walk_no_nested(a.value))
    return out
  return list(walk_no_nested(a))


def default_may_raise(expr: ast.AST) -> bool:
  for x in walk_no_nested(expr):
    if isinstance(x, ast.Call):
      if unparse(x.func) in NO_RAISE_CALLS:
        continue
      if isinstance(x.func, ast.Attribute) and x.func.attr in NO_RAISE_METHODS:
        continue
      return True
    if isinstance(x, ast.Subscript) and isinstance(x.ctx, ast.Load):
      return True
    if isinstance(x, (ast.Await, ast.Raise, ast.Assert, ast.Starred)):
      return True
    # arithmetic: only division-like and power operators are modelled as
    # raising (ZeroDivisionError); + - * on numbers/arrays are assumed total
    if isinstance(x, ast.BinOp) and isinstance(
        x.op, (ast.Div, ast.FloorDiv, ast.Mod, ast.Pow, ast.MatMult)):
      return True
    if isinstance(x, ast.Delete):
      return True
    if isinstance(x, ast.AugAssign) and isinstance(
        x.target, ast.Subscript
    ):
      return True
  return False


def only_normal(n: Node, m: Node, lab: str) -> bool:
  return lab not in ('exc', 'close')


def no_close(n: Node, m: Node, lab: str) -> bool:
  return lab != 'close'


def cfg_of(fn: ast.FunctionDef | ast.AsyncFunctionDef) -> CFG:
  c = getattr(fn, '_mlm_cfg', None)
  if c is None:
    c = CFG(fn)
    fn._mlm_cfg = c  # type: ignore[attr-defined]
  return c


def must_facts(g: 'CFG', gen_edge, kill) -> dict:
  """Forward must-analysis over normal edges.

  facts[n] is the set of facts that hold on EVERY normal path from the entry to
  the start of n.  `gen_edge(node, label)` returns the facts established by
  leaving `node` along the edge labelled `label` (e.g. the conjuncts of a test
  on its true edge); `kill(node, fact)` says whether executing `node`
  invalidates `fact` (e.g. the loop target being re-bound).
  """
  TOP = None
  facts: dict = {n: TOP for n in g.nodes}
  facts[g.entry] = frozenset()
  work = [g.entry]
  while work:
    n = work.pop()
    cur = facts[n]
    if cur is TOP:
      continue
    kept = frozenset(f for f in cur if not kill(n, f))
    for s, lab in n.succ:
      if lab in ('exc', 'close'):
        continue
      out = kept | frozenset(gen_edge(n, lab))
      old = facts[s]
      new = out if old is TOP else (old & out)
      if old is TOP or new != old:
        facts[s] = new
        work.append(s)
  return {n: (f if f is not None else frozenset()) for n, f in facts.items()}


def truthy_conjuncts(test: ast.AST, label: str) -> list[ast.AST]:
  """Sub-expressions known to be truthy when `test` leaves along `label`."""
  neg = False
  t = test
  while isinstance(t, ast.UnaryOp) and isinstance(t.op, ast.Not):
    neg = not neg
    t = t.operand
  want_true = (label == 'true') != neg
  if label not in ('true', 'false'):
    return []
  if want_true:
    if isinstance(t, ast.BoolOp) and isinstance(t.op, ast.And):
      out = []
      for v in t.values:
        out += truthy_conjuncts(v, 'true')
      return out
    if isinstance(t, ast.NamedExpr):
      return [t, t.value]
    return [t]
  # the test is false
  if isinstance(t, ast.BoolOp) and isinstance(t.op, ast.Or):
    out = []
    for v in t.values:
      out += truthy_conjuncts(v, 'false')
    return out
  if isinstance(t, ast.UnaryOp) and isinstance(t.op, ast.Not):
    return truthy_conjuncts(t.operand, 'true')
  return []
