"""Provenance analysis: is a value provably in ascending order?

Some library calls silently return garbage when an argument is not sorted
(`np.interp` xp, `np.searchsorted`, `bisect.*`, `np.digitize` bins).  The
analysis answers, for an expression at a call site, whether every value that
can reach it was produced by an ordering producer (`sorted`, `np.sort`,
`np.unique`, `np.arange`, `np.linspace`, `range`) possibly wrapped by
order-preserving conversions, following locals (all assignments), instance
fields (normalising stores in `__post_init__`/`__init__`, every other store,
every constructor call site in the repository and the declared default).
The answer is `(True, why)` or `(False, reason)`; it never guesses.
"""
from __future__ import annotations

import ast

from mlmverif.core import ClassInfo, FuncInfo, Repo, is_self_attr, unparse, walk_no_nested

PRODUCERS = {'sorted', 'np.sort', 'numpy.sort', 'np.unique', 'numpy.unique', 'np.arange',
             'numpy.arange', 'np.linspace', 'numpy.linspace', 'range', 'np.cumsum'}
PRESERVING = {'np.asarray', 'np.array', 'numpy.asarray', 'numpy.array', 'list', 'tuple',
              'np.asfarray', 'np.ascontiguousarray', 'np.float32', 'np.float64', 'np.copy',
              'copy.copy', 'copy.deepcopy'}
PRESERVING_METHODS = {'astype', 'copy', 'ravel', 'flatten', 'tolist'}


def _prefix_sums(e: ast.AST) -> bool:
  """itertools.accumulate(map(len, X)[, operator.add]) — running sums of lengths."""
  if not (isinstance(e, ast.Call) and unparse(e.func).split('.')[-1] == 'accumulate' and e.args):
    return False
  if len(e.args) > 1 and unparse(e.args[1]).split('.')[-1] != 'add':
    return False
  if any(k.arg not in (None,) and k.arg != 'func' for k in e.keywords):
    return False
  a = e.args[0]
  return isinstance(a, ast.Call) and unparse(a.func) == 'map' and len(a.args) == 2 and unparse(
      a.args[0]) == 'len' or isinstance(a, ast.GeneratorExp) and isinstance(
          a.elt, ast.Call) and unparse(a.elt.func) == 'len'


class Sortedness:

  def __init__(self, repo: Repo):
    self.repo = repo
    self._field_cache: dict[tuple[str, str], tuple[bool, str]] = {}
    self._busy: set = set()
    self._extended: set = set()

  # -- expressions -----------------------------------------------------------

  def expr(self, e: ast.AST, fi: FuncInfo, depth: int = 0) -> tuple[bool, str]:
    if depth > 8:
      return False, 'provenance chain too deep'
    if isinstance(e, ast.Constant) and isinstance(e.value, (int, float)):
      return True, 'scalar constant'
    if isinstance(e, (ast.Tuple, ast.List)) and all(
        isinstance(x, ast.Constant) and isinstance(x.value, (int, float)) for x in e.elts):
      vals = [x.value for x in e.elts]
      if vals == sorted(vals):
        return True, 'sorted literal'
      return False, f'unsorted literal {unparse(e)}'
    if isinstance(e, ast.Call):
      fn = unparse(e.func)
      if fn in PRODUCERS:
        if fn == 'sorted' and any(k.arg == 'reverse' for k in e.keywords):
          return False, 'sorted(..., reverse=...)'
        return True, f'{fn}(...)'
      if fn in PRESERVING and e.args:
        return self.expr(e.args[0], fi, depth + 1)
      if isinstance(e.func, ast.Attribute) and e.func.attr in PRESERVING_METHODS:
        return self.expr(e.func.value, fi, depth + 1)
      return False, f'result of {fn}(...) is not known to be ordered'
    if isinstance(e, ast.Name):
      vals = []
      for x in walk_no_nested(fi.node):
        if isinstance(x, ast.Assign) and any(
            isinstance(t, ast.Name) and t.id == e.id for t in x.targets):
          vals.append(x.value)
        elif isinstance(x, (ast.AugAssign, ast.AnnAssign)) and isinstance(
            x.target, ast.Name) and x.target.id == e.id:
          if isinstance(x, ast.AugAssign) or x.value is None:
            return False, f'`{e.id}` is updated in place'
          vals.append(x.value)
        elif isinstance(x, (ast.For, ast.comprehension)) and any(
            isinstance(t, ast.Name) and t.id == e.id for t in ast.walk(x.target)):
          return False, f'`{e.id}` is a loop target'
      if not vals:
        if e.id in fi.params():
          return False, f'`{e.id}` is a parameter of {fi.qualname} (caller-supplied order)'
        return False, f'`{e.id}` has no visible definition'
      for v in vals:
        ok, why = self.expr(v, fi, depth + 1)
        if not ok:
          return False, f'`{e.id}` = {unparse(v)[:50]}: {why}'
      return True, f'every definition of `{e.id}` is ordered'
    if isinstance(e, ast.Attribute) and isinstance(e.value, ast.Name) and e.value.id == 'self' and fi.cls:
      return self.field(fi.cls, e.attr)
    return False, f'`{unparse(e)[:50]}` is not tracked'

  # -- fields ----------------------------------------------------------------

  def _stores(self, ci: ClassInfo, fld: str):
    """(method, value, unconditional) for every store to self.<fld> in ci's family."""
    fam = [c for c in self.repo.mro(ci)] + self.repo.subclasses(ci)
    seen = set()
    for c in fam:
      for m in c.methods.values():
        if id(m.node) in seen:
          continue
        seen.add(id(m.node))
        mi = FuncInfo(m.module, m.qualname, m.node, c)
        top = set(map(id, m.node.body))
        for x in walk_no_nested(m.node):
          if isinstance(x, ast.Assign):
            for t in x.targets:
              if is_self_attr(t, fld):
                yield mi, x.value, id(x) in top
          elif isinstance(x, ast.AugAssign) and is_self_attr(x.target, fld):
            yield mi, None, False
          elif isinstance(x, ast.Expr) and isinstance(x.value, ast.Call):
            c_ = x.value
            if unparse(c_.func) in ('object.__setattr__', 'setattr') and len(c_.args) == 3 and (
                unparse(c_.args[0]) == 'self' and isinstance(c_.args[1], ast.Constant)
                and c_.args[1].value == fld):
              yield mi, c_.args[2], id(x) in top
          if isinstance(x, ast.Call) and isinstance(x.func, ast.Attribute) and is_self_attr(
              x.func.value, fld):
            a = x.func.attr
            if a == 'sort' and not any(k.arg == 'reverse' for k in x.keywords):
              continue
            if a == 'extend' and len(x.args) == 1 and _prefix_sums(x.args[0]):
              yield mi, ast.Constant(0), False  # non-negative running sums
              self._extended.add(fld)
              continue
            if a in ('append', 'extend', 'insert', 'pop', 'remove', 'reverse', 'appendleft',
                     'clear', '__setitem__', 'put', 'fill', 'resize'):
              yield mi, None, False
          if isinstance(x, (ast.Assign, ast.AugAssign)):
            for t in (x.targets if isinstance(x, ast.Assign) else [x.target]):
              if isinstance(t, ast.Subscript) and is_self_attr(t.value, fld):
                yield mi, None, False

  def field(self, ci: ClassInfo, fld: str) -> tuple[bool, str]:
    key = (f'{ci.module.name}.{ci.name}', fld)
    if key in self._field_cache:
      return self._field_cache[key]
    if key in self._busy:
      return True, 'recursive (assumed by induction)'
    self._busy.add(key)
    try:
      res = self._field(ci, fld)
    finally:
      self._busy.discard(key)
    self._field_cache[key] = res
    return res

  def _field(self, ci: ClassInfo, fld: str) -> tuple[bool, str]:
    stores = list(self._stores(ci, fld))
    if fld in self._extended:
      for mi, val, top in stores:
        if val is not None and not (isinstance(val, ast.Constant) and val.value == 0) and unparse(
            val) != '[0]':
          return False, (f'self.{fld} is extended by running sums but seeded with'
                         f' {unparse(val)[:30]}')
    normalised = False
    for mi, val, top in stores:
      if val is None:
        return False, f'{mi.qualname} updates self.{fld} in place'
      ok, why = self.expr(val, mi)
      if not ok:
        return False, f'{mi.qualname} stores self.{fld} = {unparse(val)[:50]}: {why}'
      if top and mi.name in ('__post_init__', '__init__'):
        normalised = True
    if normalised:
      return True, f'self.{fld} is re-stored ordered by the constructor'
    # the constructor keeps what it is given: every construction site matters
    fields = [f for c in reversed(self.repo.mro(ci)) for f in c.fields]
    fdef = next((f for f in fields if f.name == fld), None)
    if fdef is None and not stores:
      return False, f'{ci.name}.{fld} is not a declared field and is never stored'
    if fdef is not None and fdef.default is not None:
      ok, why = self.expr(fdef.default, FuncInfo(ci.module, ci.name, ci.node, ci))
      if not ok:
        return False, f'default of {ci.name}.{fld}: {why}'
    if fdef is not None and fdef.init and not fld.startswith('_') and not ci.name.startswith('_'):
      return False, (f'{ci.name}.{fld} is a public constructor argument that is stored as'
                     ' given (caller-supplied order)')
    init_names = [f.name for f in fields if f.init and not f.kw_only]
    sites = 0
    for fi in self.repo.all_functions():
      for c in ast.walk(fi.node):
        if not isinstance(c, ast.Call):
          continue
        tgt = self.repo.resolve_class(fi.module, unparse(c.func))
        if tgt is None or tgt is not ci and ci not in self.repo.mro(tgt):
          continue
        val = next((k.value for k in c.keywords if k.arg == fld), None)
        if val is None and fld in init_names and init_names.index(fld) < len(c.args):
          val = c.args[init_names.index(fld)]
        if any(k.arg is None for k in c.keywords):
          return False, f'{fi.qualname} constructs {ci.name}(**...)'
        if val is None:
          continue
        sites += 1
        ok, why = self.expr(val, fi)
        if not ok:
          return False, f'{fi.qualname} constructs {ci.name}({fld}={unparse(val)[:40]}): {why}'
    return True, f'{sites} construction site(s) and {len(stores)} store(s) pass ordered values'
