#!/venv/bin/python
"""Generic benign twins #3: whole-repository, behaviour-preserving rewrites.

Each transformation is applied to EVERY non-test module of the library (as an
in-memory overlay) and every check must give the same findings per rule as on
the unchanged tree; an ANALYSIS-ERROR on the twin is reported separately (the
checker cannot analyse the rewritten shape: not a false alarm, but a
robustness gap).

  swap    if c: A else: B      ->  if not c: B else: A   (plain if/else, no elif)
  flip    a < b                ->  b > a                 (single comparisons of
                                                          simple operands)
  temp    return <call>        ->  _ret = <call>; return _ret
  demorg  not (a and b)        ->  (not a) or (not b)
  aug     n += e (local names) ->  n = n + e             (only names bound to
                                                          int/len/constants)
usage: tools/twins.py [kind[,kind]] [C04,C05]
"""
import ast
import importlib
import json
import os
import sys

sys.path.insert(0, os.path.dirname(os.path.dirname(os.path.abspath(__file__))))
from mlmverif.core import Ctx, Repo  # noqa: E402


class Swap(ast.NodeTransformer):

  def visit_If(self, n):
    self.generic_visit(n)
    if n.orelse and not (len(n.orelse) == 1 and isinstance(n.orelse[0], ast.If)):
      # walrus in the test would change scoping of evaluation only syntactically; keep those
      if any(isinstance(x, ast.NamedExpr) for x in ast.walk(n.test)):
        return n
      t = n.test
      if isinstance(t, ast.UnaryOp) and isinstance(t.op, ast.Not):
        nt = t.operand
      else:
        nt = ast.UnaryOp(op=ast.Not(), operand=t)
      return ast.copy_location(ast.If(test=nt, body=n.orelse, orelse=n.body), n)
    return n


_FLIP = {ast.Lt: ast.Gt, ast.Gt: ast.Lt, ast.LtE: ast.GtE, ast.GtE: ast.LtE}


def _simple(e):
  return isinstance(e, (ast.Name, ast.Constant, ast.Attribute)) or (
      isinstance(e, ast.Call) and isinstance(e.func, ast.Name) and e.func.id == 'len')


class Flip(ast.NodeTransformer):

  def visit_Compare(self, n):
    self.generic_visit(n)
    if len(n.ops) == 1 and type(n.ops[0]) in _FLIP and _simple(n.left) and _simple(n.comparators[0]):
      return ast.copy_location(ast.Compare(left=n.comparators[0], ops=[_FLIP[type(n.ops[0])]()],
                                           comparators=[n.left]), n)
    return n


class Temp(ast.NodeTransformer):

  def _rewrite(self, body):
    out = []
    for s in body:
      if isinstance(s, ast.Return) and isinstance(s.value, ast.Call):
        out.append(ast.copy_location(ast.Assign(targets=[ast.Name(id='_ret', ctx=ast.Store())],
                                                value=s.value, lineno=s.lineno), s))
        out.append(ast.copy_location(ast.Return(value=ast.Name(id='_ret', ctx=ast.Load())), s))
      else:
        out.append(s)
    return out

  def generic_visit(self, n):
    super().generic_visit(n)
    for f in ('body', 'orelse', 'finalbody'):
      b = getattr(n, f, None)
      if isinstance(b, list) and b and isinstance(b[0], ast.stmt):
        setattr(n, f, self._rewrite(b))
    return n


class DeMorgan(ast.NodeTransformer):

  def visit_UnaryOp(self, n):
    self.generic_visit(n)
    if isinstance(n.op, ast.Not) and isinstance(n.operand, ast.BoolOp) and not any(
        isinstance(x, ast.NamedExpr) for x in ast.walk(n.operand)):
      inner = n.operand
      op = ast.Or() if isinstance(inner.op, ast.And) else ast.And()
      return ast.copy_location(ast.BoolOp(op=op, values=[
          ast.UnaryOp(op=ast.Not(), operand=v) for v in inner.values]), n)
    return n


class Aug(ast.NodeTransformer):

  def visit_FunctionDef(self, fn):
    ints = set()
    for x in ast.walk(fn):
      if isinstance(x, ast.Assign) and len(x.targets) == 1 and isinstance(x.targets[0], ast.Name):
        v = x.value
        if isinstance(v, ast.Constant) and isinstance(v.value, (int, float)) and not isinstance(v.value, bool):
          ints.add(x.targets[0].id)
    self._ints = ints
    self.generic_visit(fn)
    return fn

  def visit_AugAssign(self, n):
    if isinstance(n.target, ast.Name) and n.target.id in getattr(self, '_ints', ()) and isinstance(
        n.op, (ast.Add, ast.Sub)):
      return ast.copy_location(ast.Assign(
          targets=[ast.Name(id=n.target.id, ctx=ast.Store())],
          value=ast.BinOp(left=ast.Name(id=n.target.id, ctx=ast.Load()), op=n.op, right=n.value),
          lineno=n.lineno), n)
    return n


KINDS = {'swap': Swap, 'flip': Flip, 'temp': Temp, 'demorg': DeMorgan, 'aug': Aug}


def findings(pid, repo):
  mod = importlib.import_module(f'mlmverif.props.{pid.lower()}')
  ctx = Ctx(pid, repo)
  mod.run(ctx)
  return sorted(f.key.split('|')[0] for f in ctx.findings), ctx.errors, ctx


def main():
  args = [a for a in sys.argv[1:]]
  kinds = list(KINDS)
  props = [c['property_id'] for c in json.load(
      open(os.path.join(os.path.dirname(__file__), '..', 'MANIFEST.json')))['checks']]
  for a in args:
    if a.split(',')[0] in KINDS:
      kinds = a.split(',')
    else:
      props = a.split(',')
  base = Repo()
  basef = {p: findings(p, Repo())[0] for p in props}
  bad = 0
  for k in kinds:
    overlay = {}
    for m in base.modules.values():
      t = ast.parse(m.src)
      t = KINDS[k]().visit(t)
      ast.fix_missing_locations(t)
      new = ast.unparse(t) + '\n'
      compile(new, m.relpath, 'exec')
      overlay[m.relpath] = new
    twin = base.derive(overlay)
    for p in props:
      try:
        b, eb, ctx = findings(p, twin)
      except Exception as e:  # pylint: disable=broad-exception-caught
        b, eb = [], [f'internal: {type(e).__name__}: {e}']
      extra = [r for r in b if r not in basef[p]] if sorted(b) != sorted(basef[p]) else []
      if sorted(b) != sorted(basef[p]):
        bad += 1
        print(f'{k} {p} FALSE-ALARM: base={basef[p]} twin={b}')
        for f in ctx.findings:
          if f.rule in extra:
            print('     ', f.rule, f.loc, f.construct[:100])
      elif eb:
        print(f'{k} {p} cannot-analyse: {[e[:110] for e in eb]}')
      else:
        print(f'{k} {p} same')
  return 1 if bad else 0


if __name__ == '__main__':
  sys.exit(main())
