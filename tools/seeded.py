#!/venv/bin/python
"""Runs the registered quick checks against seeded changes.

usage: tools/seeded.py [--all | <seeded-dir> ...] [--props C04,C05]

For each seeded directory (containing patch.diff and meta.json) the patch is
applied to /repo (`git apply`), every claimed check (or the listed ones) is run
with --no-evidence, and the patch is undone (`git checkout -- .`) straight
afterwards.  Prints one line per seeded change: which checks reported a
VIOLATION (exit 1), which reported ANALYSIS-ERROR (exit 2).
Nothing is ever committed to /repo.
"""
import json
import os
import subprocess
import sys

VERIF = os.path.dirname(os.path.dirname(os.path.abspath(__file__)))
REPO = '/repo'


def claimed():
  with open(os.path.join(VERIF, 'MANIFEST.json')) as fh:
    return [c['property_id'] for c in json.load(fh)['checks']]


def run_checks(props):
  from concurrent.futures import ThreadPoolExecutor

  def one(p):
    r = subprocess.run([os.path.join(VERIF, 'check'), p, 'quick', '--no-evidence'],
                       capture_output=True, text=True)
    rules = sorted({ln.split('[')[1].split(']')[0] for ln in r.stdout.splitlines()
                    if ln.strip().startswith('ml_metrics/') and '[' in ln})
    return p, (r.returncode, rules)

  # the checks only read /repo: run them side by side on the patched tree
  with ThreadPoolExecutor(min(16, len(props))) as ex:
    return dict(ex.map(one, props))


def main():
  args = sys.argv[1:]
  props = None
  if '--props' in args:
    i = args.index('--props')
    props = args[i + 1].split(',')
    del args[i:i + 2]
  dirs = []
  if '--all' in args or not args:
    base = os.path.join(VERIF, 'seeded')
    for d in sorted(os.listdir(base)):
      if os.path.exists(os.path.join(base, d, 'patch.diff')):
        dirs.append(os.path.join(base, d))
  else:
    dirs = [a for a in args if not a.startswith('--')]
  props = props or claimed()
  st = subprocess.run(['git', '-C', REPO, 'status', '--porcelain', '--untracked-files=no'],
                      capture_output=True, text=True).stdout.strip()
  if st:
    print('refusing: /repo has uncommitted changes'); return 2
  missed = 0
  for d in dirs:
    meta = {}
    try:
      meta = json.load(open(os.path.join(d, 'meta.json')))
    except Exception:
      pass
    patch = os.path.join(d, 'patch.diff')
    a = subprocess.run(['git', '-C', REPO, 'apply', patch], capture_output=True, text=True)
    if a.returncode != 0:
      print(f'{os.path.basename(d)}: patch does not apply: {a.stderr.strip()[:200]}')
      continue
    try:
      res = run_checks(props)
    finally:
      subprocess.run(['git', '-C', REPO, 'checkout', '--', '.'], check=True)
    viol = {p: r for p, (rc, r) in res.items() if rc == 1}
    err = [p for p, (rc, r) in res.items() if rc == 2]
    target = meta.get('property', '?')
    hit = target in viol
    if not hit:
      missed += 1
    print(f'{os.path.basename(d)}: target {target} -> '
          f'{"DETECTED" if hit else "MISSED"}; violations: '
          f'{ {p: r for p, r in viol.items()} or "none"}; analysis-errors: {err or "none"}')
  return 1 if missed else 0


if __name__ == '__main__':
  sys.exit(main())
