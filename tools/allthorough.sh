#!/bin/bash
# run all 20 thorough (or $1) checks in parallel; print id + exit status, skipped variants
tier=${1:-thorough}
mkdir -p /tmp/t
for i in $(seq -w 1 20); do (cd /verif && ./check C$i $tier > /tmp/t/th_C$i.txt 2>&1; echo "C$i $? $(grep -o 'skipped [0-9]*' /tmp/t/th_C$i.txt | tail -1)") & done 2>/dev/null
wait 2>/dev/null
