#!/venv/bin/python
"""Generic benign twin: re-render every module with ast.unparse (comments and
formatting gone, line numbers shifted) and require every check to give exactly
the same findings as on the original tree."""
import ast, importlib, json, os, sys
sys.path.insert(0, os.path.dirname(os.path.dirname(os.path.abspath(__file__))))
from mlmverif.core import Repo, Ctx, AnalysisError

def findings(pid, repo):
  mod = importlib.import_module(f'mlmverif.props.{pid.lower()}')
  ctx = Ctx(pid, repo)
  mod.run(ctx)
  return sorted(f.key for f in ctx.findings), ctx.errors

def main():
  props = [c['property_id'] for c in json.load(open(os.path.join(os.path.dirname(__file__), '..', 'MANIFEST.json')))['checks']]
  base = Repo()
  overlay = {m.relpath: ast.unparse(m.tree) + '\n' for m in base.modules.values()}
  twin = base.derive(overlay)
  bad = 0
  for p in props:
    a, ea = findings(p, Repo())
    b, eb = findings(p, twin)
    ok = a == b and not eb
    print(p, 'same' if ok else f'DIFFERENT: base={a} twin={b} errors={eb}')
    bad += 0 if ok else 1
  return 1 if bad else 0

if __name__ == '__main__':
  sys.exit(main())
