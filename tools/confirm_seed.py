#!/venv/bin/python
"""Confirms one seeded change in a fresh scratch worktree of /repo.

usage: tools/confirm_seed.py <dir with patch.diff, demo.py, meta.json> [--skip-tests]
Checks: demo passes on the clean tree, patch applies, demo fails with it, the
pinned test suite still reports 657 passed. The worktree is removed at the end.
Prints a JSON line with the outcome.
"""
import json, os, subprocess, sys, tempfile, re, shutil

def sh(cmd, cwd=None, timeout=1800, env=None):
  e = dict(os.environ)
  if env: e.update(env)
  r = subprocess.run(cmd, shell=True, cwd=cwd, capture_output=True, text=True, timeout=timeout, env=e)
  return r.returncode, (r.stdout + r.stderr)

def main():
  d = os.path.abspath(sys.argv[1])
  skip = '--skip-tests' in sys.argv
  name = os.path.basename(os.path.dirname(d)) + '-' + os.path.basename(d)
  wt = tempfile.mkdtemp(prefix=f'confirm-{name}-', dir='/tmp')
  os.rmdir(wt)
  out = {'dir': d, 'name': name}
  try:
    rc, o = sh(f'git -C /repo worktree add -q --detach {wt} HEAD')
    if rc: out['error'] = 'worktree: ' + o[-200:]; return out
    env = {'PYTHONPATH': wt}
    demo = os.path.join(d, 'demo.py')
    rc0, o0 = sh(f'/venv/bin/python {demo}', cwd=wt, timeout=300, env=env)
    out['demo_clean_rc'] = rc0
    rc, o = sh(f'git -C {wt} apply {os.path.join(d, "patch.diff")}')
    out['applies'] = rc == 0
    if rc: out['error'] = 'apply: ' + o[-300:]; return out
    rc1, o1 = sh(f'/venv/bin/python {demo}', cwd=wt, timeout=300, env=env)
    out['demo_changed_rc'] = rc1
    out['demo_changed_tail'] = o1.strip().splitlines()[-3:] if o1.strip() else []
    if not skip:
      rc, o = sh('/venv/bin/python -m pytest -q -p no:cacheprovider --timeout=900 --continue-on-collection-errors -n 4',
                 cwd=wt, timeout=3000, env=env)
      m = re.search(r'(\d+) passed', o)
      f = re.search(r'(\d+) failed', o)
      out['tests_passed'] = int(m.group(1)) if m else 0
      out['tests_failed'] = int(f.group(1)) if f else 0
    out['confirmed'] = (rc0 == 0 and rc1 != 0 and (skip or (out['tests_passed'] == 657 and out['tests_failed'] == 0)))
    return out
  finally:
    sh(f'git -C /repo worktree remove --force {wt}')
    shutil.rmtree(wt, ignore_errors=True)

if __name__ == '__main__':
  print(json.dumps(main()))
