#!/venv/bin/python
"""Generic benign twin #2: alpha-rename every local variable (not parameters,
not globals/nonlocals) in every function of the library and require every check
to give exactly the same findings and no analysis error."""
import ast, importlib, json, os, sys
sys.path.insert(0, os.path.dirname(os.path.dirname(os.path.abspath(__file__))))
from mlmverif.core import Repo, Ctx
import builtins

def local_names(fn):
  bound, params, banned = set(), set(), set()
  for n in ast.walk(fn):
    if isinstance(n, (ast.FunctionDef, ast.AsyncFunctionDef, ast.Lambda)):
      a = n.args
      for x in a.posonlyargs + a.args + a.kwonlyargs:
        params.add(x.arg)
      if a.vararg: params.add(a.vararg.arg)
      if a.kwarg: params.add(a.kwarg.arg)
      if not isinstance(n, ast.Lambda) and n is not fn:
        banned.add(n.name)
    if isinstance(n, (ast.Global, ast.Nonlocal)):
      banned |= set(n.names)
    if isinstance(n, ast.Name) and isinstance(n.ctx, (ast.Store, ast.Del)):
      bound.add(n.id)
    if isinstance(n, ast.ExceptHandler) and n.name:
      banned.add(n.name)      # keep handler names (they are str fields, not Name nodes)
    if isinstance(n, (ast.MatchAs, ast.MatchStar)) and getattr(n, 'name', None):
      banned.add(n.name)
    if isinstance(n, ast.ClassDef):
      banned.add(n.name)
  return {b for b in bound if b not in params and b not in banned and not hasattr(builtins, b)}

class Renamer(ast.NodeTransformer):
  def __init__(self, names): self.names = names
  def visit_Name(self, n):
    if n.id in self.names:
      n.id = n.id + '_r'
    return n

def twin_source(src):
  t = ast.parse(src)
  units = []
  for s in t.body:
    if isinstance(s, (ast.FunctionDef, ast.AsyncFunctionDef)):
      units.append(s)
    elif isinstance(s, ast.ClassDef):
      units += [m for m in s.body if isinstance(m, (ast.FunctionDef, ast.AsyncFunctionDef))]
  for u in units:
    names = local_names(u)
    if names:
      Renamer(names).visit(u)
  return ast.unparse(t) + '\n'

def findings(pid, repo):
  mod = importlib.import_module(f'mlmverif.props.{pid.lower()}')
  ctx = Ctx(pid, repo)
  mod.run(ctx)
  return sorted(f.key for f in ctx.findings), ctx.errors, ctx

def main():
  props = [c['property_id'] for c in json.load(open(os.path.join(os.path.dirname(__file__), '..', 'MANIFEST.json')))['checks']]
  if len(sys.argv) > 1:
    props = sys.argv[1].split(',')
  base = Repo()
  overlay = {}
  for m in base.modules.values():
    new = twin_source(m.src)
    compile(new, m.relpath, 'exec')
    overlay[m.relpath] = new
  twin = base.derive(overlay)
  bad = 0
  for p in props:
    a, ea, _ = findings(p, Repo())
    b, eb, ctx = findings(p, twin)
    # keys contain constructs, which legitimately change with renamed locals:
    # compare only the NUMBER of findings per rule and the absence of errors
    ra = sorted(k.split('|')[0] for k in a)
    rb = sorted(k.split('|')[0] for k in b)
    ok = ra == rb and not eb
    print(p, 'same' if ok else f'DIFFERENT: base={ra} twin={[k for k in b]} errors={eb}')
    bad += 0 if ok else 1
  return 1 if bad else 0

if __name__ == '__main__':
  sys.exit(main())
