#!/venv/bin/python
"""Confirms every not-yet-ingested change under /tmp/seed_out/<Cxx>/<a|b> (in
parallel) and copies the confirmed ones to /verif/seeded/<Cxx>-<x>/ with the
confirmation record added to meta.json."""
import json, os, shutil, subprocess, sys
from concurrent.futures import ThreadPoolExecutor
SRC = '/tmp/seed_out'
DST = '/verif/seeded'
os.makedirs(DST, exist_ok=True)
todo = []
for p in sorted(os.listdir(SRC)):
  d = os.path.join(SRC, p)
  if not os.path.isdir(d):
    continue
  for x in sorted(os.listdir(d)):
    dd = os.path.join(d, x)
    if os.path.isfile(os.path.join(dd, 'patch.diff')) and os.path.isfile(os.path.join(dd, 'demo.py')):
      name = f'{p}-{x}'
      if not os.path.exists(os.path.join(DST, name)) and not os.path.exists(os.path.join(dd, '.rejected')):
        todo.append((name, dd))
def work(item):
  name, dd = item
  r = subprocess.run(['/venv/bin/python', '/verif/tools/confirm_seed.py', dd], capture_output=True, text=True)
  line = [l for l in r.stdout.splitlines() if l.startswith('{')]
  return name, dd, json.loads(line[-1]) if line else {'error': r.stdout[-300:] + r.stderr[-300:]}
with ThreadPoolExecutor(4) as ex:
  for name, dd, res in ex.map(work, todo):
    if res.get('confirmed'):
      out = os.path.join(DST, name)
      os.makedirs(out)
      for f in ('patch.diff', 'demo.py'):
        shutil.copy(os.path.join(dd, f), os.path.join(out, f))
      meta = {}
      try:
        meta = json.load(open(os.path.join(dd, 'meta.json')))
      except Exception:
        pass
      meta['property'] = name.split('-')[0]
      meta['confirmed_by'] = {
          'what_was_run': 'tools/confirm_seed.py: fresh scratch worktree of /repo HEAD; demo.py on the clean tree (exit 0), git apply patch.diff, demo.py again (exit != 0), full pinned pytest suite (657 passed, 0 failed); worktree removed',
          'demo_clean_rc': res['demo_clean_rc'], 'demo_changed_rc': res['demo_changed_rc'],
          'tests_passed': res['tests_passed'], 'tests_failed': res['tests_failed'],
          'demo_changed_tail': res.get('demo_changed_tail'),
      }
      json.dump(meta, open(os.path.join(out, 'meta.json'), 'w'), indent=1)
      print('CONFIRMED', name)
    else:
      open(os.path.join(dd, '.rejected'), 'w').write(json.dumps(res))
      print('REJECTED ', name, json.dumps(res)[:300])
