#!/venv/bin/python
"""Regenerates the table of DESIGN.md section 9 from a `tools/seeded.py --all`
log (default /tmp/t/seeded_all.txt) and the titles in seeded/*/meta.json.
usage: tools/seedtable.py [log] > table.md"""
import ast, json, os, re, sys
VERIF = os.path.dirname(os.path.dirname(os.path.abspath(__file__)))
log = sys.argv[1] if len(sys.argv) > 1 else '/tmp/t/seeded_all.txt'
rows = []
for ln in open(log):
  m = re.match(r'(C\d\d-\w): target (C\d\d) -> (DETECTED|MISSED); violations: (.*); analysis-errors: (.*)$', ln.strip())
  if not m:
    continue
  sid, tgt, verdict, viol, err = m.groups()
  v = ast.literal_eval(viol) if viol != 'none' else {}
  meta = {}
  try:
    meta = json.load(open(os.path.join(VERIF, 'seeded', sid, 'meta.json')))
  except Exception:
    pass
  title = (meta.get('title') or meta.get('summary') or meta.get('description') or '').replace('|', '/').replace('\n', ' ')
  if len(title) > 118:
    title = title[:115] + '…'
  mine = ', '.join(v.get(tgt, [])) if verdict == 'DETECTED' else (
      '**not detected**' if err == 'none' or tgt not in err else '**cannot analyse (exit 2)**')
  others = ' '.join(f'{p}:{"/".join(r)}' for p, r in sorted(v.items()) if p != tgt)
  rows.append(f'| {sid} | {title} | {mine} | {others} |')
print('| change | what it does | reported by (target property) | also reported by |')
print('|--------|--------------|-------------------------------|------------------|')
print('\n'.join(rows))
