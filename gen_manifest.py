"""Regenerates MANIFEST.json from the table below (run: /venv/bin/python gen_manifest.py)."""
import json

CHECKS = {
    'C01': ('sufficient-statistic coverage of merge (W_acc subset of W_merge, same reduction family, same-named pairing, path coverage), default add = merge(new()), merge_states fold, update_state combines batch with running state, wrapper delegation name-to-name',
            'field read/write-set (effect) analysis over all accumulator classes + CFG must-pass queries + table agreement'),
    'C05': ('every failure store is followed by notify_all on both queue conditions on all paths; failure stored before stop announced; enqueue_done true once a failure is recorded; producer waits re-check the stop flag; timed-out waits reach only raise TimeoutError; maybe_stop wakes both sides; consumer iterators stop queue and pool on every exceptional path',
            'CFG must-pass-through path queries with interprocedural must-notify summaries over the lockset engine'),
    'C06': ('exactly one disposition per task on every path of both task-inspection loops; retried tasks re-enter the work list with their error cleared and are scheduled before new tasks; generator return value forwarded only on the StopIteration marker and other exception elements raised; STOP marker put on the state queue on every exit; acquired workers released on every exit (R-C20-6)',
            'CFG path enumeration over loop bodies, must-pass-through and dominance queries'),
    'C07': ('each confusion-matrix rate reached from the dispatch equals its textbook rational function incl. zero-denominator convention; the four counts are exactly the minterms of (true, positive) with correct provenance; aliases agree; every enum member is dispatched; per-row retrieval rates equal their definitions with arguments in the right roles and are stored under their own key; one-shot API passes its own member and forwards every parameter; closed-form statistics (MeanState, Tjur, Pearson, SPD)',
            'symbolic extraction into exact rational-function normal forms (uninterpreted safe_divide/sqrt/min), boolean minterm evaluation, table agreement'),
    'C09': ('SequenceDataSource.shard is the balanced contiguous partition for ALL n,K,k,offset and nesting (start_k=S+k*q+min(k,r), end_k=start_{k+1}); shard state record/replay agree field-for-field incl. parent chain; __len__ and iteration bounds agree; every consumed element advances the index once; round-robin test is index % num_shards != shard_index',
            'symbolic loop acceleration into piecewise-affine min/bracket terms decided by exhaustive region enumeration; table agreement; CFG pairing queries'),
    'C10': ('restored position equals captured position for every generation (polynomial identity over the shard summary); checkpoints are deep copies; restore is structure preserving; checkpoints are not read from iterators that escaped to pool threads',
            'affine symbolic relation over extracted expressions; AST/CFG structural rules; intra-class escape analysis'),
    'C11': ('merge never mutates an operand-owned object; operand-aliasing fields are never mutated in place; result() is side-effect free and no cached_property caches merge-updated fields; empty operand accepted wherever an empty receiver is; merge_states only mutates the first state',
            'effect/alias (taint) analysis of every merge-like method, interprocedural through self methods'),
    'C04': ('lockset + CFG analysis of IteratorQueue: CV discipline per calling context, predicate loops, lock balance, lock-order acyclicity, wake-up obligations, end-of-stream payload, single transfer through put/get wrappers',
            'context-sensitive lockset dataflow over a hand-built exceptional CFG; must-pass-through path queries; protocol table'),
}
CHECKS['C20'] = ('registry table only touched under its lock; refresh = one critical section with dead guard and monotone max; single audited writers; liveness = now - last heartbeat < threshold fed only the send time of completed non-failed calls; ownership test-and-set under the state lock; every acquiring pool-level operation releases on every return/raise/generator-close path; next_idle_worker never keeps an unfit worker',
                 'lockset analysis + CFG dominance/must-pass-through (acquire/release pairing incl. exceptional and generator-close exits)')
CHECKS['C13'] = ('shared input wrapped in the lock-protected iterator before fan-out and advanced under its lock; max_enqueuer equals the number of submitted producers over one materialised input list; producer return values forwarded; queue and pool stopped on every terminal path (R-C05-5)',
                 'CFG dominance with branch pruning, lockset analysis, AST table agreement')
CHECKS['C14'] = ('client RPC names/arity/keywords fit the server Bind table; compress flag and decoder agree per call site and the pickler is symmetric; returned exceptions raised and lazy results stay remote; RemoteObject forwarding wraps the matching lazy operation; sync/async siblings issue the same remote operation; shutdown substitutes TimeoutError before the error leaves',
                 'writer/reader table agreement over AST-extracted tables, normalised sibling comparison, CFG dominance')
CHECKS['C15'] = ('generator/thread fields stored only under the generator lock; previous prefetch stopped before a new queue/thread is created and started; maybe_stop dominates join; end marker only when exhausted (exception first, else StopIteration(*returned)); uninitialised answer [TimeoutError]; shutdown callback wired and run before Stop(); generator RPCs bound',
                 'lockset analysis + CFG dominance/must-pass queries')
CHECKS['C16'] = ('strict-count guard dominates every return of both merge_states and the counter is per state; shard tasks enumerate each index once; exactly one final AggregateResult per merge thread and per interleaved stage; every collected agg state is merged; terminal marker (R-C06-4) and RPC table (R-C14-1)',
                 'CFG dominance and reachability, AST structure, table agreement')
CHECKS['C08'] = ('operators only reach the copying tree API and never mutate objects owned by the records they receive; key validation dominates construction of assign/aggregate transforms and raises on duplicates / SELF mixing; sinks closed on every exit incl. generator close; possibly-empty key tuples never reach an unguarded [0] read',
                 'effect/alias (taint) analysis, CFG dominance and must-pass-through, intra-class dataflow from constructor call sites to index reads')
CHECKS['C12'] = ('every operator and the runner forward ignore_error; iter_ignore_error never wraps a generator object (return-kind inference through callers); skip path yields the sentinel it filters on and zips with the input tee; failing index advanced before re-raise; raised wrappers chain their cause; sinks closed (R-C08-3)',
                 'sibling agreement over iterate overrides, interprocedural return-kind inference, CFG must-pass queries')
CHECKS['C17'] = ('uncached path never touches the cache and evaluates afresh; hit returns the stored object; miss evaluates once/stores/returns the same object for LazyFn and raises LazyObjectMissingError otherwise; callee, args, kwargs and result all pass through _maybe_make; LRU size accounting, bounded eviction of the oldest key and hit refresh; hash uses only fields eq compares',
                 'CFG reachability/dominance with branch pruning, AST dataflow, table agreement')
CHECKS['C18'] = ('with in_place=False the set path stores only into fresh copies and never into the viewed tree; in_place threaded unchanged through recursion and every set() arm; all copy APIs route through set(in_place=False); apply copies the root; Key() pattern precedes the multi-key pattern',
                 'effect/alias analysis with constant folding of the in_place flag, AST routing checks')
CHECKS['C19'] = ('necessary bookkeeping of the flush/slice/carry loop only: every column buffered and sized from the same batch; mismatches raise; strict lock-step slicing; the held slice is emitted before being overwritten and has exactly one disposition (yield / padded yield / carry) per tail path; partial batches and padding only when exhausted; carried remainder re-buffered with its sizes; buffers reset after a flush; helpers keep the container kind; operators pass their batch sizes and column counts in the right roles. Row conservation and exact sizes as statements about values are NOT decided',
                 'CFG path enumeration and dominance over rebatched_args, AST table agreement for helpers and call sites')
CHECKS['C02'] = ('necessary bookkeeping of the per-key/per-slice state update only: the unsliced state is updated once per batch with the unmasked function and independently of slicers; every yielded (slice key, masks) pair gets its own state created on first sight and updated with the function masked by that pair; the default mask builder advances the row index once per row after recording it and masks have one entry per row; masks are applied to the selected inputs; get_result reports every state entry under its own key. Slice membership and per-slice values are NOT decided',
                 'CFG dominance/must-pass queries and AST dataflow over update_state, the mask builder and get_result; effect analysis of apply_mask')
CHECKS['C03'] = ('necessary structural conditions only: thread sharding covers each shard index once; every source is consumed under every strategy; the operator chain applies runner.fns in order, each once; the aggregate is updated once per delivered batch in the consumer, never inside the threaded chain; fusing/chaining keep all operators in order; stages are built and piped in order; the chained iterator reports all stages; the in-process stage runs the same runner. Equality of results across strategies is NOT decided (producer count/locking/merge count: C13, C16)',
                 'AST/CFG structural rules and table agreement over the runner and transform builders')
NA = {
}

def main():
  checks = []
  for pid, (text, tech) in sorted(CHECKS.items()):
    checks.append({
        'property_id': pid,
        'quick_cmd': f'./check {pid} quick',
        'thorough_cmd': f'./check {pid} thorough',
        'evidence_file': f'/verif/evidence/{pid}.json',
        'replay_cmd_template': f'./check {pid} quick --replay {{path}}',
        'engine': 'mlmverif',
        'level_claimed': {
            'category': 'other',
            'text': 'Static analysis (partial): decides, for every path/instance in the current source, these necessary structural clauses of the property: ' + text + '. It does not decide the behavioural statement itself (values, interleavings).',
            'design_ref': f'DESIGN.md section 4 ({pid})',
        },
        'level_note': 'Trusted base: python ast; the repository-specific resolver, CFG and lockset engines in /verif/mlmverif; the frozen protocol/formula tables inside the rule module; documented behaviour of threading/queue/courier. Unrecognised shapes or vanished anchors give exit 2 (ANALYSIS-ERROR), never a verdict.',
        'technique': 'static analysis: ' + tech,
    })
  man = {
      'version': 1,
      'setup_cmd': '/venv/bin/python -m compileall -q /verif/mlmverif >/dev/null 2>&1 || true',
      'hooks': {
          'guard': 'ML_METRICS_VERIF',
          'enable': 'none needed: static analysis reads /repo sources; no hooks are compiled in',
          'baseline_off_cmd': 'cd /repo && /venv/bin/python -m pytest -ra -q -p no:cacheprovider --timeout=900 --continue-on-collection-errors',
          'source_commits': [],
          'add_only': True,
      },
      'engines': [{
          'name': 'mlmverif',
          'path': '/verif/mlmverif',
          'serves_properties': sorted(CHECKS),
          'kind_free_text': 'repository-specific static analyser on stdlib ast: program index/resolver, exceptional statement CFG, context-sensitive lockset engine, effect/alias engine, symbolic normal forms, table agreement; self-validation corpus of in-memory source variants',
      }],
      'checks': checks,
      'notes': 'All checks are static (no import or execution of ml_metrics). quick = all rules; thorough = all rules + self-validation corpus (breaking variants must be detected, benign twins silent). Known genuine defects are in /verif/known_findings.json.',
      'not_applicable': [{'property_id': k, 'reason': v} for k, v in sorted(NA.items())],
  }
  with open('MANIFEST.json', 'w') as fh:
    json.dump(man, fh, indent=1)

if __name__ == '__main__':
  main()
